#!/bin/sh
# Builds /verif/.venv: an overlay on the repository's own interpreter (/venv, python 3.12)
# with z3-solver, cvc5, jsonschema, crosshair-tool, deal, icontract from the offline wheelhouse.
set -e
cd "$(dirname "$0")"
if [ -x .venv/bin/python ] && .venv/bin/python -c "import z3, jsonschema, orjson, tenacity" 2>/dev/null; then
  echo "setup: .venv already usable"; exit 0
fi
rm -rf .venv
/venv/bin/python -m venv .venv
PIP_NO_INDEX=1 .venv/bin/python -m pip install -q --no-index --find-links /opt/veriftools/wheels z3-solver cvc5 jsonschema crosshair-tool deal icontract
echo "import site; site.addsitedir('/venv/lib/python3.12/site-packages')" > .venv/lib/python3.12/site-packages/repo_deps.pth
.venv/bin/python -c "import z3, jsonschema, orjson, tenacity; print('setup ok: z3', z3.get_version_string())"
