"""Guarded value unions: a value that is one of several alternatives, each under
a z3 guard (guards are exhaustive and mutually exclusive under the path
condition).  Used for "None or number" results of contracts and for values
merged at joins.  Any operation the interpreter cannot apply to a union makes it
fork the path over the alternatives (symex.Exec.concretize)."""
from __future__ import annotations
import z3
from .values import Sym, mk_bool, bool_term, pytype, is_numeric, int_term, float_term, mk_int, mk_float, supp_of


class GV:
    __slots__ = ('alts',)

    def __init__(self, alts):
        self.alts = alts  # list of (z3 Bool guard, value) ; value is never a GV

    def __repr__(self):
        return 'GV(' + ' | '.join(f'{v!r}' for _, v in self.alts) + ')'

    @staticmethod
    def make(alts):
        flat = []
        for g, v in alts:
            g = z3.simplify(g)
            if z3.is_false(g):
                continue
            if isinstance(v, GV):
                for g2, v2 in v.alts:
                    gg = z3.simplify(z3.And(g, g2))
                    if not z3.is_false(gg):
                        flat.append((gg, v2))
            else:
                flat.append((g, v))
        if not flat:
            raise ValueError('empty union')
        # merge alternatives of the same scalar kind
        groups = {}
        order = []
        for g, v in flat:
            if v is None:
                k = 'none'
            elif isinstance(v, bool) or (isinstance(v, Sym) and v.ty == 'bool'):
                k = 'bool'
            elif isinstance(v, int) or (isinstance(v, Sym) and v.ty == 'int'):
                k = 'int'
            elif isinstance(v, float) or (isinstance(v, Sym) and v.ty == 'float'):
                k = 'float'
            else:
                k = ('obj', id(v), len(order))
            if k not in groups:
                groups[k] = []
                order.append(k)
            groups[k].append((g, v))
        out = []
        for k in order:
            items = groups[k]
            if len(items) == 1:
                out.append(items[0])
                continue
            guard = z3.simplify(z3.Or(*[g for g, _ in items]))
            if k == 'none':
                out.append((guard, None))
                continue
            # fold into an If-chain
            val = items[-1][1]
            for g, v in reversed(items[:-1]):
                if k == 'int':
                    sa, sb = supp_of(v), supp_of(val)
                    val = mk_int(z3.If(g, int_term(v), int_term(val)), None if sa is None or sb is None else sa | sb)
                elif k == 'float':
                    val = mk_float(z3.If(g, float_term(v), float_term(val)))
                else:
                    val = mk_bool(z3.If(g, bool_term(v), bool_term(val)))
            out.append((guard, val))
        if len(out) == 1:
            return out[0][1]
        return GV(out)

    def map(self, f):
        return GV.make([(g, f(v)) for g, v in self.alts])

    def guard_of(self, pred):
        """z3 Bool: the value satisfies the Python predicate `pred` (decided per alternative)."""
        gs = [g for g, v in self.alts if pred(v)]
        return z3.Or(*gs) if gs else z3.BoolVal(False)

    def is_none(self):
        return mk_bool(self.guard_of(lambda v: v is None))

    @staticmethod
    def eq(a, b):
        from .values import veq, vand, vor
        A = a.alts if isinstance(a, GV) else [(z3.BoolVal(True), a)]
        Bs = b.alts if isinstance(b, GV) else [(z3.BoolVal(True), b)]
        terms = []
        for ga, va in A:
            for gb, vb in Bs:
                e = veq(va, vb)
                if e is False:
                    continue
                et = z3.BoolVal(True) if e is True else bool_term(e)
                terms.append(z3.And(ga, gb, et))
        return mk_bool(z3.Or(*terms)) if terms else False
