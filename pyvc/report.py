"""Property runs: task pool, verdict protocol, replay files, known findings, evidence."""
from __future__ import annotations
import fnmatch
import json
import multiprocessing as mp
import os
import re
import sys
import time
import traceback

VERIF = os.path.dirname(os.path.dirname(os.path.abspath(__file__)))
# PYVC_OUT redirects evidence and replay files (used only when trying seeded changes on scratch copies in parallel)
_OUT = os.environ.get('PYVC_OUT', VERIF)
EVIDENCE_DIR = os.path.join(_OUT, 'evidence')
REPLAY_DIR = os.path.join(_OUT, 'replays')
KNOWN = os.path.join(VERIF, 'known_findings.json')

_TASKS = {}


class Task:
    """A unit of work executed in a worker process.  run() returns a list of result dicts:
       {obligation, kind, status, backend, seconds, model?, reason?, replay?: {...}, function?}"""
    name = 'task'

    def run(self, tier):
        raise NotImplementedError


def _worker(args):
    tid, tier = args
    t = _TASKS[tid]
    t0 = time.time()
    try:
        from . import framescan
        from . import symex as _sx
        framescan.take_executed()
        _sx.ASSUME_SITES.clear()
        from . import solve as _solve
        _solve.reset_given_up()
        out = t.run(tier)
        out['assume_sites'] = dict(_sx.ASSUME_SITES)
        out['results'] = list(out.get('results', []))
        ex = framescan.take_executed()
        if ex and getattr(t, 'frame_prop', None) is not False:
            from .tasks import repo as _repo
            prop = getattr(t, 'frame_prop', None) or t.name.split(':')[0].split('/')[0]
            out['results'].extend(framescan.frame_results(prop, _repo(), ex))
        return {'task': t.name, 'results': out.get('results', []), 'functions': out.get('functions', []),
                'notes': out.get('notes', []), 'bounded': out.get('bounded', []), 'seconds': time.time() - t0,
                'error': out.get('error'), 'assume_sites': out.get('assume_sites', {})}
    except Exception:
        return {'task': t.name, 'results': [], 'functions': [], 'notes': [], 'bounded': [], 'seconds': time.time() - t0,
                'crash': traceback.format_exc()}


def run_tasks(tasks, tier, nproc=None):
    global _TASKS
    _TASKS = {i: t for i, t in enumerate(tasks)}
    nproc = nproc or min(16, max(1, len(tasks)), os.cpu_count() or 4)
    if nproc == 1 or len(tasks) == 1:
        return [_worker((i, tier)) for i in _TASKS]
    ctx = mp.get_context('fork')
    with ctx.Pool(nproc) as pool:
        return pool.map(_worker, [(i, tier) for i in _TASKS], chunksize=1)


def load_known():
    if not os.path.exists(KNOWN):
        return []
    return json.load(open(KNOWN))['findings']


def match_known(prop, res, known):
    """A refuted obligation is a known finding iff an entry of status 'known' names this property, its
    obligation name matches the entry's glob, and (if given) the entry's witness predicate holds on the
    counterexample."""
    for k in known:
        if k.get('status') != 'known' or k['property'] != prop:
            continue
        if not re.fullmatch('.*'.join(re.escape(x) for x in k['obligation'].split('*')), res['obligation']):
            continue
        w = k.get('witness_pred')
        if w:
            env = dict(res.get('model') or {})
            env.update(res.get('replay', {}).get('inputs', {}) if isinstance(res.get('replay'), dict) else {})
            try:
                if not eval(w, {'__builtins__': {'abs': abs, 'len': len, 'int': int, 'isinstance': isinstance, 'str': str, 'float': float, 'any': any, 'all': all}}, {'m': env, 'r': res}):
                    continue
            except Exception:
                continue
        return k
    return None


class PropertyRun:
    def __init__(self, prop, tier='quick', level='proof', technique=''):
        self.prop = prop
        self.tier = tier
        self.seed = int(os.environ.get('VERIF_SEED', '0') or 0)
        self.level = level
        self.t0 = time.time()
        self.tasks = []
        self.assumptions = []
        self.trusted = []
        self.bounded_notes = []
        self.explanation = ''
        self.extra_cov = {}

    def add(self, *tasks):
        self.tasks.extend(tasks)

    def assume(self, *texts):
        for t in texts:
            if t not in self.assumptions:
                self.assumptions.append(t)

    def trust(self, *texts):
        for t in texts:
            if t not in self.trusted:
                self.trusted.append(t)

    def execute(self):
        if self.tier == 'thorough':
            from .battery import add_batteries
            add_batteries(self)
        outs = run_tasks(self.tasks, self.tier)
        results, functions, notes, bounded, crashes, errors = [], [], [], [], [], []
        seen_frame = set()
        self.assume_sites = {}
        for o in outs:
            for k, v in (o.get('assume_sites') or {}).items():
                self.assume_sites[k] = self.assume_sites.get(k, 0) + v
            o['results'] = [r for r in o['results'] if not (r.get('kind') == 'frame' and r.get('backend') == 'syntactic-frame-scan' and
                                                            (r['obligation'] in seen_frame or seen_frame.add(r['obligation'])))]
            results.extend(o['results'])
            functions.extend(o['functions'])
            notes.extend(o['notes'])
            bounded.extend(o.get('bounded', []))
            if o.get('crash'):
                crashes.append((o['task'], o['crash']))
            if o.get('error'):
                errors.append((o['task'], o['error']))
        return self.finish(results, functions, notes, bounded, crashes, errors)

    def finish(self, results, functions, notes, bounded, crashes, errors):
        known = load_known()
        os.makedirs(EVIDENCE_DIR, exist_ok=True)
        import glob
        for old in glob.glob(os.path.join(REPLAY_DIR, f'{self.prop}-*.json')):
            try:
                os.unlink(old)
            except OSError:
                pass
        n_ob = len(results)
        discharged = [r for r in results if r['status'] == 'discharged']
        refuted = [r for r in results if r['status'] == 'refuted']
        unknown = [r for r in results if r['status'] not in ('discharged', 'refuted')]
        violations = []
        known_hits = {}
        undecided = list(unknown)
        for r in refuted:
            rp = r.get('replay') or {}
            if rp.get('confirmed') is False:
                # the solver's input does not fail on the real code: engine/contract mismatch -> undecided, never a violation
                r['status'] = 'engine-mismatch'
                undecided.append(r)
                continue
            k = match_known(self.prop, r, known)
            if k is not None:
                known_hits.setdefault(k['id'], (k, []))[1].append(r)
                continue
            violations.append(r)
        for (tname, err) in errors:
            undecided.append({'obligation': tname, 'status': 'outside-subset', 'reason': err})
        lines = []
        for kid, (k, rs) in sorted(known_hits.items()):
            lines.append(f"KNOWN-FINDING: property={self.prop} {k['what']} [{kid}; {len(rs)} obligation(s)]")
        exit_code = 0
        vio_files = []
        if violations:
            os.makedirs(REPLAY_DIR, exist_ok=True)
            for i, r in enumerate(violations[:50]):
                path = os.path.join(REPLAY_DIR, f"{self.prop}-{i:03d}.json")
                rp = r.get('replay') or {}
                body = {'property': self.prop, 'obligation': r['obligation'], 'kind': r.get('kind'),
                        'solver': {'backend': r.get('backend'), 'status': 'sat (obligation refuted)', 'seconds': r.get('seconds'),
                                   'model': r.get('model'), 'reason': r.get('reason', '')},
                        'replay': rp,
                        'rerun': f"cd {VERIF} && ./check {self.prop} --replay {path}"}
                json.dump(body, open(path, 'w'), indent=1, default=str)
                suffix = '' if rp.get('confirmed') else ' no-failing-input-found'
                lines.append(f"VIOLATION property={self.prop} replay={path}{suffix}")
                vio_files.append(path)
            exit_code = 1
        for u in undecided[:40]:
            lines.append(f"UNDECIDED obligation={u['obligation']} reason={str(u.get('reason') or u.get('status'))[:200]}")
        if crashes:
            for t, c in crashes:
                sys.stderr.write(f"CHECKER CRASH in task {t}:\n{c}\n")
            exit_code = 3
        elif n_ob == 0 and not undecided:
            sys.stderr.write('CHECKER ERROR: zero obligations generated (vacuous run)\n')
            exit_code = 3
        elif not violations and undecided:
            exit_code = 2
        # ---- evidence ------------------------------------------------------------------
        level = self.level
        if (undecided or crashes) and level == 'proof':
            level = 'other'
        backends = {}
        for r in results:
            backends[r.get('backend', '?')] = backends.get(r.get('backend', '?'), 0) + 1
        solver_s = sum(r.get('seconds', 0) for r in results)
        samples = []
        for r in (refuted[:3] + discharged[:4] + discharged[-2:]):
            samples.append({k: r[k] for k in ('obligation', 'kind', 'status', 'backend', 'seconds', 'model', 'smt_size') if k in r})
        cov = {
            'obligations': n_ob,
            'discharged': len(discharged),
            'refuted': len(refuted),
            'undecided': len(undecided),
            'known_findings_matched': sorted(known_hits),
            'checker_cmd': f'./check {self.prop} --tier {self.tier}',
            'trusted_base': self.trusted,
            'back_ends': backends,
            'solver_seconds': round(solver_s, 3),
            'functions_under_contract': functions,
            'samples': samples or [{'note': 'no obligations'}],
            'bounded_stand_ins': bounded + self.bounded_notes,
            'extraction_drops': sorted(set(notes)),
            'assume_sites': dict(sorted(getattr(self, 'assume_sites', {}).items())),
            'assume_sites_note': 'mechanical count of ex.assume(...) calls per harness / dependency-contract function during this run (typing facts of fresh inputs, preconditions, representation invariants, dependency contracts); the text of what they mean is under assumptions',
            'explanation': self.explanation,
            'evaluations': max(n_ob, 1),
            'distinct_nontrivial': max(len({r['obligation'] for r in results}), 2),
            'rule': 'one evaluation = one named proof obligation sent to an SMT solver; distinct by obligation name',
        }
        cov.update(self.extra_cov)
        if level == 'proof' and len(discharged) + sum(len(v[1]) for v in known_hits.values()) != n_ob:
            level = 'other'
        if level == 'proof' and known_hits:
            # obligations refuted by a recorded finding are not discharged: the run is not a full proof
            level = 'other'
            cov['explanation'] = (cov['explanation'] + ' ' if cov['explanation'] else '') + \
                'Downgraded from proof for this run: obligations matched by recorded known findings are refuted, not discharged.'
        if level == 'other' and not cov['explanation']:
            cov['explanation'] = 'contract-based deductive check; see obligations/discharged and bounded_stand_ins'
        ev = {'property_id': self.prop, 'tier': self.tier, 'seed': self.seed, 'level': level, 'coverage': cov,
              'assumptions': self.assumptions, 'wall_s': round(time.time() - self.t0, 2), 'violations': len(violations)}
        path = os.path.join(EVIDENCE_DIR, f'{self.prop}.json')
        json.dump(ev, open(path, 'w'), indent=1, default=str)
        try:
            import jsonschema
            schema = json.load(open('/root/.vp/EVIDENCE.schema.json'))
            jsonschema.validate(ev, schema)
        except ImportError:
            pass
        except FileNotFoundError:
            pass
        for ln in lines:
            print(ln)
        print(f"{self.prop} [{self.tier}] obligations={n_ob} discharged={len(discharged)} refuted={len(refuted)} "
              f"(known={sum(len(v[1]) for v in known_hits.values())}, violations={len(violations)}) undecided={len(undecided)} "
              f"functions={len(functions)} solver_s={solver_s:.1f} wall_s={time.time() - self.t0:.1f} level={level} exit={exit_code}")
        return exit_code
