"""Byte buffers of symbolic length and content (bytearray / bytes model for the serial reassembly buffer):
content is an uninterpreted function Int -> Int (one per buffer version), length a z3 Int.  Operations introduce a
new version with (quantified) defining axioms, which are assumed on the path."""
from __future__ import annotations
import z3
from .values import Sym, mk_int, mk_bool, int_term, Unsupported
from .symex import BoundBuiltin, PyRaise, make_exc
from .sbytes import SBytes

_N = [0]


def _fresh_fn(tag):
    _N[0] += 1
    return z3.Function(f'{tag}!{_N[0]}', z3.IntSort(), z3.IntSort())


class ABuf:
    def __init__(self, ex, fn=None, n=None, mutable=True, tag='buf'):
        self.fn = fn if fn is not None else _fresh_fn(tag)
        if n is None:
            _N[0] += 1
            n = z3.Int(f'len_{tag}!{_N[0]}')
            ex.assume(n >= 0)
        self.n = n
        self.mutable = mutable
        self.tag = tag
        i = z3.Int('i!b')
        ex.assume(z3.ForAll([i], z3.And(self.fn(i) >= 0, self.fn(i) <= 255)))

    def __repr__(self):
        return f'<{self.tag} len={self.n}>'

    def sym_len(self, ex):
        return mk_int(self.n)

    def byte(self, i):
        return self.fn(i)

    # ---- views ------------------------------------------------------------------------
    def slice(self, ex, lo, hi, tag='slice'):
        """self[lo:hi] with Python clamping (lo, hi: z3 Int terms or None)."""
        n = self.n
        lo = z3.IntVal(0) if lo is None else lo
        hi = n if hi is None else hi
        lo = z3.If(lo < 0, z3.If(n + lo < 0, 0, n + lo), z3.If(lo > n, n, lo))
        hi = z3.If(hi < 0, z3.If(n + hi < 0, 0, n + hi), z3.If(hi > n, n, hi))
        ln = z3.If(hi - lo > 0, hi - lo, 0)
        out = ABuf(ex, None, z3.simplify(ln), self.mutable, tag)
        i = z3.Int('i!s')
        ex.assume(z3.ForAll([i], z3.Implies(z3.And(i >= 0, i < out.n), out.fn(i) == self.fn(lo + i))))
        out.origin = (self, z3.simplify(lo), out.n)
        return out

    def sym_getitem(self, ex, k):
        if isinstance(k, slice):
            if k.step is not None:
                raise Unsupported('stepped slice of a symbolic buffer')
            def t(x):
                return None if x is None else (int_term(x) if isinstance(x, (Sym, int)) else None)
            return self.slice(ex, t(k.start), t(k.stop))
        kt = int_term(k)
        bad = mk_bool(z3.Or(kt >= self.n, kt < -self.n))
        if bad is True or (bad is not False and ex.truth(bad)):
            raise PyRaise(make_exc('IndexError', 'index out of range'))
        return mk_int(self.fn(z3.If(kt < 0, self.n + kt, kt)), 255)

    def sym_delitem(self, ex, k):
        """del buf[:hi]  (prefix deletion) and del buf[:] are modelled."""
        if not isinstance(k, slice) or k.step is not None or k.start not in (None, 0):
            raise Unsupported('del on a symbolic buffer other than a prefix')
        rest = self.slice(ex, None if k.stop is None else int_term(k.stop), None) if k.stop is not None else None
        if rest is None:
            self.fn, self.n = _fresh_fn(self.tag), z3.IntVal(0)
        else:
            self.fn, self.n = rest.fn, rest.n

    def truth(self, ex):
        return ex.branch(self.n > 0)

    def sym_eq(self, ex, other):
        if isinstance(other, (bytes, bytearray, SBytes)):
            items = SBytes.of(other).items
            return mk_bool(z3.And(self.n == len(items), *[self.fn(j) == (int_term(b) if isinstance(b, Sym) else int(b)) for j, b in enumerate(items)]))
        if isinstance(other, ABuf):
            if other is self or (other.fn is self.fn and z3.eq(z3.simplify(other.n - self.n), z3.IntVal(0))):
                return True
            i = z3.Int('i!q')
            return mk_bool(z3.And(self.n == other.n, z3.ForAll([i], z3.Implies(z3.And(i >= 0, i < self.n), self.fn(i) == other.fn(i)))))
        return False

    def concat(self, ex, other, other_first=False):
        """self + other (or other + self): a new immutable buffer."""
        if isinstance(other, (bytes, bytearray, SBytes)) and len(SBytes.of(other).items) == 0:
            return ABuf(ex, self.fn, self.n, self.mutable, self.tag)
        if other_first:
            if isinstance(other, ABuf):
                return other.concat(ex, self)
            left = ABuf(ex, None, z3.IntVal(0), False, self.tag)
            left.sym_method(ex, 'extend').fn(ex, left, other)
            return left.concat(ex, self)
        out = ABuf(ex, self.fn, self.n, True, self.tag)
        out.sym_method(ex, 'extend').fn(ex, out, other)
        out.mutable = self.mutable
        return out

    def sym_method(self, ex, name):
        if name == 'extend':
            def extend(ex, me, other):
                other = ex.concretize(other)
                if isinstance(other, (bytes, bytearray, SBytes)):
                    items = list(SBytes.of(other).items)
                    m = z3.IntVal(len(items))
                    byte = lambda j: None
                    nf = _fresh_fn(me.tag)
                    i = z3.Int('i!e')
                    ex.assume(z3.ForAll([i], z3.Implies(z3.And(i >= 0, i < me.n), nf(i) == me.fn(i))))
                    for j, b in enumerate(items):
                        ex.assume(nf(me.n + j) == (int_term(b) if isinstance(b, Sym) else b))
                elif isinstance(other, ABuf):
                    m = other.n
                    nf = _fresh_fn(me.tag)
                    i = z3.Int('i!e')
                    ex.assume(z3.ForAll([i], z3.Implies(z3.And(i >= 0, i < me.n), nf(i) == me.fn(i))))
                    ex.assume(z3.ForAll([i], z3.Implies(z3.And(i >= 0, i < other.n), nf(me.n + i) == other.fn(i))))
                else:
                    raise Unsupported(f'extend with {other!r}')
                ex.assume(z3.ForAll([i], z3.And(nf(i) >= 0, nf(i) <= 255)))
                me.history = getattr(me, 'history', []) + [('extend', me.fn, me.n, other)]
                me.fn, me.n = nf, z3.simplify(me.n + m)
            return BoundBuiltin('bytearray.extend', extend, self)
        if name == 'find':
            def find(ex, me, sub, *a):
                sub = SBytes.of(ex.concretize(sub))
                if a or not sub.concrete() or len(sub) != 2:
                    raise Unsupported('find() other than a two-byte marker from the start')
                m0, m1 = sub.items
                _N[0] += 1
                s = z3.Int(f'find!{_N[0]}')
                i = z3.Int('i!f')
                pair = lambda j: z3.And(me.fn(j) == m0, me.fn(j + 1) == m1)
                ex.assume(z3.Or(z3.And(s == -1, z3.ForAll([i], z3.Implies(z3.And(i >= 0, i < me.n - 1), z3.Not(pair(i))))),
                                z3.And(s >= 0, s <= me.n - 2, pair(s), z3.ForAll([i], z3.Implies(z3.And(i >= 0, i < s), z3.Not(pair(i)))))))
                me.last_find = (s, me.fn, me.n, (m0, m1))
                return mk_int(s)
            return BoundBuiltin('bytearray.find', find, self)
        if name in ('rfind', 'rindex') or (name in ('find', 'index') and False):
            def rfind(ex, me, sub, *a):
                sub = ex.concretize(sub)
                if isinstance(sub, int):
                    b0 = sub
                else:
                    sb = SBytes.of(sub)
                    if not sb.concrete() or len(sb) != 1:
                        raise Unsupported('rfind() other than of one byte')
                    b0 = sb.items[0]
                if a:
                    raise Unsupported('rfind() with bounds')
                _N[0] += 1
                s = z3.Int(f'rfind!{_N[0]}')
                i = z3.Int('i!r')
                ex.assume(z3.Or(z3.And(s == -1, z3.ForAll([i], z3.Implies(z3.And(i >= 0, i < me.n), me.fn(i) != b0))),
                                z3.And(s >= 0, s < me.n, me.fn(s) == b0, z3.ForAll([i], z3.Implies(z3.And(i > s, i < me.n), me.fn(i) != b0)))))
                me.last_rfind = (s, me.fn, me.n, b0)
                if name == 'rindex' and ex.truth(mk_bool(s == -1)):
                    raise PyRaise(make_exc('ValueError', 'subsection not found'))
                return mk_int(s)
            return BoundBuiltin(f'bytearray.{name}', rfind, self)
        if name in ('endswith', 'startswith'):
            def ends(ex, me, sub, *a):
                sub = ex.concretize(sub)
                if a or isinstance(sub, tuple):
                    raise Unsupported(f'{name}() with bounds or several alternatives on a symbolic buffer')
                sb = SBytes.of(sub)
                if not sb.concrete():
                    raise Unsupported(f'{name}() of symbolic bytes')
                k = len(sb.items)
                off = (me.n - k) if name == 'endswith' else z3.IntVal(0)
                return mk_bool(z3.And(me.n >= k, *[me.fn(off + j) == int(b) for j, b in enumerate(sb.items)]))
            return BoundBuiltin(f'bytes.{name}', ends, self)
        if name == 'hex':
            from .sstr import SStr, Atom
            return BoundBuiltin('bytes.hex', lambda ex, me, *a: SStr([Atom(f'hex-of-{me.tag}')]), self)
        if name == 'clear':
            def clear(ex, me):
                me.fn, me.n = _fresh_fn(me.tag), z3.IntVal(0)
            return BoundBuiltin('bytearray.clear', clear, self)
        if name == 'decode':
            def decode(ex, me, *a, **k):
                strict_decode_may_fail(ex, me, a, k)
                return TextOf(me)
            return BoundBuiltin('bytes.decode', decode, self)
        if name == '__never__':
            def decode(ex, me, *a, **k):
                enc = (a[0] if a else k.get('encoding', 'utf-8'))
                errors = (a[1] if len(a) > 1 else k.get('errors', 'strict'))
                enc = enc.lower().replace('_', '-') if isinstance(enc, str) else None
                total = enc in ('latin-1', 'latin1', 'iso-8859-1', 'cp437') or errors in ('ignore', 'replace', 'backslashreplace', 'surrogateescape')
                if not total:
                    # arbitrary bytes: a strict decode fails on some contents (any byte >= 0x80 for ascii, malformed sequences for utf-8)
                    me._dec = getattr(me, '_dec', 0) + 1
                    if ex.branch(z3.Bool(f'{me.tag}.not-valid-{enc}!{me._dec}'), tag='strict-decode-fails'):
                        raise PyRaise(make_exc('UnicodeDecodeError', f'{enc} codec cannot decode the bytes read'))
                return TextOf(me)
            return BoundBuiltin('bytes.decode', decode, self)
        return None


def strict_decode_may_fail(ex, me, a, k):
    """bytes.decode of unknown content: total for latin-1 or errors='ignore'/'replace'; a strict decode raises
    UnicodeDecodeError on some contents (any byte >= 0x80 for ascii, malformed sequences for utf-8)."""
    enc = (a[0] if a else k.get('encoding', 'utf-8'))
    errors = (a[1] if len(a) > 1 else k.get('errors', 'strict'))
    enc = enc.lower().replace('_', '-') if isinstance(enc, str) else None
    total = enc in ('latin-1', 'latin1', 'iso-8859-1', 'cp437') or errors in ('ignore', 'replace', 'backslashreplace', 'surrogateescape')
    if not total:
        me._dec = getattr(me, '_dec', 0) + 1
        tag = getattr(me, 'tag', 'line')
        if ex.branch(z3.Bool(f'{tag}.not-valid-{enc}!{me._dec}'), tag='strict-decode-fails'):
            raise PyRaise(make_exc('UnicodeDecodeError', f'{enc} codec cannot decode the bytes read'))


class TextOf:
    """Text decoded from a symbolic byte string (opaque)."""
    def __init__(self, buf):
        self.buf = buf

    def sym_method(self, ex, name):
        if name == 'strip':
            return BoundBuiltin('str.strip', lambda ex, me, *a: me, self)
        return None


def same_bytes(a_fn, a_off, b_fn, b_off, length):
    """forall i in [0, length): a(a_off+i) == b(b_off+i)"""
    i = z3.Int('i!q')
    return z3.ForAll([i], z3.Implies(z3.And(i >= 0, i < length), a_fn(a_off + i) == b_fn(b_off + i)))
