"""Symbolic values for pyvc.

Every Python value that the symbolic executor manipulates is either an ordinary
Python object (int, float, str, bytes, list, dict, None, ...) or one of the
classes below.  Operators are overloaded with the *Python* semantics encoded in
z3 (unbounded ints, floor division, floor shifts, masks as mod).  Floats are
kept abstract (uninterpreted IEEE operations over Real-sorted terms) and are
lowered to a concrete float model only when an obligation is discharged
(see floats.py).
"""
from __future__ import annotations
import z3
from fractions import Fraction

# ----------------------------------------------------------------------------
# execution context hook (set by symex.Exec while a path is being executed)
# ----------------------------------------------------------------------------
_CTX = [None]


def ctx():
    return _CTX[0]


class Unsupported(Exception):
    """A construct outside the modelled Python subset (never a verdict)."""


# ----------------------------------------------------------------------------
# abstract float operations (Real-sorted; lowered later)
# ----------------------------------------------------------------------------
R = z3.RealSort()
I = z3.IntSort()
B = z3.BoolSort()
F_MUL = z3.Function('f.mul', R, R, R)
F_DIV = z3.Function('f.div', R, R, R)
F_ADD = z3.Function('f.add', R, R, R)
F_SUB = z3.Function('f.sub', R, R, R)
F_I2F = z3.Function('f.i2f', I, R)          # int -> nearest double
F_ROUND = z3.Function('f.round', R, I)      # round(x): nearest integer, ties to even
F_TRUNC = z3.Function('f.trunc', R, I)      # int(x): truncation toward zero
F_RND_ND = z3.Function('f.round_nd', R, I, R)  # round(x, nd)
POW2 = z3.Function('pow2', I, I)               # 2**k for symbolic k >= 0 (uninterpreted; facts added on use)


def pow2_facts(k):
    return [POW2(k) >= 1]


F_ISCLOSE = z3.Function('f.isclose', R, R, R, B)   # math.isclose(a, b, rel_tol=r, abs_tol=0.0)
F_OPS = {'f.isclose', 'f.mul', 'f.div', 'f.add', 'f.sub', 'f.i2f', 'f.round', 'f.trunc', 'f.round_nd'}


def is_sym(v):
    return isinstance(v, Sym)


def fval(x: float):
    """Exact rational value of a Python float as a z3 Real."""
    fr = Fraction(x)
    return z3.Q(fr.numerator, fr.denominator) if fr.denominator != 1 else z3.RealVal(str(fr.numerator))


class Sym:
    """Symbolic scalar: z3 term + Python type tag ('int' | 'bool' | 'float').

    For ints, `supp` is an upper bound on the set of bits that may be 1 (only
    meaningful for values known to be >= 0; None = unknown).
    """
    __slots__ = ('t', 'ty', 'supp', 'bf', 'pieces', 'p2', 'xor')

    def __init__(self, t, ty, supp=None, bf=None, pieces=None):
        self.t = t
        self.ty = ty
        self.supp = supp
        self.bf = bf      # (base term, offset, length|None): value == bits(base, offset, length)  (normal form)
        self.pieces = pieces  # [(shift, width, term)]: value == sum term_i * 2^shift_i, 0 <= term_i < 2^width_i, disjoint
        self.p2 = None        # ('pow', k) if value == 2**k ; ('mask', k) if value == 2**k - 1   (k a z3 Int term)
        self.xor = None       # (a, b) if value == a ^ b  (kept so that (a ^ b) & m == 0 becomes a & m == b & m)

    def __repr__(self):
        s = str(self.t)
        return f"<{self.ty}:{s if len(s) < 80 else s[:77] + '...'}>"

    # ---- truthiness forks the current path ---------------------------------
    def __bool__(self):
        c = ctx()
        if c is None:
            raise Unsupported("truth value of a symbolic term outside an execution context")
        return c.branch(truth_term(self))

    def __hash__(self):
        return id(self)

    # ---- arithmetic -----------------------------------------------------------
    def __add__(self, o): return arith('+', self, o)
    def __radd__(self, o): return arith('+', o, self)
    def __sub__(self, o): return arith('-', self, o)
    def __rsub__(self, o): return arith('-', o, self)
    def __mul__(self, o): return arith('*', self, o)
    def __rmul__(self, o): return arith('*', o, self)
    def __truediv__(self, o): return arith('/', self, o)
    def __rtruediv__(self, o): return arith('/', o, self)
    def __floordiv__(self, o): return arith('//', self, o)
    def __rfloordiv__(self, o): return arith('//', o, self)
    def __mod__(self, o): return arith('%', self, o)
    def __rmod__(self, o): return arith('%', o, self)
    def __neg__(self): return arith('-', 0, self)
    def __pos__(self): return self
    def __lshift__(self, o): return bitop('<<', self, o)
    def __rlshift__(self, o): return bitop('<<', o, self)
    def __rshift__(self, o): return bitop('>>', self, o)
    def __rrshift__(self, o): return bitop('>>', o, self)
    def __and__(self, o): return bitop('&', self, o)
    def __rand__(self, o): return bitop('&', o, self)
    def __or__(self, o): return bitop('|', self, o)
    def __ror__(self, o): return bitop('|', o, self)
    def __xor__(self, o): return bitop('^', self, o)
    def __rxor__(self, o): return bitop('^', o, self)
    def __invert__(self):
        if self.ty == 'bool':
            raise Unsupported('~ on bool')
        return arith('-', arith('-', 0, self), 1)
    def __eq__(self, o): return compare('==', self, o)
    def __ne__(self, o): return compare('!=', self, o)
    def __lt__(self, o): return compare('<', self, o)
    def __le__(self, o): return compare('<=', self, o)
    def __gt__(self, o): return compare('>', self, o)
    def __ge__(self, o): return compare('>=', self, o)
    def __abs__(self): return ite(self < 0, -self, self)


# ----------------------------------------------------------------------------
# helpers
# ----------------------------------------------------------------------------
def pytype(v):
    if isinstance(v, Sym):
        return v.ty
    if isinstance(v, bool):
        return 'bool'
    if isinstance(v, int):
        return 'int'
    if isinstance(v, float):
        return 'float'
    return type(v).__name__


def int_term(v):
    """z3 Int term of an int/bool value."""
    if isinstance(v, Sym):
        if v.ty == 'int':
            return v.t
        if v.ty == 'bool':
            return z3.If(v.t, z3.IntVal(1), z3.IntVal(0))
        raise Unsupported(f'int_term of {v.ty}')
    if isinstance(v, bool):
        return z3.IntVal(1 if v else 0)
    if isinstance(v, int):
        return z3.IntVal(v)
    raise Unsupported(f'int_term of {type(v).__name__}')


def real_term(v):
    """z3 Real term holding the exact numeric value of an int/float value."""
    if isinstance(v, Sym):
        if v.ty == 'float':
            return v.t
        return z3.ToReal(int_term(v))
    if isinstance(v, bool):
        return z3.RealVal(1 if v else 0)
    if isinstance(v, int):
        return z3.RealVal(v)
    if isinstance(v, float):
        if v != v or v in (float('inf'), float('-inf')):
            raise Unsupported('non-finite float constant')
        return fval(v)
    raise Unsupported(f'real_term of {type(v).__name__}')


def float_term(v):
    """The double a value converts to (int -> i2f)."""
    if isinstance(v, Sym):
        if v.ty == 'float':
            return v.t
        if v.p2 is not None and v.p2[0] == 'pow':
            # int -> float of 2**k raises OverflowError for k >= 1024
            c = ctx()
            big = mk_bool(v.p2[1] >= 1024)
            if c is not None and (big is True or (big is not False and c.branch(big.t, tag='int-too-large-for-float?'))):
                from .symex import PyRaise, make_exc
                raise PyRaise(make_exc('OverflowError', 'int too large to convert to float'))
        return F_I2F(int_term(v))
    if isinstance(v, (bool, int)):
        return fval(float(v)) if abs(int(v)) < 2 ** 53 else fval(float(v))
    if isinstance(v, float):
        return real_term(v)
    raise Unsupported(f'float_term of {type(v).__name__}')


def bool_term(v):
    if isinstance(v, Sym):
        if v.ty == 'bool':
            return v.t
        return truth_term(v)
    if isinstance(v, bool):
        return z3.BoolVal(v)
    raise Unsupported(f'bool_term of {type(v).__name__}: {v!r}')


def truth_term(v):
    """z3 Bool for Python truthiness of a scalar."""
    if isinstance(v, Sym):
        if v.ty == 'bool':
            return v.t
        if v.ty == 'int':
            return v.t != 0
        if v.ty == 'float':
            return v.t != 0
    if v is None:
        return z3.BoolVal(False)
    if isinstance(v, (bool, int, float, str, bytes, list, tuple, dict, set)):
        return z3.BoolVal(bool(v))
    raise Unsupported(f'truthiness of {type(v).__name__}')


def mk_int(t, supp=None, bf=None, pieces=None):
    return Sym(t, 'int', supp, bf, pieces)


def pieces_of(v):
    """Disjoint shifted-piece decomposition of a non-negative int value, if known."""
    if isinstance(v, Sym):
        if v.ty != 'int':
            return None
        if v.pieces is not None:
            return v.pieces
        if v.supp is not None and v.supp > 0 and (v.supp & (v.supp + 1)) == 0:
            return [(0, v.supp.bit_length(), v.t)]
        if v.supp == 0:
            return []
        return None
    if isinstance(v, bool):
        v = int(v)
    if isinstance(v, int) and v >= 0:
        return [(0, v.bit_length(), z3.IntVal(v))] if v else []
    return None


def from_pieces(pcs):
    pcs = [p for p in pcs if p[1] > 0]
    if not pcs:
        return 0
    total = None
    supp = 0
    for (s, w, t) in pcs:
        term = t if s == 0 else t * (1 << s)
        total = term if total is None else total + term
        supp |= ((1 << w) - 1) << s
    if len(pcs) == 1 and z3.is_int_value(pcs[0][2]):
        return pcs[0][2].as_long() << pcs[0][0]
    return mk_int(total, supp, None, pcs)


def pieces_shr(pcs, c):
    out = []
    for (s, w, t) in pcs:
        if s >= c:
            out.append((s - c, w, t))
        elif s + w <= c:
            continue
        else:
            out.append((0, s + w - c, t / (1 << (c - s))))
    return out


def pieces_mask(pcs, k):
    out = []
    for (s, w, t) in pcs:
        if s >= k:
            continue
        if s + w <= k:
            out.append((s, w, t))
        else:
            out.append((s, k - s, t % (1 << (k - s))))
    return out


def bf_term(base, off, ln):
    t = base if off == 0 else base / (1 << off)
    if ln is not None:
        t = t % (1 << ln)
    return t


def mk_bool(t):
    t = z3.simplify(t)
    if z3.is_true(t):
        return True
    if z3.is_false(t):
        return False
    return Sym(t, 'bool')


def mk_float(t):
    return Sym(t, 'float')


def is_numeric(v):
    return isinstance(v, (int, float)) or (isinstance(v, Sym) and v.ty in ('int', 'float', 'bool'))


def supp_of(v):
    if isinstance(v, Sym):
        return v.supp if v.ty == 'int' else (1 if v.ty == 'bool' else None)
    if isinstance(v, (bool, int)):
        return int(v) if int(v) >= 0 else None
    return None


def arith(op, a, b):
    if not (is_numeric(a) and is_numeric(b)):
        return NotImplemented
    ta, tb = pytype(a), pytype(b)
    isf = 'float' in (ta, tb) or op == '/'
    if isf:
        if op in ('//', '%'):
            raise Unsupported(f'float {op}')
        x, y = float_term(a), float_term(b)
        f = {'+': F_ADD, '-': F_SUB, '*': F_MUL, '/': F_DIV}[op]
        if op == '/':
            c = ctx()
            zero = mk_bool(real_term(b) == 0)
            if zero is True or (zero is not False and c is not None and c.branch(zero.t, tag='ZeroDivisionError?')):
                from .symex import PyRaise, make_exc
                raise PyRaise(make_exc('ZeroDivisionError', 'division by zero'))
        return mk_float(f(x, y))
    x, y = int_term(a), int_term(b)
    if op == '+':
        sa, sb = supp_of(a), supp_of(b)
        supp = None
        if sa is not None and sb is not None and (sa & sb) == 0:
            supp = sa | sb
            pa, pb = pieces_of(a), pieces_of(b)
            if pa is not None and pb is not None:
                return mk_int(x + y, supp, None, sorted(pa + pb, key=lambda p: -p[0]))
        return mk_int(x + y, supp)
    if op == '-':
        r = mk_int(x - y)
        if isinstance(a, Sym) and a.p2 is not None and a.p2[0] == 'pow' and not isinstance(b, Sym) and b == 1:
            r.p2 = ('mask', a.p2[1])
        return r
    if op == '*':
        for (c, v) in ((a, b), (b, a)):
            if not isinstance(c, Sym) and isinstance(c, int) and c > 0 and (c & (c - 1)) == 0 and isinstance(v, Sym):
                return bitop('<<', v, c.bit_length() - 1)
        return mk_int(x * y)
    if op in ('//', '%'):
        c = ctx()
        if isinstance(b, Sym):
            zero = mk_bool(y == 0)
            if zero is True or (zero is not False and c is not None and c.branch(zero.t, tag='ZeroDivisionError?')):
                from .symex import PyRaise, make_exc
                raise PyRaise(make_exc('ZeroDivisionError', 'integer division or modulo by zero'))
            q = z3.If(y > 0, x / y, (-x) / (-y))
        else:
            if b == 0:
                from .symex import PyRaise, make_exc
                raise PyRaise(make_exc('ZeroDivisionError', 'integer division or modulo by zero'))
            q = x / y if b > 0 else (-x) / (-y)
        if op == '//':
            return mk_int(q)
        r = x - y * q
        supp = None
        if not isinstance(b, Sym) and b > 0 and (b & (b - 1)) == 0:
            supp = b - 1
        return mk_int(r, supp)
    raise Unsupported(op)


def _pow2k(n):
    """k if n == 2**k - 1 (k >= 0) else None."""
    if n >= 0 and (n & (n + 1)) == 0:
        return n.bit_length()
    return None


def _mask_runs(m):
    """Decompose a non-negative mask into runs [(start, length)]."""
    runs = []
    i = 0
    while m >> i:
        if (m >> i) & 1:
            j = i
            while (m >> j) & 1:
                j += 1
            runs.append((i, j - i))
            i = j
        else:
            i += 1
    return runs


def _to_bv(v, w):
    return z3.Int2BV(int_term(v), w)


def bitop(op, a, b):
    ta, tb = pytype(a), pytype(b)
    if ta not in ('int', 'bool') or tb not in ('int', 'bool'):
        return NotImplemented
    if op == '&':
        for p_, q_ in ((a, b), (b, a)):
            if isinstance(p_, Sym) and getattr(p_, 'xor', None) is not None and isinstance(q_, int) and not isinstance(q_, bool) and q_ >= 0:
                x_, y_ = p_.xor
                r_ = bitop('^', bitop('&', x_, q_), bitop('&', y_, q_))       # (x ^ y) & m == (x & m) ^ (y & m)
                return r_
    if ta == 'bool' and tb == 'bool' and op in ('&', '|', '^'):
        x, y = bool_term(a), bool_term(b)
        return mk_bool({'&': z3.And, '|': z3.Or, '^': z3.Xor}[op](x, y))
    if op in ('<<', '>>'):
        if isinstance(b, Sym):
            c = ctx()
            kt = int_term(b)
            neg = mk_bool(kt < 0)
            if neg is True or (neg is not False and c is not None and c.branch(neg.t, tag='negative-shift?')):
                from .symex import PyRaise, make_exc
                raise PyRaise(make_exc('ValueError', 'negative shift count'))
            if c is not None:
                for fct in pow2_facts(kt):
                    c.assume(fct)
            x = int_term(a)
            if op == '<<':
                r = mk_int(x * POW2(kt))
                if not isinstance(a, Sym) and a == 1:
                    r = mk_int(POW2(kt))
                    r.p2 = ('pow', kt)
                return r
            return mk_int(x / POW2(kt))
        if b < 0:
            from .symex import PyRaise, make_exc
            raise PyRaise(make_exc('ValueError', 'negative shift count'))
        x = int_term(a)
        sa = supp_of(a)
        if op == '<<':
            pa = pieces_of(a)
            return mk_int(x * (1 << b), None if sa is None else sa << b, None,
                          None if pa is None else [(s + b, w, t) for (s, w, t) in pa])
        if b == 0:
            return a
        if isinstance(a, Sym) and a.pieces is not None and len(a.pieces) > 1:
            return from_pieces(pieces_shr(a.pieces, b))
        if isinstance(a, Sym) and a.ty == 'int':
            base, off, ln = a.bf if a.bf is not None else (a.t, 0, None)
            nl = None if ln is None else max(ln - b, 0)
            if nl == 0:
                return 0
            return mk_int(bf_term(base, off + b, nl), None if sa is None else sa >> b, (base, off + b, nl))
        return mk_int(x / (1 << b), None if sa is None else sa >> b)
    if op == '&':
        for (u, w) in ((a, b), (b, a)):
            if isinstance(w, Sym) and w.p2 is not None and w.p2[0] == 'mask':
                return mk_int(int_term(u) % POW2(w.p2[1]))
        if isinstance(a, Sym) and isinstance(b, Sym):
            sa, sb = supp_of(a), supp_of(b)
            if sa is not None and sb is not None:
                if sa & sb == 0:
                    return 0
                w = max(sa.bit_length(), sb.bit_length())
                return mk_int(z3.BV2Int(_to_bv(a, w) & _to_bv(b, w)), sa & sb)
            raise Unsupported('& of two symbolic ints of unknown range')
        if isinstance(b, Sym):
            a, b = b, a
        m = int(b)
        x = int_term(a)
        sa = supp_of(a)
        if m < 0:
            raise Unsupported('& with negative constant')
        if m == 0:
            return 0
        k = _pow2k(m)
        supp = m if sa is None else (m & sa)
        if k is not None:
            if sa is not None and sa <= m:
                return a  # mask does nothing
            if isinstance(a, Sym) and a.pieces is not None and len(a.pieces) > 1:
                return from_pieces(pieces_mask(a.pieces, k))
            if isinstance(a, Sym) and a.ty == 'int':
                base, off, ln = a.bf if a.bf is not None else (a.t, 0, None)
                nl = k if ln is None else min(ln, k)
                return mk_int(bf_term(base, off, nl), supp, (base, off, nl))
            return mk_int(x % (1 << k), supp)
        total = None
        for (s, ln) in _mask_runs(m):
            piece = ((x / (1 << s)) % (1 << ln)) * (1 << s)
            total = piece if total is None else total + piece
        return mk_int(total, supp)
    # | and ^
    sa, sb = supp_of(a), supp_of(b)
    if sa is not None and sb is not None:
        if sa & sb == 0:
            return arith('+', a, b)
        w = max(sa.bit_length(), sb.bit_length(), 1)
        f = (lambda p, q: p | q) if op == '|' else (lambda p, q: p ^ q)
        r_ = mk_int(z3.BV2Int(f(_to_bv(a, w), _to_bv(b, w))), sa | sb)
        if op == '^' and isinstance(r_, Sym):
            r_.xor = (a, b)
        return r_
    # supports unknown: exact through 128-bit vectors when both operands are provably in [0, 2^128) on this path
    c = ctx()
    if c is not None:
        rng = []
        for x_ in (a, b):
            if isinstance(x_, Sym):
                rng.append(z3.And(int_term(x_) >= 0, int_term(x_) < (1 << 128)))
            elif not (0 <= x_ < (1 << 128)):
                rng = None
                break
        if rng is not None:
            need = z3.And(*rng) if rng else z3.BoolVal(True)
            s_ = z3.Solver()
            s_.set('timeout', 3000)
            s_.add(*c.pc)
            s_.add(z3.Not(need))
            if s_.check() == z3.unsat:
                f = (lambda p, q: p | q) if op == '|' else (lambda p, q: p ^ q)
                r_ = mk_int(z3.BV2Int(f(_to_bv(a, 128), _to_bv(b, 128))), (1 << 128) - 1)
                if op == '^' and isinstance(r_, Sym):
                    r_.xor = (a, b)
                return r_
    raise Unsupported(f'{op} on symbolic ints whose bit support is unknown (operands: {a!r}, {b!r})')


def compare(op, a, b):
    if a is None or b is None:
        if op == '==':
            return (a is None) and (b is None) if not (isinstance(a, Sym) or isinstance(b, Sym)) else False
        if op == '!=':
            return not ((a is None) and (b is None)) if not (isinstance(a, Sym) or isinstance(b, Sym)) else True
        raise Unsupported('ordering comparison with None')
    if op in ('==', '!='):
        for p_, q_ in ((a, b), (b, a)):
            if isinstance(p_, Sym) and getattr(p_, 'xor', None) is not None and not isinstance(q_, Sym) and q_ == 0 and not isinstance(q_, bool):
                return compare(op, p_.xor[0], p_.xor[1])        # x ^ y == 0  <=>  x == y
    if not (is_numeric(a) and is_numeric(b)):
        if op == '==':
            return False
        if op == '!=':
            return True
        return NotImplemented
    if pytype(a) == 'float' or pytype(b) == 'float':
        x, y = real_term(a), real_term(b)      # Python compares int and float exactly
    else:
        x, y = int_term(a), int_term(b)
    t = {'==': lambda: x == y, '!=': lambda: x != y, '<': lambda: x < y, '<=': lambda: x <= y,
         '>': lambda: x > y, '>=': lambda: x >= y}[op]()
    return mk_bool(t)


# ----------------------------------------------------------------------------
# polymorphic logical helpers for contracts / specs (work on Python and Sym)
# ----------------------------------------------------------------------------
def vand(*xs):
    ts = []
    for x in xs:
        if isinstance(x, Sym):
            ts.append(bool_term(x))
        elif not x:
            return False
    if not ts:
        return True
    return mk_bool(z3.And(*ts))


def vor(*xs):
    ts = []
    for x in xs:
        if isinstance(x, Sym):
            ts.append(bool_term(x))
        elif x:
            return True
    if not ts:
        return False
    return mk_bool(z3.Or(*ts))


def vnot(x):
    if isinstance(x, Sym):
        return mk_bool(z3.Not(bool_term(x)))
    return not x


def implies(a, b):
    return vor(vnot(a), b)


def ite(c, a, b):
    if not isinstance(c, Sym):
        return a if c else b
    if a is b:
        return a
    ct = bool_term(c)
    ta, tb = pytype(a), pytype(b)
    if ta in ('int', 'bool') and tb in ('int', 'bool') and not (ta == 'bool' and tb == 'bool'):
        sa, sb = supp_of(a), supp_of(b)
        return mk_int(z3.If(ct, int_term(a), int_term(b)), None if sa is None or sb is None else sa | sb)
    if ta == 'bool' and tb == 'bool':
        return mk_bool(z3.If(ct, bool_term(a), bool_term(b)))
    if 'float' in (ta, tb) and is_numeric(a) and is_numeric(b):
        return mk_float(z3.If(ct, float_term(a), float_term(b)))
    from .gv import GV
    return GV.make([(ct, a), (z3.Not(ct), b)])


def veq(a, b):
    """Structural/semantic equality usable in contracts on any modelled value."""
    from .gv import GV
    from .sbytes import SBytes
    from .abstract import App, TableGet, veq2
    if isinstance(a, GV) or isinstance(b, GV):
        return GV.eq(a, b)
    if isinstance(a, (App, TableGet)) or isinstance(b, (App, TableGet)):
        return veq2(a, b)
    from .sstr import SStr
    if isinstance(a, SStr) or isinstance(b, SStr):
        return veq2(a, b)
    if isinstance(a, SBytes) or isinstance(b, SBytes):
        return SBytes.eq(a, b)
    if isinstance(a, (tuple, list)) and isinstance(b, (tuple, list)):
        if len(a) != len(b):
            return False
        return vand(*[veq(x, y) for x, y in zip(a, b)])
    if isinstance(a, Sym) or isinstance(b, Sym):
        if a is None or b is None:
            return False
        return a == b
    return a == b


def fresh_int(name, lo=None, hi=None, bits=None):
    """A named symbolic int; returns (Sym, [constraints])."""
    t = z3.Int(name)
    cs = []
    supp = None
    if bits is not None:
        cs += [t >= 0, t < (1 << bits)]
        supp = (1 << bits) - 1
    if lo is not None:
        cs.append(t >= lo)
    if hi is not None:
        cs.append(t <= hi)
        if lo is not None and lo >= 0 and supp is None:
            supp = (1 << int(hi).bit_length()) - 1
    return mk_int(t, supp), cs


def real_q(q):
    """z3 Real for a Fraction."""
    from fractions import Fraction
    q = Fraction(q)
    if q.denominator == 1:
        return z3.RealVal(str(q.numerator))
    return z3.Q(q.numerator, q.denominator)


def isclose(a, b, rel_tol=1e-09):
    """math.isclose(a, b, rel_tol=rel_tol) on native or symbolic numbers."""
    if not any(isinstance(x, Sym) for x in (a, b, rel_tol)):
        import math
        return math.isclose(a, b, rel_tol=rel_tol)
    return mk_bool(F_ISCLOSE(float_term(a), float_term(b), float_term(rel_tol)))
