"""Checking real functions against side-car contracts, and using contracts at call sites."""
from __future__ import annotations
import time
import traceback
import z3
from . import values as V
from .values import Sym, Unsupported, bool_term, vand, vor, vnot, veq, mk_bool
from .gv import GV
from .symex import explore, PyRaise, make_exc, FuncVal, Obj, PathAbort
from .solve import Obligation, discharge


class Alt:
    """One alternative of a specified outcome: under `guard` the call returns `value` or raises `exc`."""
    def __init__(self, guard, kind, value=None, exc=None, label=''):
        self.guard = guard      # Python bool or Sym bool
        self.kind = kind        # 'return' | 'raise'
        self.value = value
        self.exc = exc
        self.label = label or (exc if kind == 'raise' else 'return')


def Return(value, guard=True, label=''):
    return Alt(guard, 'return', value=value, label=label)


def Raise(exc, guard=True, label=''):
    return Alt(guard, 'raise', exc=exc, label=label)


class FunctionSpec:
    """Contract of one repository function.

    Subclasses define:
      func            dotted name inside the package ('utils.decode_int')
      prop            property id the obligations are filed under
      make_inputs(ex) -> dict name -> symbolic value (also assumes the precondition's typing facts)
      call_args(inp)  -> (args, kwargs) for the real function (bound object via 'self' key if a method)
      pre(**inp)      -> precondition (bool / Sym)
      outcome(**inp)  -> list[Alt]  (guards exhaustive and exclusive under pre)
      frame(ex, inp, result) -> list[(name, cond)] extra postconditions on state (optional)
      callee contracts / inline sets for the body: `uses` (dict fullname -> callable) and `inline`
    """
    func = ''
    prop = ''
    inline = ()
    float_model = None
    hooks = None

    def uses(self):
        return {}

    def make_inputs(self, ex):
        raise NotImplementedError

    def call_args(self, inp):
        return list(inp.values()), {}

    def pre(self, **inp):
        return True

    def outcome(self, **inp):
        raise NotImplementedError

    def extra(self, ex, inp, res_kind, res_value):
        return []

    # ---- use at a call site --------------------------------------------------------
    def bind(self, args, kwargs):
        """Map positional/keyword actuals to the spec's input names (default: by position)."""
        names = self.param_names()
        inp = {}
        for n, a in zip(names, args):
            inp[n] = a
        for k, v in kwargs.items():
            inp[k] = v
        for n, d in self.defaults().items():
            inp.setdefault(n, d)
        return inp

    def param_names(self):
        raise NotImplementedError

    def defaults(self):
        return {}

    def as_callee(self):
        spec = self

        def call(ex, f, args, kwargs):
            if isinstance(f, FuncVal) and f.bound is not None and 'this' in spec.param_names():
                args = [f.bound] + list(args)
            inp = spec.bind(list(args), dict(kwargs))
            inp = {k: ex.concretize(v) if spec.concretize_arg(k) else v for k, v in inp.items()}
            p = spec.pre(**inp)
            if p is not True:
                ex.oblige(f'requires@callsite[{spec.func}]', p)
                ex.assume(p)
            alts = spec.outcome(**inp)
            return apply_alts(ex, alts, spec.func)
        return call

    def concretize_arg(self, name):
        return True


def apply_alts(ex, alts, what=''):
    """Fork over raise alternatives; merge the return alternatives into one value."""
    rets = []
    for a in alts:
        if a.kind == 'raise':
            g = a.guard
            if g is False:
                continue
            if g is True or ex.truth(g):
                raise PyRaise(make_exc(a.exc, f'by contract of {what}'))
    for a in alts:
        if a.kind == 'return':
            g = a.guard
            if g is False:
                continue
            rets.append((z3.BoolVal(True) if g is True else bool_term(g), a.value))
    if not rets:
        raise PathAbort()
    if len(rets) == 1:
        if rets[0][0] is not True:
            ex.assume(rets[0][0])
        return rets[0][1]
    ex.assume(z3.Or(*[g for g, _ in rets]))
    return merge_values(rets)


def merge_values(rets):
    if all(not isinstance(v, (tuple, list)) for _, v in rets):
        return GV.make(rets)
    # tuples: merge component-wise
    n = len(rets[0][1])
    if all(isinstance(v, tuple) and len(v) == n for _, v in rets):
        return tuple(GV.make([(g, v[i]) for g, v in rets]) for i in range(n))
    return GV.make(rets)


# ----------------------------------------------------------------------------
# checking a body against its spec
# ----------------------------------------------------------------------------
class FunctionReport:
    def __init__(self, spec, info):
        self.spec = spec
        self.info = info
        self.obligations = []
        self.paths = 0
        self.error = None
        self.dropped = set()
        self.seconds = 0.0


def value_matches(ex_value, spec_value):
    return veq(ex_value, spec_value)


def build_obligations(repo, spec, contracts=None):
    """Symbolically execute the real function and produce the obligations of its contract."""
    info = repo.func(spec.func)
    rep = FunctionReport(spec, info)
    if info is None:
        rep.error = f'function {spec.func} not found in the repository'
        return rep
    t0 = time.time()
    callee_contracts = dict(contracts or {})
    callee_contracts.update(spec.uses())
    holder = {}

    def run(ex):
        inp = spec.make_inputs(ex)
        holder['inp'] = inp
        ex.ghost['inputs'] = inp
        p = spec.pre(**inp)
        if p is not True:
            ex.assume(p)
        args, kwargs = spec.call_args(inp)
        bound = None
        if 'this' in inp and not info.is_static:
            bound = inp['this']
            args = [a for a in args if a is not bound]
        ex.in_await = True
        return ex._run_body(info, list(args), dict(kwargs), bound)

    try:
        results = explore(repo, run, contracts=callee_contracts, inline=spec.inline, hooks=spec.hooks)
    except Unsupported as u:
        rep.error = f'outside the modelled subset: {u}'
        rep.seconds = time.time() - t0
        return rep
    rep.paths = len(results)
    fname = f'{spec.prop}/{info.module}.{info.qualname}'
    for pi, res in enumerate(results):
        ex = res.ex
        rep.dropped |= ex.dropped
        V._CTX[0] = None
        inp = ex_inputs(res, spec)
        hyps = list(res.pc)
        in_terms = input_terms(inp)
        # obligations raised at call sites on this path (callee preconditions, noraise, ...)
        for (oname, cond, pc_snap) in ex.obligations:
            rep.obligations.append(Obligation(f'{fname}/{oname}/path[{pi}]', pc_snap, cond, kind='requires@callsite',
                                              func=info.fullname, inputs=in_terms, float_model=spec.float_model))
        alts = spec.outcome(**inp)
        for ai, a in enumerate(alts):
            g = a.guard
            if g is False:
                continue
            gt = [] if g is True else [bool_term(g)]
            same = (a.kind == res.kind) and (a.kind == 'return' or exc_matches(res.value.clsname, a.exc))
            if not same:
                goal = z3.BoolVal(False)
                note = f'path {res.kind}s {res.exc_name() or ""} but the contract alternative "{a.label}" says {a.kind}'
            else:
                if a.kind == 'return':
                    m = value_matches(res.value, a.value)
                    goal = z3.BoolVal(m) if isinstance(m, bool) else bool_term(m)
                else:
                    goal = z3.BoolVal(True)
                note = ''
            if z3.is_true(z3.simplify(goal)) and not note:
                # trivially true: still counted (discharged by simplification is not claimed; send to solver)
                pass
            rep.obligations.append(Obligation(f'{fname}/ensures[{a.label}]/path[{pi}]', hyps + gt, goal, kind='ensures',
                                              func=info.fullname, inputs=in_terms, meta={'note': note},
                                              float_model=spec.float_model))
        # exhaustiveness of the contract's guards on this path (so no outcome escapes the contract)
        guards = [z3.BoolVal(True) if a.guard is True else bool_term(a.guard) for a in alts if a.guard is not False]
        rep.obligations.append(Obligation(f'{fname}/contract-total/path[{pi}]', hyps, z3.Or(*guards), kind='ensures',
                                          func=info.fullname, inputs=in_terms))
        for (xname, cond) in spec.extra(ex, inp, res.kind, res.value):
            c = z3.BoolVal(cond) if isinstance(cond, bool) else bool_term(cond)
            rep.obligations.append(Obligation(f'{fname}/{xname}/path[{pi}]', hyps, c, kind='frame', func=info.fullname,
                                              inputs=in_terms, float_model=spec.float_model))
    rep.seconds = time.time() - t0
    return rep


def exc_matches(actual, expected):
    from .symex import exc_isinstance
    if isinstance(expected, (tuple, list)):
        return any(exc_isinstance(actual, e) for e in expected)
    return exc_isinstance(actual, expected)


def ex_inputs(res, spec):
    return res.ex.ghost.get('inputs') or {}


def input_terms(inp):
    out = {}
    for k, v in inp.items():
        if isinstance(v, Sym):
            out[k] = v.t
        elif hasattr(v, 'input_terms'):
            for kk, t in v.input_terms().items():
                out[f'{k}.{kk}'] = t
        elif hasattr(v, 'items') and not isinstance(v, dict) and isinstance(getattr(v, 'items'), list):
            for i, b in enumerate(v.items):
                if isinstance(b, Sym):
                    out[f'{k}[{i}]'] = b.t
    return out
