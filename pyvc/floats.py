"""Lowering of the abstract float operations to a concrete float model.

Model S (standard model, reals): fl(a op b) = (a op b)(1+d), |d| <= u = 2^-53 (no overflow/underflow -
side conditions are stated by the caller on the constant operands); i2f(n) = n(1+d) (exact when the caller
knows |n| <= 2^53 and says so with exact_i2f); round(x) = nearest integer (ties unspecified within 1/2);
trunc(x) = the integer toward zero.
A proof in S holds for IEEE doubles because S over-approximates RNE arithmetic in the normal range.

Model E (exact binary64) is provided by fpexact.py for single-operation range questions.
"""
from __future__ import annotations
import z3
from .values import F_OPS

U = z3.RealVal(1) / z3.RealVal(2 ** 53)


class Lowering:
    def __init__(self, exact_i2f=True, prefix='d', exact=False):
        self.exact = exact      # model R: no rounding at all (only for operands known to be exactly representable)
        self.side = []
        self.n = 0
        self.cache = {}
        self.exact_i2f = exact_i2f
        self.prefix = prefix

    def delta(self):
        if self.exact:
            return z3.RealVal(0)
        self.n += 1
        d = z3.Real(f'{self.prefix}!{self.n}')
        self.side += [d >= -U, d <= U]
        return d

    def lower(self, t):
        k = t.get_id()
        if k in self.cache:
            return self.cache[k][1]
        r = self._lower(t)
        self.cache[k] = (t, r)      # keep the original alive: z3 reuses AST ids after garbage collection
        return r

    def _lower(self, t):
        if z3.is_quantifier(t):
            return t
        if not z3.is_app(t):
            return t
        d = t.decl()
        name = d.name()
        args = [self.lower(a) for a in t.children()]
        if name in F_OPS:
            if name == 'f.mul':
                return args[0] * args[1] * (1 + self.delta())
            if name == 'f.div':
                return args[0] / args[1] * (1 + self.delta())
            if name == 'f.add':
                return (args[0] + args[1]) * (1 + self.delta())
            if name == 'f.sub':
                return (args[0] - args[1]) * (1 + self.delta())
            if name == 'f.i2f':
                x = z3.ToReal(args[0])
                return x if self.exact_i2f else x * (1 + self.delta())
            if name == 'f.round':
                self.n += 1
                r = z3.Int(f'rnd!{self.n}')
                x = args[0]
                self.side += [z3.ToReal(r) - x <= z3.RealVal(1) / 2, x - z3.ToReal(r) <= z3.RealVal(1) / 2]
                return r
            if name == 'f.trunc':
                self.n += 1
                r = z3.Int(f'trc!{self.n}')
                x = args[0]
                self.side += [z3.Implies(x >= 0, z3.And(z3.ToReal(r) <= x, x < z3.ToReal(r) + 1)),
                              z3.Implies(x < 0, z3.And(z3.ToReal(r) >= x, x > z3.ToReal(r) - 1))]
                return r
            if name == 'f.isclose':
                self.n += 1
                c = z3.Bool(f'close!{self.n}')
                a, b, rel = args
                diff = abs_r(a - b)
                big = z3.If(abs_r(a) >= abs_r(b), abs_r(a), abs_r(b))
                slack = 8 * U
                self.side += [z3.Implies(diff <= rel * big * (1 - slack), c), z3.Implies(c, diff <= rel * big * (1 + slack))]
                return c
            if name == 'f.round_nd':
                self.n += 1
                r = z3.Real(f'rnd_nd!{self.n}')
                x = args[0]
                nd = args[1].as_long()
                half = z3.RealVal(1) / (2 * 10 ** nd) if nd >= 0 else z3.RealVal(10 ** (-nd)) / 2
                # round(x, nd): a double within half a unit of 10^-nd of x, up to one rounding of the result
                dd = self.delta()
                self.side += [r - x <= half + abs_r(x) * U, x - r <= half + abs_r(x) * U]
                return r
        if not args:
            return t
        return d(*args)


def abs_r(x):
    return z3.If(x >= 0, x, -x)


def lower_formula(f, exact_i2f=True, exact=False):
    lw = Lowering(exact_i2f, exact=exact)
    g = lw.lower(f)
    return g, lw.side


def has_float_ops(f):
    seen = set()
    stack = [f]
    while stack:
        t = stack.pop()
        if t.get_id() in seen:
            continue
        seen.add(t.get_id())
        if z3.is_app(t):
            if t.decl().name() in F_OPS:
                return True
            stack.extend(t.children())
        elif z3.is_quantifier(t):
            stack.append(t.body())
    return False
