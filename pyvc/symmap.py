"""Maps with symbolic keys/contents (dict model), byte strings of symbolic length, and the abstract
'frames combined in index order' value used for fast-packet reassembly."""
from __future__ import annotations
import z3
from .values import Sym, Unsupported, mk_bool, mk_int, bool_term, int_term, vand, vor, vnot, ite, veq
from .gv import GV
from .sbytes import SBytes


class _Absent:
    def __repr__(self):
        return 'ABSENT'


ABSENT = _Absent()


def alts(v):
    return list(v.alts) if isinstance(v, GV) else [(z3.BoolVal(True), v)]


def present_term(v):
    """z3 Bool: the entry value is not ABSENT."""
    gs = [g for g, x in alts(v) if x is not ABSENT]
    return z3.simplify(z3.Or(*gs)) if gs else z3.BoolVal(False)


_OTHERS = [0]


class SymMap:
    """dict with an explicit list of entries [key, value]; value may be ABSENT or a guarded union containing
    ABSENT.  Keys of different entries are assumed pairwise distinct (the harness builds them so).  An access
    with a key that matches no entry is a *foreign access* (recorded: frame violation)."""
    def __init__(self, name, entries, open_world=False):
        self.name = name
        self.entries = [list(e) for e in entries]
        self.foreign = []
        self.open_world = open_world
        self.log = []

    def __repr__(self):
        return f'SymMap({self.name}, {len(self.entries)} entries)'

    def _match(self, ex, k):
        """[(cond, index)] with cond a Python bool or Sym."""
        out = []
        for i, (key, _) in enumerate(self.entries):
            c = ex.equals(key, k)
            if c is False:
                continue
            out.append((c, i))
            if c is True:
                break
        return out

    def lookup(self, ex, k):
        k = ex.concretize(k)
        ms = self._match(ex, k)
        if not ms:
            self.foreign.append(('read', k))
            return ABSENT
        if ms[-1][0] is True and len(ms) == 1:
            return self.entries[ms[0][1]][1]
        rest = []
        out = []
        for c, i in ms:
            ct = z3.BoolVal(True) if c is True else bool_term(c)
            out.append((z3.And(ct, *[z3.Not(r) for r in rest]), self.entries[i][1]))
            rest.append(ct)
        if ms[-1][0] is not True:
            out.append((z3.And(*[z3.Not(r) for r in rest]), ABSENT))
        return GV.make(out)

    def store(self, ex, k, v):
        k = ex.concretize(k)
        ms = self._match(ex, k)
        self.log.append(('store', k))
        if not ms:
            self.foreign.append(('write', k))
            self.entries.append([k, v])
            return
        if ms[-1][0] is True and len(ms) == 1:
            self.entries[ms[0][1]][1] = v
            return
        rest = []
        for c, i in ms:
            ct = z3.BoolVal(True) if c is True else bool_term(c)
            cond = z3.And(ct, *[z3.Not(r) for r in rest])
            old = self.entries[i][1]
            self.entries[i][1] = GV.make([(cond, v), (z3.Not(cond), old)])
            rest.append(ct)
        if ms[-1][0] is not True:
            # the key may also be none of the known ones
            self.foreign.append(('write-maybe', k, z3.And(*[z3.Not(r) for r in rest])))

    # ---- interpreter protocol ---------------------------------------------------
    def sym_getitem(self, ex, k):
        v = self.lookup(ex, k)
        v = ex.concretize(v) if isinstance(v, GV) and any(x is ABSENT for _, x in v.alts) else v
        if v is ABSENT:
            from .symex import PyRaise, make_exc
            raise PyRaise(make_exc('KeyError', k))
        return v

    def sym_setitem(self, ex, k, v):
        self.store(ex, k, v)

    def sym_delitem(self, ex, k):
        v = self.lookup(ex, k)
        p = mk_bool(present_term(v)) if not (v is ABSENT) else False
        if p is False or (p is not True and not ex.truth(p)):
            from .symex import PyRaise, make_exc
            raise PyRaise(make_exc('KeyError', k))
        self.store(ex, k, ABSENT)

    def sym_contains(self, ex, k):
        v = self.lookup(ex, k)
        if v is ABSENT:
            return False
        return mk_bool(present_term(v))

    def sym_method(self, ex, name):
        from .symex import BoundBuiltin
        if name == 'get':
            def get(ex, me, k, default=None):
                v = me.lookup(ex, k)
                if isinstance(v, GV):
                    return GV.make([(g, default if x is ABSENT else x) for g, x in v.alts])
                return default if v is ABSENT else v
            return BoundBuiltin('dict.get', get, self)
        if name == 'clear':
            def clear(ex, me):
                for e in me.entries:
                    e[1] = ABSENT
                me.log.append(('clear',))
            return BoundBuiltin('dict.clear', clear, self)
        if name == 'items':
            return BoundBuiltin('dict.items', lambda ex, me: MapItems(me), self)
        if name == 'keys':
            return BoundBuiltin('dict.keys', lambda ex, me: MapKeys(me), self)
        return None

    def sym_sorted(self, ex):
        return SortedKeys(self)

    def sym_len(self, ex):
        tot = 0
        for _, v in self.entries:
            tot = tot + ite(mk_bool(present_term(v)), 1, 0)
        if self.open_world:
            # the map also holds entries the harness does not name (other streams, other sources): any number of them
            if not hasattr(self, '_others'):
                _OTHERS[0] += 1
                self._others = z3.Int(f'{self.name}.other_entries!{_OTHERS[0]}')
                ex.assume(self._others >= 0)
            tot = tot + mk_int(self._others)
        return tot

    def sym_iter(self, ex):
        if self.open_world:
            # iterating reaches entries that are not this call's business: a foreign access (frame violation), keys unknown
            from .symex import Opaque
            self.foreign.append(('iterate', None))
            return [Opaque(f'some-key-of-{self.name}')]
        return [k for k, v in self.entries if v is not ABSENT]

    def snapshot(self):
        return [(k, v) for k, v in self.entries]


class SortedKeys:
    def __init__(self, m):
        self.map = m


class MapKeys:
    """M.keys() of a symbolic map (only sorted() of it is modelled)."""
    def __init__(self, m):
        self.map = m

    def sym_sorted(self, ex, key=None):
        if key is not None:
            raise Unsupported('sorted(keys, key=...) of a symbolic map')
        return SortedKeys(self.map)


class MapItems:
    """M.items() of a symbolic map (only sorted() by key is modelled)."""
    def __init__(self, m):
        self.map = m

    def sym_sorted(self, ex, key=None):
        if key is not None:
            # the key function must order the items by their key: probed with a marker pair
            probe_k, probe_v = object(), object()
            try:
                r = ex.call(key, [(probe_k, probe_v)], {}, None)
            except Exception:  # noqa
                r = None
            if r is not probe_k and not (isinstance(r, tuple) and r and r[0] is probe_k):
                raise Unsupported('sorted(M.items(), key=f) where f is not the item key')
        return SortedItems(self.map)      # the keys are distinct: ordering by (key, value) is ordering by key


class SortedItems:
    def __init__(self, m):
        self.map = m


class OpaqueBytes:
    """A byte string whose content and length are symbolic (length term known)."""
    def __init__(self, name, length):
        self.name = name
        self.length = length   # Sym int

    def __repr__(self):
        return f'<bytes {self.name}>'

    def sym_len(self, ex):
        return self.length


def blen(v):
    if isinstance(v, OpaqueBytes):
        return v.length
    if isinstance(v, (SBytes, bytes, bytearray)):
        return len(v)
    raise Unsupported(f'length of {v!r}')


class ChunkSeq:
    """The present values of a map's entries as a list, in index order ('asc'|'desc'), each chunk optionally reversed:
       [M[i] for i in sorted(M)] and friends.  Flattening it gives a Combined."""
    def __init__(self, snapshot, order='asc', each_rev=False):
        self.snapshot = snapshot
        self.order = order
        self.each_rev = each_rev

    def __repr__(self):
        return f'ChunkSeq({self.order}, each_rev={self.each_rev})'

    def sym_getitem(self, ex, k):
        if isinstance(k, slice) and k.start is None and k.stop is None and k.step == -1:
            return ChunkSeq(self.snapshot, 'desc' if self.order == 'asc' else 'asc', self.each_rev)
        raise Unsupported(f'subscript {k!r} on a chunk sequence')

    def flatten(self, each_rev_more=False, as_list=True):
        return Combined(self.snapshot, self.order, self.each_rev != each_rev_more, None, as_list=as_list)

    def sym_len(self, ex):
        n = 0
        for _, v in self.snapshot:
            for g, x in alts(v):
                if x is not ABSENT:
                    n = n + ite(mk_bool(g), 1, 0)
        return n


class Combined:
    """Concatenation of the present values of a map's entries in index order.
       order 'asc'|'desc'; each_rev: every chunk reversed; start: optional symbolic cut (bytes dropped at the front)."""
    def __init__(self, snapshot, order='asc', each_rev=False, start=None, as_list=False):
        self.snapshot = snapshot
        self.order = order
        self.each_rev = each_rev
        self.start = start
        self.as_list = as_list

    def __repr__(self):
        return f'Combined({self.order}, each_rev={self.each_rev}, start={self.start})'

    def total_len(self):
        tot = 0
        for _, v in self.snapshot:
            for g, x in alts(v):
                if x is ABSENT:
                    continue
                tot = tot + ite(mk_bool(g), blen(x), 0)
        return tot

    def sym_len(self, ex):
        n = self.total_len()
        if self.start is not None:
            n = n - self.start
        return n

    def sym_getitem(self, ex, k):
        if isinstance(k, slice):
            if k.start is None and k.stop is None and k.step == -1:
                if self.start is not None:
                    raise Unsupported('reverse of a cut combination')
                return Combined(self.snapshot, 'desc' if self.order == 'asc' else 'asc', not self.each_rev, None, self.as_list)
            if k.stop is None and k.step is None and k.start is not None:
                st = k.start
                if self.start is not None:
                    st = self.start + st
                return Combined(self.snapshot, self.order, self.each_rev, st, self.as_list)
        raise Unsupported(f'subscript {k!r} on combined frames')

    def sym_eq(self, ex, other):
        return Combined.eq(self, other)

    def concrete_bytes(self):
        """The byte string, when occupancy, chunk lengths and the cut are all concrete; else None."""
        items = []
        snap = self.snapshot if self.order == 'asc' else list(reversed(self.snapshot))
        for _, v in snap:
            if isinstance(v, GV):
                return None
            if v is ABSENT:
                continue
            if not isinstance(v, (SBytes, bytes, bytearray)):
                return None
            its = list(SBytes.of(v).items)
            items.extend(its[::-1] if self.each_rev else its)
        st = self.start
        if st is None:
            st = 0
        if isinstance(st, Sym):
            return None
        return SBytes(items[st:])

    @staticmethod
    def eq(a, b):
        if not isinstance(a, Combined) or not isinstance(b, Combined):
            return False
        if a.order != b.order or a.each_rev != b.each_rev or len(a.snapshot) != len(b.snapshot):
            return False
        conds = []
        sa = 0 if a.start is None else a.start
        sb = 0 if b.start is None else b.start
        conds.append(sa == sb)
        for (ka, va), (kb, vb) in zip(a.snapshot, b.snapshot):
            if not (ka == kb):
                return False
            conds.append(entry_eq(va, vb))
        return vand(*conds)


def entry_eq(va, vb):
    terms = []
    for ga, xa in alts(va):
        for gb, xb in alts(vb):
            if xa is ABSENT or xb is ABSENT:
                e = xa is xb
            elif xa is xb:
                e = True
            else:
                e = veq(xa, xb) if not (isinstance(xa, OpaqueBytes) or isinstance(xb, OpaqueBytes)) else False
            if e is False:
                continue
            et = z3.BoolVal(True) if e is True else bool_term(e)
            terms.append(z3.And(ga, gb, et))
    return mk_bool(z3.Or(*terms)) if terms else False
