import argparse
import importlib
import json
import os
import sys

VERIF = os.path.dirname(os.path.dirname(os.path.abspath(__file__)))
sys.path.insert(0, VERIF)
os.environ.setdefault('PYTHONHASHSEED', '0')


def main():
    import logging
    logging.disable(logging.CRITICAL)
    ap = argparse.ArgumentParser()
    ap.add_argument('prop')
    ap.add_argument('--tier', default=os.environ.get('VERIF_TIER', 'quick'))
    ap.add_argument('--replay')
    a = ap.parse_args()
    if a.prop == 'selftest':
        from pyvc import selftest
        sys.exit(selftest.main(a.tier))
    if a.replay:
        body = json.load(open(a.replay))
        print(json.dumps(body, indent=1))
        mod = importlib.import_module(f'props.{body["property"]}')
        if hasattr(mod, 'replay'):
            sys.exit(mod.replay(body))
        sys.exit(1 if (body.get('replay') or {}).get('confirmed') else 0)
    mod = importlib.import_module(f'props.{a.prop}')
    sys.exit(mod.main(a.tier))


if __name__ == '__main__':
    main()
