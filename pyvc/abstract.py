"""Abstract (uninterpreted) values: results of helper functions whose contracts are used as
assumptions at call sites, and reads of constant tables with a symbolic key."""
from __future__ import annotations
from .values import Sym, veq, vand, mk_bool


class App:
    """An uninterpreted application f(args): equal iff same f and pairwise equal arguments
    (sound direction only: used to PROVE equalities, a failed proof is re-examined by replay)."""
    __slots__ = ('fn', 'args', 'ty')

    def __init__(self, fn, args, ty=None):
        self.fn = fn
        self.args = tuple(args)
        self.ty = ty

    def __repr__(self):
        return f'{self.fn}{self.args!r}'

    def sym_eq(self, ex, other):
        return App.eq(self, other)

    @staticmethod
    def eq(a, b):
        if not isinstance(a, App) or not isinstance(b, App):
            return False
        if a.fn != b.fn or len(a.args) != len(b.args):
            return False
        return vand(*[veq2(x, y) for x, y in zip(a.args, b.args)])

    def __hash__(self):
        return id(self)


class TableGet:
    """table.get(key, default) on a constant table with a symbolic key."""
    __slots__ = ('table', 'key', 'default', 'name')

    def __init__(self, table, key, default=None, name=''):
        self.table = table
        self.key = key
        self.default = default
        self.name = name

    def __repr__(self):
        return f'{self.name or "table"}[{self.key!r}]'

    def sym_eq(self, ex, other):
        return TableGet.eq(self, other)

    def is_none(self, ex):
        """`table.get(key, default) is None`: the key misses the table and the default is None (no table value is None)."""
        from .values import vor, vnot, Unsupported
        if any(v is None for v in self.table.values()):
            raise Unsupported('`is None` of a lookup in a table that holds None')
        if self.default is not None:
            return False
        return vnot(vor(*[ex.equals(k, self.key) for k in self.table]))

    @staticmethod
    def eq(a, b):
        if not isinstance(a, TableGet) or not isinstance(b, TableGet):
            return False
        if a.table != b.table or a.default != b.default:
            return False
        return veq2(a.key, b.key)

    def __hash__(self):
        return id(self)


def veq2(a, b):
    from .sstr import SStr
    if isinstance(a, App) or isinstance(b, App):
        return App.eq(a, b)
    if isinstance(a, TableGet) or isinstance(b, TableGet):
        return TableGet.eq(a, b)
    if isinstance(a, (SStr,)) or isinstance(b, (SStr,)):
        if isinstance(a, (SStr, str)) and isinstance(b, (SStr, str)):
            return SStr.eq(None, a, b)
        return False
    if isinstance(a, dict) and isinstance(b, dict):
        return a == b
    return veq(a, b)
