"""Models of the Python builtins and library calls the repository code uses."""
from __future__ import annotations
import z3
from . import values as V
from .values import Sym, Unsupported, mk_bool, mk_int, mk_float, int_term, vand, vor, vnot, ite
from .gv import GV
from .sbytes import SBytes, byte_of, from_bytes, to_bytes
from .sstr import SStr, Fmt, Atom, str_of, hex_of_bytes, sstr_concat
from .symex import (Builtin, BoundBuiltin, ExcClass, Opaque, Obj, ClassVal, FuncVal, EnumVal, PyRaise, make_exc,
                    EXC_PARENTS, exc_isinstance)


class SymSet:
    """A set/list-like collection supporting only membership, len>0, iteration over known items."""
    def __init__(self, items):
        self.items = list(items)

    def sym_contains(self, ex, x):
        x = ex.concretize(x)
        return vor(*[ex.equals(y, x) for y in self.items])

    def sym_iter(self, ex):
        # the iteration order of a set is unspecified (for strings it changes from process to process) and equal elements
        # collapse: only the empty and the one-element set are iterated
        if len(self.items) > 1:
            raise Unsupported('iteration over a set of several symbolic elements (order unspecified, equal elements collapse)')
        return list(self.items)

    def __len__(self):
        # upper bound; only `len(...) > 0` style uses are sound
        return len(self.items)

    def __repr__(self):
        return f'SymSet{self.items!r}'


# ----------------------------------------------------------------------------
def b_len(ex, x):
    x = ex.concretize(x)
    if hasattr(x, 'sym_len'):
        return x.sym_len(ex)
    if isinstance(x, (list, tuple, dict, str, bytes, bytearray, set, frozenset, SBytes)):
        return len(x)
    if isinstance(x, SymSet):
        return len(x.items)
    raise Unsupported(f'len of {type(x).__name__}')


def b_isinstance(ex, x, t):
    ts = t if isinstance(t, tuple) else (t,)
    if isinstance(x, GV):
        gs = []
        for g, v in x.alts:
            r = b_isinstance(ex, v, t)
            if r is True:
                gs.append(g)
            elif r is not False:
                gs.append(z3.And(g, V.bool_term(r)))
        return mk_bool(z3.Or(*gs)) if gs else False
    for c in ts:
        n = c.name if isinstance(c, (Builtin, ExcClass)) else (c.info.name if isinstance(c, ClassVal) else None)
        if n is None and isinstance(c, ExtModule):
            n = c.name.split('.')[-1]
        if n is None:
            raise Unsupported(f'isinstance against {c!r}')
        from .abstract import App
        if isinstance(x, App) and x.ty == n:
            return True
        if n == 'int' and (isinstance(x, int) or (isinstance(x, Sym) and x.ty in ('int', 'bool'))):
            return True
        if n == 'float' and (isinstance(x, float) or (isinstance(x, Sym) and x.ty == 'float')):
            return True
        if n == 'bool' and (isinstance(x, bool) or (isinstance(x, Sym) and x.ty == 'bool')):
            return True
        if n == 'str' and isinstance(x, (str, SStr)):
            return True
        if n == 'bytes' and (isinstance(x, bytes) or (isinstance(x, SBytes) and not x.mutable)):
            return True
        if n == 'bytearray' and (isinstance(x, bytearray) or (isinstance(x, SBytes) and x.mutable)):
            return True
        if n == 'list' and isinstance(x, list):
            return True
        if n == 'dict' and isinstance(x, dict):
            return True
        if n == 'tuple' and isinstance(x, tuple):
            return True
        if isinstance(x, Obj):
            if x.cls is not None and isinstance(c, ClassVal) and c.info in ex.repo.mro(x.cls):
                return True
            if x.cls is None and isinstance(c, ExcClass) and exc_isinstance(x.clsname, c.name):
                return True
            if x.cls is None and x.clsname == n:
                return True
    return False


def _hex_spec(spec):
    """'X'/'x' -> 0 (natural width), '0NX' -> N, anything else -> None"""
    sp = spec.lower()
    if sp == 'x':
        return 0
    if sp.endswith('x') and sp.startswith('0') and sp[1:-1].isdigit():
        return int(sp[1:-1])
    return None


def b_int(ex, x=0, base=None):
    x = ex.concretize(x)
    if base is not None:
        if isinstance(x, SStr):
            if len(x.parts) == 1 and isinstance(x.parts[0], Fmt) and base == 16 and x.parts[0].spec.lower().endswith('x'):
                return x.parts[0].value      # axiom A2
            if base == 16 and x.parts and all((isinstance(p, Fmt) and p.spec.lower() == '02x') or (isinstance(p, str) and len(p) % 2 == 0 and p != '') for p in x.parts):
                # A2 for a run of fixed-width two-digit tokens: the big-endian integer of the bytes
                total = 0
                for p in x.parts:
                    if isinstance(p, Fmt):
                        total = (total << 8) + p.value
                    else:
                        try:
                            for b in bytes.fromhex(p):
                                total = (total << 8) + b
                        except ValueError as e:
                            raise PyRaise(make_exc('ValueError', str(e)))
                return total
            if base == 16 and x.parts and all(isinstance(p, Fmt) and _hex_spec(p.spec) is not None for p in x.parts):
                # A2 generalised: a run of hex tokens of fixed ('0NX') or natural ('X') width; the number of digits of a token of
                # natural width depends on its value (case split on 16^k thresholds, values up to 32 bits)
                acc = 0
                for p in x.parts:
                    width = _hex_spec(p.spec)
                    v = p.value
                    neg = mk_bool(int_term(v) < 0) if isinstance(v, Sym) else v < 0
                    if neg is True or (neg is not False and ex.truth(neg)):
                        raise Unsupported('int() of a formatted negative number')
                    cases = []
                    for k in range(1, 9):
                        kk = max(k, width)
                        cases.append((v < 16 ** k, acc * (16 ** kk) + v))
                    res = acc * (16 ** max(9, width)) + v
                    for c, val in reversed(cases):
                        res = ite(c, val, res) if isinstance(c, Sym) else (val if c else res)
                    acc = res
                return acc
            raise Unsupported(f'int({x!r}, {base})')
        if hasattr(x, 'sym_int'):
            return x.sym_int(ex, base)
        try:
            return int(x, base)
        except ValueError as e:
            raise PyRaise(make_exc('ValueError', str(e)))
    if isinstance(x, Sym):
        if x.ty == 'int':
            return x
        if x.ty == 'bool':
            return mk_int(int_term(x), 1)
        return mk_int(V.F_TRUNC(x.t))
    if hasattr(x, 'sym_int'):
        return x.sym_int(ex, 10)
    if isinstance(x, SStr):
        if len(x.parts) == 1 and isinstance(x.parts[0], Fmt) and x.parts[0].spec == '':
            return x.parts[0].value
        raise Unsupported(f'int({x!r})')
    try:
        return int(x)
    except (ValueError, OverflowError) as e:
        raise PyRaise(make_exc(type(e).__name__, str(e)))
    except TypeError as e:
        raise PyRaise(make_exc('TypeError', str(e)))


def b_float(ex, x=0.0):
    x = ex.concretize(x)
    if isinstance(x, Sym):
        return mk_float(V.float_term(x))
    return float(x)


def b_round(ex, x, nd=None):
    x = ex.concretize(x)
    if isinstance(x, Sym):
        if x.ty in ('int', 'bool'):
            return x
        if nd is None:
            return mk_int(V.F_ROUND(x.t))
        if isinstance(nd, Sym):
            raise Unsupported('round with symbolic digits')
        return mk_float(V.F_RND_ND(x.t, z3.IntVal(nd)))
    return round(x) if nd is None else round(x, nd)


def b_bool(ex, x=False):
    return ex.truth(x)


def b_str(ex, x=''):
    return str_of(ex, x)


def b_bytes(ex, x=b'', *a):
    x = ex.concretize(x)
    from .symmap import Combined
    if isinstance(x, Combined):
        return Combined(x.snapshot, x.order, x.each_rev, x.start, as_list=False)
    if isinstance(x, (bytes, bytearray)):
        return bytes(x)
    if isinstance(x, SBytes):
        return SBytes(x.items, False)
    if isinstance(x, (list, tuple)):
        items = [byte_of(ex.concretize(v)) for v in x]
        if all(isinstance(i, int) for i in items):
            return bytes(items)
        return SBytes(items)
    if isinstance(x, int):
        return bytes(x)
    if isinstance(x, Sym):
        raise Unsupported('bytes(symbolic length)')
    if type(x).__name__ == 'ABuf':
        # a copy with the same content (buffers are updated functionally: the byte function is never written in place)
        from .abuf import ABuf
        return ABuf(ex, x.fn, x.n, False, x.tag)
    raise Unsupported(f'bytes({type(x).__name__})')


def b_bytearray(ex, x=b''):
    x = ex.concretize(x)
    if type(x).__name__ == 'ABuf':
        from .abuf import ABuf
        return ABuf(ex, x.fn, x.n, True, x.tag)
    r = b_bytes(ex, x)
    return SBytes(list(r) if isinstance(r, bytes) else r.items, True)


def b_range(ex, *a):
    a = [ex.concretize(x) for x in a]
    if any(isinstance(x, Sym) for x in a):
        raise Unsupported('range with symbolic bound')
    return range(*a)


def _extreme(ex, a, kw, less):
    key = kw.get('key')
    items = list(ex.iterate(a[0])) if len(a) == 1 else list(a)
    if not items:
        if 'default' in kw:
            return kw['default']
        raise PyRaise(make_exc('ValueError', 'min()/max() arg is an empty sequence'))
    keys = [ex.call(key, [x], {}, None) for x in items] if key is not None else items
    r, rk = items[0], keys[0]
    for x, k in zip(items[1:], keys[1:]):
        if isinstance(k, Sym) or isinstance(rk, Sym):
            c = less(k, rk)
            if key is None:
                r = rk = ite(c, k, rk)
            elif ex.truth(c):
                r, rk = x, k
        elif less(k, rk):
            r, rk = x, k
    return r


def b_min(ex, *a, **kw):
    return _extreme(ex, a, kw, lambda x, y: x < y)


def b_max(ex, *a, **kw):
    return _extreme(ex, a, kw, lambda x, y: x > y)


def b_sum(ex, it, start=0):
    r = start
    for x in ex.iterate(it):
        r = r + x
    return r


def b_sorted(ex, it, **kw):
    it = ex.concretize(it)
    if hasattr(it, 'sym_sorted'):
        if kw.get('reverse'):
            raise Unsupported('sorted(..., reverse=True) of a symbolic map')
        if kw.get('key') is not None:
            return it.sym_sorted(ex, key=kw['key'])
        return it.sym_sorted(ex)
    xs = ex.iterate(it)
    if any(isinstance(x, Sym) for x in xs):
        raise Unsupported('sorted over symbolic items')
    return sorted(xs, **kw)


def b_list(ex, it=()):
    return list(ex.iterate(it))


def b_tuple(ex, it=()):
    return tuple(ex.iterate(it))


def b_set(ex, it=()):
    return SymSet(ex.iterate(it))


def b_dict(ex, *a, **kw):
    d = {}
    if a:
        src = ex.concretize(a[0])
        if isinstance(src, dict):
            d.update(src)
        else:
            for k, v in ex.iterate(src):
                d[ex.dict_key(k)] = v
    d.update(kw)
    return d


def b_abs(ex, x):
    x = ex.concretize(x)
    if isinstance(x, Sym):
        return ite(x < 0, -x, x)
    return abs(x)


def b_enumerate(ex, it, start=0):
    return list(enumerate(ex.iterate(it), start))


def b_zip(ex, *its):
    return list(zip(*[ex.iterate(i) for i in its]))


def b_map(ex, f, *its):
    return [ex.call(f, list(args)) for args in zip(*[ex.iterate(i) for i in its])]


def b_next(ex, it, *default):
    if hasattr(it, '__next__'):
        # an iterator made by iter(): consumed item by item
        try:
            return next(it)
        except StopIteration:
            if default:
                return default[0]
            raise PyRaise(make_exc('StopIteration'))
    xs = ex.iterate(it)
    if xs:
        return xs[0]
    if default:
        return default[0]
    raise PyRaise(make_exc('StopIteration'))


def b_type(ex, x):
    x = ex.concretize(x)
    if isinstance(x, Obj):
        return ClassVal(x.cls) if x.cls is not None else ExcClass(x.clsname)
    n = V.pytype(x) if isinstance(x, (Sym, int, float, bool)) else type(x).__name__
    if isinstance(x, SStr):
        n = 'str'
    if isinstance(x, SBytes):
        n = 'bytearray' if x.mutable else 'bytes'
    return BUILTINS.get(n, Opaque(f'type {n}'))


def b_hasattr(ex, o, n):
    o = ex.concretize(o)
    if isinstance(o, Obj):
        return n in o.attrs or (o.cls is not None and ex.repo.find_method(o.cls, n) is not None)
    raise Unsupported('hasattr')


def b_globals(ex):
    return ModuleGlobals()


class ModuleGlobals:
    """globals() of a repository module: only .get(name) is modelled (static name resolution,
    assumption: no monkey-patching of module globals)."""
    ALWAYS_TRUE = True        # a Python object of this kind is truthy (no __bool__ / __len__)
    def __init__(self, module=None):
        self.module = module


def b_open(ex, *a, **kw):
    ex.ghost.setdefault('open_calls', []).append((list(a), dict(kw)))
    return Opaque('file')


def b_print(ex, *a, **kw):
    return None


def b_format(ex, v, spec=''):
    v = ex.concretize(v)
    spec = ex.concretize(spec)
    if isinstance(v, Sym) and isinstance(spec, str):
        return SStr([Fmt(v, spec)])
    if isinstance(v, (Sym, SStr)) or isinstance(spec, (Sym, SStr)):
        raise Unsupported('format() of a symbolic value')
    try:
        return format(v, spec)
    except (ValueError, TypeError) as e:
        raise PyRaise(make_exc(type(e).__name__, str(e)))


def b_iter(ex, x):
    return iter(list(ex.iterate(x)))


def b_vars(ex, obj):
    obj = ex.concretize(obj)
    if isinstance(obj, Obj):
        return obj.attrs
    raise Unsupported('vars() of a non-object')


def b_int_from_bytes(ex, b, byteorder='big', **kw):
    if isinstance(b, tuple) and len(b) == 3 and b[0] == 'packed':
        # struct.pack result (dependency contract of contracts/helpers_c.py): the IEEE-754 single pattern of the value
        from contracts.helpers_c import BITS_OF_SINGLE
        from .values import real_term
        if b[1] == '<f' and byteorder == 'little' and not kw.get('signed'):
            return mk_int(BITS_OF_SINGLE(real_term(b[2])))
        raise Unsupported(f'int.from_bytes of struct.pack({b[1]!r}) with byteorder {byteorder!r}')
    b = ex.concretize(b)
    if kw.get('signed'):
        raise Unsupported('int.from_bytes signed')
    if isinstance(b, list):
        b = b_bytes(ex, b)
    return from_bytes(b, byteorder)


def b_bytes_fromhex(ex, s):
    s = ex.concretize(s)
    if hasattr(s, 'sym_fromhex'):
        return s.sym_fromhex(ex)
    if isinstance(s, SStr):
        items = []
        for p in s.parts:
            if isinstance(p, Fmt) and p.spec.lower() == '02x':
                items.append(p.value)
            elif isinstance(p, str):
                try:
                    items.extend(bytes.fromhex(p))
                except ValueError as e:
                    raise PyRaise(make_exc('ValueError', str(e)))
            else:
                raise Unsupported(f'bytes.fromhex({s!r})')
        return SBytes(items)
    try:
        return bytes.fromhex(s)
    except ValueError as e:
        raise PyRaise(make_exc('ValueError', str(e)))


def b_all(ex, it):
    for x in ex.iterate(it):
        if not ex.truth(x):
            return False
    return True


def b_any(ex, it):
    for x in ex.iterate(it):
        if ex.truth(x):
            return True
    return False


def b_reversed(ex, it):
    it = ex.concretize(it)
    if hasattr(it, 'sym_getitem') and not isinstance(it, (list, tuple)):
        return it.sym_getitem(ex, slice(None, None, -1))
    return list(ex.iterate(it))[::-1]


def b_divmod(ex, a, b):
    return (a // b, a % b)


def b_getattr(ex, obj, name, *default):
    try:
        return ex.getattr(ex.concretize(obj), name)
    except PyRaise as pr:
        if default and pr.exc_name() == 'AttributeError':
            return default[0]
        raise


BUILTINS = {}
for _n, _f in [('iter', b_iter), ('format', b_format), ('vars', b_vars), ('all', b_all), ('any', b_any), ('reversed', b_reversed), ('getattr', b_getattr), ('divmod', b_divmod),
               ('len', b_len), ('isinstance', b_isinstance), ('int', b_int), ('float', b_float), ('round', b_round),
               ('bool', b_bool), ('str', b_str), ('bytes', b_bytes), ('bytearray', b_bytearray), ('range', b_range),
               ('min', b_min), ('max', b_max), ('sum', b_sum), ('sorted', b_sorted), ('list', b_list),
               ('tuple', b_tuple), ('set', b_set), ('frozenset', b_set), ('dict', b_dict), ('abs', b_abs), ('enumerate', b_enumerate),
               ('zip', b_zip), ('map', b_map), ('next', b_next), ('type', b_type), ('hasattr', b_hasattr),
               ('globals', b_globals), ('open', b_open), ('print', b_print)]:
    BUILTINS[_n] = Builtin(_n, _f)
for _n in EXC_PARENTS:
    if '.' not in _n:
        BUILTINS[_n] = ExcClass(_n)
BUILTINS['None'] = None
BUILTINS['True'] = True
BUILTINS['False'] = False


# ----------------------------------------------------------------------------
# external modules
# ----------------------------------------------------------------------------
class ExtModule:
    ALWAYS_TRUE = True        # a Python object of this kind is truthy (no __bool__ / __len__)
    def __init__(self, name):
        self.name = name

    def __repr__(self):
        return f'<module {self.name}>'


EXT_HOOKS = {}   # dotted name -> value or factory, filled by contract modules (deps_*.py)


def b_isclose(ex, a, b, rel_tol=1e-09, abs_tol=0.0):
    if abs_tol != 0.0:
        raise Unsupported('isclose abs_tol')
    return V.isclose(ex.concretize(a), ex.concretize(b), rel_tol)


EXT_HOOKS['math.isclose'] = Builtin('math.isclose', b_isclose)
EXT_HOOKS['os.path.dirname'] = Builtin('os.path.dirname', lambda ex, p: __import__('os').path.dirname(p) if isinstance(p, str) else Opaque('dirname'))
EXT_HOOKS['os.makedirs'] = Builtin('os.makedirs', lambda ex, *a, **k: None)
EXT_HOOKS['contextlib.suppress'] = Builtin('contextlib.suppress', lambda ex, *classes: ('contextlib.suppress', classes))


def external(dotted):
    if dotted in EXT_HOOKS:
        return EXT_HOOKS[dotted]
    return ExtModule(dotted)


# ----------------------------------------------------------------------------
# methods of builtin values
# ----------------------------------------------------------------------------
def method_of(ex, obj, name):
    if isinstance(obj, Builtin) and obj.name == 'int' and name == 'from_bytes':
        return Builtin('int.from_bytes', b_int_from_bytes)
    if isinstance(obj, Builtin) and obj.name == 'bytes' and name == 'fromhex':
        return Builtin('bytes.fromhex', b_bytes_fromhex)
    if isinstance(obj, ExtModule):
        dotted = f'{obj.name}.{name}'
        if dotted in EXT_HOOKS:
            return EXT_HOOKS[dotted]
        return ExtModule(dotted)
    if isinstance(obj, ModuleGlobals) and name == 'get':
        return BoundBuiltin('globals.get', m_globals_get, obj)
    if isinstance(obj, (bytes, bytearray, SBytes)):
        f = BYTES_METHODS.get(name)
        if f:
            return BoundBuiltin(f'bytes.{name}', f, obj)
    if isinstance(obj, (int, Sym)) and not isinstance(obj, bool):
        f = INT_METHODS.get(name)
        if f:
            return BoundBuiltin(f'int.{name}', f, obj)
    if isinstance(obj, (str, SStr)):
        f = STR_METHODS.get(name)
        if f:
            return BoundBuiltin(f'str.{name}', f, obj)
        if isinstance(obj, str) and name in _NATIVE_STR_METHODS:
            # a concrete string and a side-effect free method: CPython computes it when the arguments are concrete too
            def native(ex, me, *a, **k):
                a = [ex.concretize(x) for x in a]
                if any(isinstance(x, (Sym, SStr)) for x in a) or any(isinstance(x, (Sym, SStr)) for x in k.values()):
                    raise Unsupported(f'str.{name} with symbolic arguments')
                try:
                    return getattr(me, name)(*a, **k)
                except (ValueError, TypeError, IndexError, KeyError) as e:
                    raise PyRaise(make_exc(type(e).__name__, str(e)))
            return BoundBuiltin(f'str.{name}', native, obj)
    if isinstance(obj, list):
        f = LIST_METHODS.get(name)
        if f:
            return BoundBuiltin(f'list.{name}', f, obj)
    if isinstance(obj, dict):
        f = DICT_METHODS.get(name)
        if f:
            return BoundBuiltin(f'dict.{name}', f, obj)
    if isinstance(obj, SymSet):
        f = SET_METHODS.get(name)
        if f:
            return BoundBuiltin(f'set.{name}', f, obj)
    if isinstance(obj, set):
        f = PYSET_METHODS.get(name)
        if f:
            return BoundBuiltin(f'set.{name}', f, obj)
    if hasattr(obj, 'sym_method'):
        return obj.sym_method(ex, name)
    if isinstance(obj, Opaque):
        return Opaque(f'{obj.name}.{name}')
    return None


def m_globals_get(ex, g, name, default=None):
    fr_mod = ex.ghost.get('current_module_for_globals')
    name = ex.concretize(name)
    if 'globals_get' in ex.hooks:
        r = ex.hooks['globals_get'](ex, name)
        if r is not None:
            return r[0]
    if isinstance(name, SStr):
        raise Unsupported(f'globals().get of symbolic name {name!r}')
    for mod in (['decoder', 'encoder'] if fr_mod is None else [fr_mod]):
        r = ex.repo.resolve_global(mod, name)
        if r is not None and r[0] == 'func':
            return FuncVal(r[1])
    return default


# ---- bytes ---------------------------------------------------------------------
def m_bytes_hex(ex, b, *a):
    if a:
        raise Unsupported('bytes.hex(sep)')
    return hex_of_bytes(b)


def m_bytes_find(ex, b, sub, start=0):
    b = SBytes.of(b)
    sub = SBytes.of(ex.concretize(sub))
    n, m = len(b), len(sub)
    if isinstance(start, Sym):
        raise Unsupported('find with symbolic start')
    for i in range(start, n - m + 1):
        hit = vand(*[b.items[i + j] == sub.items[j] for j in range(m)])
        if ex.truth(hit):
            return i
    return -1


def m_bytes_extend(ex, b, other):
    if not isinstance(b, SBytes) or not b.mutable:
        raise Unsupported('extend on immutable bytes')
    other = ex.concretize(other)
    b.items.extend(SBytes.of(other).items if isinstance(other, (bytes, bytearray, SBytes)) else [byte_of(x) for x in ex.iterate(other)])


def m_bytes_decode(ex, b, *a, **kw):
    b = SBytes.of(b)
    if b.concrete():
        return b.to_bytes().decode(*a, **kw)
    if 'bytes_decode' in ex.hooks:
        return ex.hooks['bytes_decode'](ex, b, a, kw)
    raise Unsupported('decode of symbolic bytes')


def m_bytes_startswith(ex, b, p):
    b = SBytes.of(b)
    p = SBytes.of(p)
    if len(p) > len(b):
        return False
    return vand(*[b.items[i] == p.items[i] for i in range(len(p))])


def _pad(ex, b, width, fill, left):
    b = SBytes.of(b)
    width = ex.concretize(width)
    fill = ex.concretize(fill)
    if isinstance(width, Sym) or not isinstance(fill, (bytes, bytearray)) or len(fill) != 1:
        raise Unsupported('bytes.rjust/ljust with symbolic width or a fill that is not one byte')
    pad = [fill[0]] * max(0, width - len(b))
    return SBytes(pad + list(b.items) if left else list(b.items) + pad)


def m_bytes_rjust(ex, b, width, fill=b' '):
    return _pad(ex, b, width, fill, True)


def m_bytes_ljust(ex, b, width, fill=b' '):
    return _pad(ex, b, width, fill, False)


def _bstrip(ex, b, chars, left, right):
    b = SBytes.of(b)
    chars = ex.concretize(chars)
    if chars is None:
        chars = b' \t\n\r\x0b\x0c'
    if not isinstance(chars, (bytes, bytearray)):
        raise Unsupported('bytes.strip with a symbolic set of bytes')
    items = list(b.items)

    def drop(x):
        c = vor(*[x == ch for ch in set(chars)]) if chars else False
        return c is True or (c is not False and ex.truth(c))
    lo, hi = 0, len(items)
    if right:
        while hi > lo and drop(items[hi - 1]):
            hi -= 1
    if left:
        while lo < hi and drop(items[lo]):
            lo += 1
    out = items[lo:hi]
    if all(isinstance(i, int) for i in out):
        return bytes(out)
    return SBytes(out)


def m_bytes_rstrip(ex, b, chars=None):
    return _bstrip(ex, b, chars, False, True)


def m_bytes_lstrip(ex, b, chars=None):
    return _bstrip(ex, b, chars, True, False)


def m_bytes_strip(ex, b, chars=None):
    return _bstrip(ex, b, chars, True, True)


BYTES_METHODS = {'rstrip': m_bytes_rstrip, 'lstrip': m_bytes_lstrip, 'strip': m_bytes_strip, 'rjust': m_bytes_rjust, 'ljust': m_bytes_ljust, 'hex': m_bytes_hex, 'find': m_bytes_find, 'extend': m_bytes_extend, 'decode': m_bytes_decode,
                 'startswith': m_bytes_startswith}


# ---- int ------------------------------------------------------------------------
def m_int_to_bytes(ex, x, length=1, byteorder='big', **kw):
    length = ex.concretize(length)
    if isinstance(length, Sym):
        return to_bytes_symlen(ex, x, length, byteorder)
    if kw.get('signed'):
        raise Unsupported('to_bytes signed')
    if length < 0:
        raise PyRaise(make_exc('ValueError', 'length argument must be non-negative'))
    r = to_bytes(x, length, byteorder)
    return r.to_bytes() if r.concrete() else r


class VarLenBytes:
    """Result of int.to_bytes with a symbolic length: only the source integer and the length are known."""
    def __init__(self, x, length, order):
        self.src = (x, length, order)
        self.mutable = False

    def __repr__(self):
        return f'to_bytes({self.src[0]!r}, {self.src[1]!r})'


def to_bytes_symlen(ex, x, length, order):
    lt = int_term(length)
    neg = mk_bool(lt < 0)
    if neg is True or (neg is not False and ex.truth(neg)):
        raise PyRaise(make_exc('ValueError', 'length argument must be non-negative'))
    p = V.POW2(8 * lt)
    ex.assume(p >= 1)
    bl = ex.ghost.get(('bit_length_of', id(x)))
    if bl is not None:
        # monotonicity instance of 2**k (a fact about the uninterpreted pow2)
        ex.assume(z3.Implies(bl.t <= 8 * lt, V.POW2(bl.t) <= p))
    over = mk_bool(z3.Or(int_term(x) < 0, int_term(x) >= p))
    if over is True:
        raise PyRaise(make_exc('OverflowError', 'int too big to convert'))
    if over is not False:
        if ex.merge:
            ex.collect_raise('OverflowError', over, 'to_bytes')
        elif ex.truth(over):
            raise PyRaise(make_exc('OverflowError', 'int too big to convert'))
    return VarLenBytes(x, length, order)


def m_int_bit_length(ex, x):
    if isinstance(x, Sym):
        if 'bit_length' in ex.hooks:
            return ex.hooks['bit_length'](ex, x)
        raise Unsupported('bit_length of symbolic int')
    return x.bit_length()


INT_METHODS = {'to_bytes': m_int_to_bytes, 'bit_length': m_int_bit_length}


# ---- str ------------------------------------------------------------------------
def m_str_lower(ex, s):
    if isinstance(s, str):
        return s.lower()
    if len(s.parts) == 1 and isinstance(s.parts[0], Atom):
        a = s.parts[0]
        return SStr([Atom(a.name, True, a.term)])
    raise Unsupported(f'lower() of {s!r}')


def m_str_upper(ex, s):
    if isinstance(s, str):
        return s.upper()
    parts = []
    for p in s.parts:
        if isinstance(p, str):
            parts.append(p.upper())
        elif isinstance(p, Fmt) and p.spec.lower().endswith('x'):
            parts.append(Fmt(p.value, p.spec[:-1] + 'X'))
        elif isinstance(p, Fmt) and p.spec == '':
            parts.append(p)
        else:
            raise Unsupported(f'upper() of {s!r}')
    return SStr(parts)


def m_str_encode(ex, s, *a, **kw):
    if isinstance(s, str):
        try:
            return s.encode(*a, **kw)
        except (UnicodeEncodeError, LookupError) as e:
            raise PyRaise(make_exc(type(e).__name__, str(e)))
    enc = (a[0] if a else kw.get('encoding', 'utf-8'))
    errors = (a[1] if len(a) > 1 else kw.get('errors', 'strict'))
    if not isinstance(enc, str) or enc.lower().replace('_', '-') not in ('utf-8', 'utf8') or errors != 'strict':
        # any other codec or error handler can lose or change characters of an unknown text (or raise)
        raise Unsupported(f'str.encode({enc!r}, errors={errors!r}) of a symbolic text')
    return EncodedStr(s)


class EncodedStr:
    """bytes obtained by encoding a structured symbolic string (kept structured)."""
    def __init__(self, s):
        self.s = s

    def __repr__(self):
        return f'encoded({self.s!r})'

    def sym_method(self, ex, name):
        if name == 'decode':
            return BoundBuiltin('bytes.decode', lambda ex, me, *a, **k: me.s, self)
        if name == 'hex':
            return BoundBuiltin('bytes.hex', lambda ex, me: SStr([Atom(f'hex!{id(me)}')]), self)
        return None


def m_str_join(ex, sep, it):
    xs = [ex.concretize(x) for x in ex.iterate(it)]
    out = ''
    for i, x in enumerate(xs):
        if i:
            out = sstr_concat(out, sep)
        if not isinstance(x, (str, SStr)):
            raise PyRaise(make_exc('TypeError', 'sequence item: expected str'))
        out = sstr_concat(out, x)
    return out


_NATIVE_STR_METHODS = ('isdigit', 'isalpha', 'isalnum', 'isnumeric', 'isdecimal', 'isspace', 'islower', 'isupper', 'endswith', 'find', 'rfind', 'index', 'count',
                       'replace', 'title', 'capitalize', 'lstrip', 'rstrip', 'zfill', 'ljust', 'rjust', 'center', 'partition', 'rpartition', 'rsplit', 'splitlines',
                       'removeprefix', 'removesuffix', 'casefold', 'swapcase', 'format', 'isidentifier', 'isascii')
_PREFIX = {}


def _prefix_pred(p):
    if p not in _PREFIX:
        from .sstr import Atom as _A
        _PREFIX[p] = z3.Function(f'str.startswith[{p}]', _A.S, z3.BoolSort())
    return _PREFIX[p]


def m_str_startswith(ex, s, p):
    if isinstance(s, str):
        return s.startswith(p)
    if isinstance(p, str) and len(s.parts) == 1 and isinstance(s.parts[0], Atom):
        # an unknown text: whether it starts with p is an unknown (but consistent) fact about it
        return mk_bool(_prefix_pred(p)(s.parts[0].z3()))
    if s.parts and isinstance(s.parts[0], str) and len(s.parts[0]) >= len(p):
        return s.parts[0].startswith(p)
    raise Unsupported(f'startswith on {s!r}')


def m_str_endswith(ex, s, p):
    if isinstance(s, str):
        return s.endswith(p)
    if s.parts and isinstance(s.parts[-1], str) and len(s.parts[-1]) >= len(p):
        return s.parts[-1].endswith(p)
    if s.parts and isinstance(s.parts[-1], Atom) and s.parts[-1].ends == 'digit' and p and not p[-1].isdigit():
        return False
    raise Unsupported(f'endswith on {s!r}')


def m_str_split(ex, s, sep=None, maxsplit=-1):
    if isinstance(s, str):
        return s.split(sep, maxsplit)
    if hasattr(s, 'sym_split'):
        return s.sym_split(ex, sep, maxsplit)
    # axiom A3: tokens (Fmt) are non-empty and contain no whitespace / separators
    if maxsplit != -1:
        raise Unsupported('split maxsplit on symbolic string')
    toks = []
    cur = ''
    started = False
    for p in s.parts:
        if isinstance(p, str):
            pieces = p.split(sep) if sep is not None else None
            if sep is None:
                # whitespace split
                i = 0
                buf = ''
                for ch in p:
                    if ch.isspace():
                        if started:
                            toks.append(cur)
                            cur = ''
                            started = False
                    else:
                        cur = sstr_concat(cur, ch)
                        started = True
            else:
                for j, piece in enumerate(pieces):
                    if j > 0:
                        toks.append(cur)
                        cur = ''
                    cur = sstr_concat(cur, piece)
                started = True
        else:
            cur = sstr_concat(cur, SStr([p]))
            started = True
    if sep is None:
        if started:
            toks.append(cur)
    else:
        toks.append(cur)
    return toks


def m_str_strip(ex, s, chars=None):
    if isinstance(s, str):
        return s.strip(chars)
    parts = list(s.parts)
    if parts and isinstance(parts[0], str):
        parts[0] = parts[0].lstrip(chars)
    if parts and isinstance(parts[-1], str):
        parts[-1] = parts[-1].rstrip(chars)
    parts = [p for p in parts if not (isinstance(p, str) and p == '')]
    return SStr(parts) if not all(isinstance(p, str) for p in parts) else ''.join(parts)


def m_str_format(ex, s, *a, **kw):
    """'...{}...{name:spec}...'.format(...) with a concrete template: the same pieces an f-string gives."""
    import string
    from .sstr import fmt_value
    if not isinstance(s, str):
        raise Unsupported('str.format on a symbolic template')
    out = ''
    auto = 0
    try:
        pieces = list(string.Formatter().parse(s))
    except ValueError as e:
        raise PyRaise(make_exc('ValueError', str(e)))
    for lit, field, spec, conv in pieces:
        if lit:
            out = sstr_concat(out, lit)
        if field is None:
            continue
        if '{' in (spec or ''):
            raise Unsupported('str.format with a nested format spec')
        if field == '':
            key = auto
            auto += 1
        elif field.isdigit():
            key = int(field)
        elif field.isidentifier():
            key = field
        else:
            raise Unsupported(f'str.format field {field!r}')
        try:
            v = a[key] if isinstance(key, int) else kw[key]
        except (IndexError, KeyError) as e:
            raise PyRaise(make_exc(type(e).__name__, str(e)))
        out = sstr_concat(out, fmt_value(ex, ex.concretize(v), spec or '', {None: -1, 'r': ord('r'), 's': ord('s'), 'a': ord('a')}[conv]))
    return out


STR_METHODS = {'lower': m_str_lower, 'upper': m_str_upper, 'encode': m_str_encode, 'join': m_str_join,
               'startswith': m_str_startswith, 'endswith': m_str_endswith, 'split': m_str_split,
               'strip': m_str_strip, 'format': m_str_format}


# ---- list / dict / set -------------------------------------------------------------
def m_list_append(ex, l, x):
    l.append(x)


def m_list_extend(ex, l, it):
    l.extend(ex.iterate(it))


def m_list_remove(ex, l, x):
    for i, y in enumerate(l):
        if ex.truth(ex.equals(y, x)):
            del l[i]
            return
    raise PyRaise(make_exc('ValueError', 'list.remove(x): x not in list'))


def m_list_clear(ex, l):
    l.clear()


def m_list_pop(ex, l, *a):
    try:
        return l.pop(*a)
    except IndexError:
        raise PyRaise(make_exc('IndexError', 'pop from empty list'))


def m_list_copy(ex, l):
    return list(l)


LIST_METHODS = {'append': m_list_append, 'extend': m_list_extend, 'remove': m_list_remove, 'clear': m_list_clear,
                'pop': m_list_pop, 'copy': m_list_copy}


CONST_TABLES = {}


def register_const_table(d, name):
    CONST_TABLES[id(d)] = name
    for k, v in d.items():
        if isinstance(v, dict):
            register_const_table(v, f'{name}[{k!r}]')


def m_dict_get(ex, d, k, default=None):
    k = ex.concretize(k)
    if isinstance(k, (Sym, SStr)) and id(d) in CONST_TABLES:
        from .abstract import TableGet
        return TableGet(d, k, default, CONST_TABLES[id(d)])
    if isinstance(k, (Sym, SStr)):
        alts = []
        none_g = []
        for key, val in d.items():
            e = ex.equals(key, k)
            if e is False:
                continue
            if e is True:
                return val
            alts.append((V.bool_term(e), val))
            none_g.append(V.bool_term(e))
        rest = z3.Not(z3.Or(*none_g)) if none_g else z3.BoolVal(True)
        alts.append((rest, default))
        return GV.make(alts)
    try:
        return d.get(k, default)
    except TypeError:
        return default


def m_dict_items(ex, d):
    return list(d.items())


def m_dict_keys(ex, d):
    return list(d.keys())


def m_dict_values(ex, d):
    return list(d.values())


def m_dict_clear(ex, d):
    d.clear()


def m_dict_pop(ex, d, k, *default):
    k = ex.dict_key(k)
    if k in d:
        return d.pop(k)
    if default:
        return default[0]
    raise PyRaise(make_exc('KeyError', k))


def m_dict_update(ex, d, other):
    d.update(other)


DICT_METHODS = {'get': m_dict_get, 'items': m_dict_items, 'keys': m_dict_keys, 'values': m_dict_values,
                'clear': m_dict_clear, 'pop': m_dict_pop, 'update': m_dict_update}


def m_set_add(ex, s, x):
    s.items.append(x)


SET_METHODS = {'add': m_set_add}
PYSET_METHODS = {'add': lambda ex, s, x: s.add(ex.dict_key(x))}


from . import timeval as _tv  # noqa: E402
EXT_HOOKS['datetime.timedelta'] = Builtin('timedelta', _tv.timedelta)
EXT_HOOKS['datetime.datetime.now'] = Builtin('datetime.now', _tv.now)
EXT_HOOKS['datetime.datetime.strptime'] = Builtin('datetime.strptime', _tv.strptime)


def b_degrees(ex, x):
    import math
    x = ex.concretize(x)
    if isinstance(x, Sym):
        return mk_float(V.F_MUL(V.float_term(x), V.fval(180.0 / math.pi)))
    return math.degrees(x)


EXT_HOOKS['math.degrees'] = Builtin('math.degrees', b_degrees)
