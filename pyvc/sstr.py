"""Structured symbolic strings (token algebra).

A symbolic string is a sequence of parts; a part is a Python str or a token:
  Fmt(value, spec)    result of formatting a scalar (f"{v}", f"{v:02X}", str(v), hex())
  Lower(s)            s.lower() of an opaque string atom
  Atom(name)          an unknown string (e.g. a message id)
Equality is decided structurally under stated axioms (see DESIGN 2.2 / trusted base):
  A1  a decimal/hex formatted integer contains only [0-9A-Fa-f-] characters
  A2  parsing a formatted integer gives the integer back
  A3  split/join over whitespace-free, non-empty tokens are inverse
"""
from __future__ import annotations
import z3
from .values import Sym, Unsupported, vand, vor, vnot, mk_bool, int_term


class Fmt:
    __slots__ = ('value', 'spec')

    def __init__(self, value, spec):
        self.value = value
        self.spec = spec   # '' (decimal str()), '02X', '05X', '02x', 'hex2'...

    def __repr__(self):
        return f'{{{self.value!r}:{self.spec}}}'


class Atom:
    """An opaque string with an identity; `lower` marks s.lower()."""
    __slots__ = ('name', 'lower', 'term', 'ends')
    S = z3.DeclareSort('Str')
    LOWER = z3.Function('str.lower', S, S)

    def __init__(self, name, lower=False, term=None, ends=None):
        self.name = name
        self.lower = lower
        self.term = term if term is not None else z3.Const(name, Atom.S)
        self.ends = ends     # 'digit': the unknown text is known to end with a decimal digit

    def z3(self):
        return Atom.LOWER(self.term) if self.lower else self.term

    def __repr__(self):
        return ('lower(' if self.lower else '(') + self.name + ')'


class SStr:
    __slots__ = ('parts',)

    def __init__(self, parts):
        self.parts = parts

    def __repr__(self):
        return 'SStr' + repr(self.parts)

    def __hash__(self):
        return id(self)

    def sym_getitem(self, ex, k):
        """Only s[a:] with the cut inside a leading literal part is modelled."""
        if isinstance(k, slice) and k.stop is None and k.step is None and isinstance(k.start, int) and k.start >= 0:
            if self.parts and isinstance(self.parts[0], str) and len(self.parts[0]) >= k.start:
                rest = self.parts[0][k.start:]
                return SStr(([rest] if rest else []) + list(self.parts[1:]))
        raise Unsupported(f'subscript {k!r} on symbolic string')

    def truth(self, ex):
        for p in self.parts:
            if isinstance(p, str) and p:
                return True
            if isinstance(p, Fmt):
                return True
        if len(self.parts) == 1 and isinstance(self.parts[0], Atom):
            raise Unsupported('truthiness of opaque string')
        return bool(self.parts)

    @staticmethod
    def norm(s):
        if isinstance(s, str):
            return [s] if s else []
        return list(s.parts)

    @staticmethod
    def eq(ex, a, b):
        pa, pb = SStr.norm(a), SStr.norm(b)
        if all(isinstance(p, str) for p in pa) and all(isinstance(p, str) for p in pb):
            return ''.join(pa) == ''.join(pb)
        # identical leading parts cancel (x + u == x + v  <=>  u == v)
        k = 0
        while k < len(pa) and k < len(pb) and _same_part(pa[k], pb[k]):
            k += 1
        if k:
            pa, pb = pa[k:], pb[k:]
            if not pa and not pb:
                return True
            if not pa or not pb:
                rest = pa or pb
                if any((isinstance(p, str) and p) or isinstance(p, Fmt) for p in rest):
                    return False        # a non-empty remainder against the empty string
        # atoms: single-part strings compared through the uninterpreted sort
        if len(pa) == 1 and isinstance(pa[0], Atom) or len(pb) == 1 and isinstance(pb[0], Atom):
            return atom_eq(pa, pb)
        # token-wise comparison when both have the same shape
        if len(pa) != len(pb):
            if all(isinstance(p, str) for p in pa) or all(isinstance(p, str) for p in pb):
                return match_against_literal(pa, pb)
            # different token structure: under A1 (formatted ints contain no separator) the
            # strings differ when the separator counts differ
            if sep_signature(pa) != sep_signature(pb):
                return False
            raise Unsupported(f'string equality of different shapes {pa} vs {pb}')
        conds = []
        for x, y in zip(pa, pb):
            if isinstance(x, str) and isinstance(y, str):
                if x != y:
                    return False
            elif isinstance(x, Fmt) and isinstance(y, Fmt):
                if x.spec != y.spec:
                    raise Unsupported('format specs differ in comparison')
                conds.append(x.value == y.value)
            elif isinstance(x, Atom) and isinstance(y, Atom):
                conds.append(mk_bool(x.z3() == y.z3()))
            else:
                if all(isinstance(p, str) for p in pa) or all(isinstance(p, str) for p in pb):
                    return match_against_literal(pa, pb)
                return _unsup(pa, pb)
        return vand(*conds)


class SBytesLike:
    pass


def _same_part(x, y):
    if isinstance(x, str) and isinstance(y, str):
        return x == y
    if isinstance(x, Atom) and isinstance(y, Atom):
        return x.name == y.name and x.lower == y.lower and x.term is y.term or (x.lower == y.lower and z3.eq(x.term, y.term))
    if isinstance(x, Fmt) and isinstance(y, Fmt):
        return x.spec == y.spec and x.value is y.value
    return False


def _unsup(pa, pb):
    raise Unsupported(f'string equality {pa} vs {pb}')


def sep_signature(parts):
    return ''.join(p for p in parts if isinstance(p, str))


def atom_eq(pa, pb):
    def term(p):
        if len(p) == 1 and isinstance(p[0], Atom):
            return p[0].z3()
        if all(isinstance(x, str) for x in p):
            s = ''.join(p)
            return str_const(s)
        return None
    ta, tb = term(pa), term(pb)
    if ta is None or tb is None:
        raise Unsupported('comparison of opaque string with structured string')
    return mk_bool(ta == tb)


_STR_CONSTS = {}


def str_const(s):
    if s not in _STR_CONSTS:
        _STR_CONSTS[s] = z3.Const('strlit!' + s, Atom.S)
    return _STR_CONSTS[s]


def str_axioms():
    """Distinctness of the literal constants used + lower() facts for literals + idempotence."""
    ax = []
    lits = list(_STR_CONSTS.items())
    if len(lits) > 1:
        ax.append(z3.Distinct(*[c for _, c in lits]))
    for s, c in lits:
        low = s.lower()
        if low not in _STR_CONSTS:
            continue
        ax.append(Atom.LOWER(c) == _STR_CONSTS[low])
    x = z3.Const('x!str', Atom.S)
    ax.append(z3.ForAll([x], Atom.LOWER(Atom.LOWER(x)) == Atom.LOWER(x)))
    return ax


def match_against_literal(pa, pb):
    """Compare a structured string with a pure literal: only decidable when the literal cannot
    match the structure at all, or the structure is one formatted decimal int."""
    lit, st = (pa, pb) if all(isinstance(p, str) for p in pa) else (pb, pa)
    s = ''.join(lit)
    if len(st) == 1 and isinstance(st[0], Fmt) and st[0].spec == '':
        try:
            n = int(s)
        except ValueError:
            return False
        if str(n) != s:
            return False
        return st[0].value == n
    if len(st) == 1 and isinstance(st[0], Fmt):
        sp = st[0].spec
        low = sp.lower()
        if low == 'x' or (low.endswith('x') and low.startswith('0') and low[1:-1].isdigit()):
            # one hex token against a literal: equal iff the literal is exactly how Python formats that value with this spec
            try:
                n = int(s, 16)
            except ValueError:
                return False
            if s.startswith(('-', '+')) or s.lower().startswith('0x') or '_' in s or s != s.strip():
                return False
            if format(n, sp) != s:
                return False            # wrong letter case, wrong width / padding
            return st[0].value == n
    # literal prefix / suffix mismatch
    if st and isinstance(st[0], str) and not s.startswith(st[0]):
        return False
    if st and isinstance(st[-1], str) and not s.endswith(st[-1]):
        return False
    raise Unsupported(f'string comparison {st} == {s!r}')


def sstr_concat(a, b):
    if isinstance(a, str) and isinstance(b, str):
        return a + b
    parts = SStr.norm(a) + SStr.norm(b)
    out = []
    for p in parts:
        if isinstance(p, str) and out and isinstance(out[-1], str):
            out[-1] = out[-1] + p
        elif isinstance(p, str) and not p:
            continue
        else:
            out.append(p)
    if all(isinstance(p, str) for p in out):
        return ''.join(out)
    return SStr(out)


def fmt_value(ex, v, spec, conv=-1):
    from .gv import GV
    from .sbytes import SBytes
    if isinstance(v, GV):
        v = ex.concretize(v)
    if isinstance(v, (SStr,)):
        if spec:
            raise Unsupported('format spec on symbolic string')
        return v
    if isinstance(v, Sym):
        if v.ty == 'int':
            return SStr([Fmt(v, spec)])
        if v.ty == 'bool':
            return SStr([Fmt(v, 'bool')])
        return SStr([Fmt(v, 'float' + spec)])
    if isinstance(v, SBytes):
        if v.concrete():
            return format(v.to_bytes(), spec)
        return SStr([Fmt(v, 'bytes-repr')])
    if v is None or isinstance(v, (int, float, str, bool, bytes)):
        if conv == ord('r'):
            return format(repr(v), spec)
        return format(v, spec)
    # objects: repr is not modelled (only used in log/exception messages)
    return SStr([Atom(f'repr!{id(v)}')])


def str_of(ex, v):
    return fmt_value(ex, v, '')


def hex_of_bytes(b):
    """bytes.hex(): one two-digit lower-case token per byte (no separators)."""
    from .sbytes import SBytes
    b = SBytes.of(b)
    if b.concrete():
        return b.to_bytes().hex()
    return SStr([Fmt(x, '02x') if isinstance(x, Sym) else f'{x:02x}' for x in b.items])
