"""datetime / timedelta values as real-valued seconds (only +, -, comparisons are modelled)."""
from __future__ import annotations
import datetime
import z3
from .values import Sym, mk_bool, real_term, Unsupported


class TimeVal:
    ALWAYS_TRUE = True        # a Python object of this kind is truthy (no __bool__ / __len__)
    def __init__(self, t, kind='datetime', origin=None):
        self.t = t          # z3 Real (seconds)
        self.kind = kind    # 'datetime' | 'timedelta'
        self.origin = origin

    def __repr__(self):
        return f'<{self.kind} {self.origin or self.t}>'

    @staticmethod
    def secs(v):
        if isinstance(v, TimeVal):
            return v.t
        if isinstance(v, datetime.timedelta):
            from .values import fval
            return fval(v.total_seconds())
        raise Unsupported(f'time arithmetic with {v!r}')

    def __add__(self, o):
        return TimeVal(self.t + TimeVal.secs(o), self.kind, self.origin)

    def __radd__(self, o):
        return TimeVal(self.t + TimeVal.secs(o), 'datetime', self.origin)

    def __sub__(self, o):
        k = 'timedelta' if isinstance(o, TimeVal) and o.kind == 'datetime' and self.kind == 'datetime' else self.kind
        return TimeVal(self.t - TimeVal.secs(o), k, self.origin)

    def sym_compare(self, ex, op, other):
        a, b = self.t, TimeVal.secs(other)
        return mk_bool({'Lt': a < b, 'LtE': a <= b, 'Gt': a > b, 'GtE': a >= b}[op])

    def sym_eq(self, ex, other):
        if isinstance(other, TimeVal):
            return self is other or mk_bool(self.t == other.t)
        return False


def now(ex, *a, **kw):
    n = ex.ghost.setdefault('now_calls', [])
    t = z3.Real(f'now!{len(n)}')
    if n:
        ex.assume(t >= n[-1])
    n.append(t)
    return TimeVal(t, 'datetime', f'now#{len(n)}')


def strptime(ex, s, fmt):
    n = ex.ghost.setdefault('strptime_calls', [])
    n.append((s, fmt))
    return TimeVal(z3.Real(f'strptime!{len(n)}'), 'datetime', f'strptime({fmt})')


def timedelta(ex, *a, **kw):
    vals = list(a) + list(kw.values())
    if all(not isinstance(v, Sym) for v in vals):
        return datetime.timedelta(*a, **kw)
    names = ['days', 'seconds', 'microseconds', 'milliseconds', 'minutes', 'hours', 'weeks']
    mult = {'days': 86400, 'seconds': 1, 'microseconds': 1e-6, 'milliseconds': 1e-3, 'minutes': 60, 'hours': 3600, 'weeks': 604800}
    args = dict(zip(names, a))
    args.update(kw)
    tot = z3.RealVal(0)
    from .values import fval
    for k, v in args.items():
        tot = tot + real_term(v) * fval(mult[k])
    return TimeVal(tot, 'timedelta')
