"""Cooperative-concurrency layer: coroutines of the repository are executed inline; awaiting a *library*
awaitable is a possible suspension point at which the harness applies the interference of other tasks (rely) and
checks what the finished segment must have established (guarantee).  Library behaviour enters through the
dependency contracts below (assumptions, conformance-tested in the thorough tier)."""
from __future__ import annotations
import z3
from .values import Sym, mk_bool, mk_int, bool_term, Unsupported, vand, vor, vnot
from .gv import GV
from .sbytes import SBytes
from .symex import (Obj, Opaque, PyRaise, make_exc, Coroutine, Builtin, BoundBuiltin, ExcClass, EnumVal, FuncVal, PathAbort, EXC_PARENTS)
from . import builtins as B


class Aw:
    """A library awaitable (result of calling a modelled asyncio API)."""
    ALWAYS_TRUE = True        # a Python object of this kind is truthy (no __bool__ / __len__)
    def __init__(self, kind, **info):
        self.kind = kind
        self.info = info

    def __repr__(self):
        return f'<awaitable {self.kind}>'


class SymEnum:
    """A value of a repository Enum with symbolic member (index into the member list)."""
    def __init__(self, enum, members, term):
        self.enum = enum
        self.members = members
        self.term = term

    def __repr__(self):
        return f'<{self.enum} ?{self.term}>'

    def code(self, v):
        if isinstance(v, SymEnum):
            return v.term
        if isinstance(v, EnumVal) and v.enum == self.enum:
            return z3.IntVal(self.members.index(v.member))
        return None

    def sym_eq(self, ex, other):
        c = self.code(other)
        if c is None:
            return False
        return mk_bool(self.term == c)

    def is_(self, member):
        return self.term == self.members.index(member)


STATE_MEMBERS = ['DISCONNECTED', 'CONNECTED', 'CLOSED']


def state_code(v):
    if isinstance(v, SymEnum):
        return v.term
    if isinstance(v, EnumVal):
        return z3.IntVal(STATE_MEMBERS.index(v.member))
    raise Unsupported(f'state value {v!r}')


class TaskObj:
    """An asyncio.Task handle created by create_task (the coroutine is NOT run by the creator)."""
    ALWAYS_TRUE = True        # a Python object of this kind is truthy (no __bool__ / __len__)
    def __init__(self, coro, world, name=''):
        self.coro = coro
        self.world = world
        self.name = name
        self.done_term = None
        self.cancel_requested = False

    def sym_method(self, ex, name):
        if name == 'done':
            def done(ex, me):
                if me.done_term is None:
                    me.done_term = z3.Bool(f'task_done!{len(me.world.events)}!{me.name}')
                return mk_bool(me.done_term)
            return BoundBuiltin('Task.done', done, self)
        if name == 'cancel':
            def cancel(ex, me):
                me.cancel_requested = True
                me.world.event('cancel', me)
                return True
            return BoundBuiltin('Task.cancel', cancel, self)
        return None


class LockObj:
    ALWAYS_TRUE = True        # a Python object of this kind is truthy (no __bool__ / __len__)
    def __init__(self, world, name='lock'):
        self.world = world
        self.name = name
        self.held_by_me = False
        self.held_by_other = z3.Bool(f'{name}_held_by_another_task')

    def sym_method(self, ex, name):
        if name == 'acquire':
            return BoundBuiltin('Lock.acquire', lambda ex, me: Aw('lock_acquire', lock=me), self)
        if name == 'release':
            def release(ex, me):
                if not me.held_by_me:
                    raise PyRaise(make_exc('RuntimeError', 'Lock is not acquired.'))
                me.held_by_me = False
                me.world.event('release', me)
            return BoundBuiltin('Lock.release', release, self)
        if name == 'locked':
            return BoundBuiltin('Lock.locked', lambda ex, me: mk_bool(z3.Or(z3.BoolVal(me.held_by_me), me.held_by_other)) if not me.held_by_me else True, self)
        return None


class QueueObj:
    ALWAYS_TRUE = True        # a Python object of this kind is truthy (no __bool__ / __len__)
    def __init__(self, world):
        self.world = world

    def sym_method(self, ex, name):
        if name == 'put':
            return BoundBuiltin('Queue.put', lambda ex, me, item: Aw('queue.put', item=item), self)
        if name == 'get':
            return BoundBuiltin('Queue.get', lambda ex, me: Aw('queue.get'), self)
        if name == 'task_done':
            return BoundBuiltin('Queue.task_done', lambda ex, me: me.world.event('task_done'), self)
        if name == 'empty':
            def empty(ex, me):
                # whether more items are queued is unknown; at most two further items are explored (bounded: the loop body is the
                # same for every item)
                me.nowait = getattr(me, 'nowait', 0)
                if me.nowait >= 2:
                    me.last_empty = True
                    return True
                b = mk_bool(z3.Bool(f'queue_empty!{len(me.world.events)}'))
                me.last_empty = b
                return b
            return BoundBuiltin('Queue.empty', empty, self)
        if name == 'get_nowait':
            def get_nowait(ex, me):
                le = getattr(me, 'last_empty', None)
                if le is None or le is True or ex.truth(le):
                    raise PyRaise(make_exc('QueueEmpty', 'queue is empty'))
                me.nowait = getattr(me, 'nowait', 0) + 1
                me.last_empty = None
                item = Opaque(f'queued-item#nowait{me.nowait}')
                me.world.event('get', item)
                return item
            return BoundBuiltin('Queue.get_nowait', get_nowait, self)
        return None


class WriterObj:
    ALWAYS_TRUE = True        # a Python object of this kind is truthy (no __bool__ / __len__)
    def __init__(self, world, name='writer'):
        self.world = world
        self.name = name

    def sym_method(self, ex, name):
        if name == 'write':
            def write(ex, me, data):
                owner = getattr(me.world, 'client_obj', None)
                me.world.event('write', me, data, owner.attrs.get('writer') if owner is not None else None)
            return BoundBuiltin('writer.write', write, self)
        if name == 'drain':
            return BoundBuiltin('writer.drain', lambda ex, me: Aw('drain', writer=me), self)
        if name == 'close':
            return BoundBuiltin('writer.close', lambda ex, me: me.world.event('writer.close', me), self)
        if name == 'get_extra_info':
            return BoundBuiltin('writer.get_extra_info', lambda ex, me, *a: None, self)
        if name == 'wait_closed':
            return BoundBuiltin('writer.wait_closed', lambda ex, me: Aw('wait_closed', writer=me), self)
        if name == 'is_closing':
            return BoundBuiltin('writer.is_closing', lambda ex, me: mk_bool(z3.Bool(f'{me.name}.is_closing!{len(me.world.events)}')), self)
        return None


class ReaderObj:
    ALWAYS_TRUE = True        # a Python object of this kind is truthy (no __bool__ / __len__)
    def __init__(self, world, name='reader'):
        self.world = world
        self.name = name

    def sym_method(self, ex, name):
        if name in ('readexactly', 'readline', 'read'):
            return BoundBuiltin(f'reader.{name}', lambda ex, me, *a, _n=name: Aw('read', how=_n, args=a, reader=me), self)
        return None


class World:
    """Ghost world of one path: the event trace and the await policy supplied by the harness."""
    def __init__(self, ex, on_await=None):
        self.ex = ex
        self.events = []
        self.on_await = on_await
        self.suspensions = 0
        ex.ghost['world'] = self

    def event(self, kind, *args):
        self.events.append((kind,) + args)

    def of(self, kind):
        return [e for e in self.events if e[0] == kind]


def world(ex):
    w = ex.ghost.get('world')
    if w is None:
        w = World(ex)
    return w


# ---- asyncio module model ------------------------------------------------------------------------------
def _create_task(ex, coro, **kw):
    w = world(ex)
    t = TaskObj(coro, w, getattr(getattr(coro, 'info', None), 'qualname', 'task'))
    w.event('spawn', t)
    return t


def _sleep(ex, t=0, *a):
    return Aw('sleep', seconds=t)


def _open_connection(ex, *a, **kw):
    return Aw('open_connection', args=a, kwargs=kw)


B.EXT_HOOKS['asyncio.create_task'] = Builtin('asyncio.create_task', _create_task)
B.EXT_HOOKS['asyncio.sleep'] = Builtin('asyncio.sleep', _sleep)


class LoopObj:
    """The running event loop: only time() (a non-decreasing clock) is modelled."""
    ALWAYS_TRUE = True

    def __init__(self, world):
        self.world = world

    def sym_method(self, ex, name):
        if name == 'time':
            def time_(ex, me):
                ts = ex.ghost.setdefault('loop_times', [])
                t = z3.Real(f'loop_time!{len(ts)}')
                if ts:
                    ex.assume(t >= ts[-1])
                ts.append(t)
                return Sym(t, 'float')
            return BoundBuiltin('loop.time', time_, self)
        return None


B.EXT_HOOKS['asyncio.get_running_loop'] = Builtin('asyncio.get_running_loop', lambda ex: LoopObj(world(ex)))
B.EXT_HOOKS['asyncio.get_event_loop'] = Builtin('asyncio.get_event_loop', lambda ex: LoopObj(world(ex)))
B.EXT_HOOKS['time.monotonic'] = Builtin('time.monotonic', lambda ex: LoopObj(world(ex)).sym_method(ex, 'time').fn(ex, None))
B.EXT_HOOKS['asyncio.open_connection'] = Builtin('asyncio.open_connection', _open_connection)
B.EXT_HOOKS['asyncio.Queue'] = Builtin('asyncio.Queue', lambda ex, *a, **k: QueueObj(world(ex)))
B.EXT_HOOKS['asyncio.Lock'] = Builtin('asyncio.Lock', lambda ex: LockObj(world(ex)))
B.EXT_HOOKS['asyncio.CancelledError'] = ExcClass('CancelledError')
B.EXT_HOOKS['asyncio.IncompleteReadError'] = ExcClass('IncompleteReadError')
B.EXT_HOOKS['asyncio.QueueEmpty'] = ExcClass('QueueEmpty')
B.EXT_HOOKS['logging.getLogger'] = Builtin('logging.getLogger', lambda ex, *a: Opaque('logger'))
B.EXT_HOOKS['serial_asyncio.open_serial_connection'] = Builtin('open_serial_connection', lambda ex, *a, **k: Aw('open_connection', args=a, kwargs=k))


def ex_await(ex, node, fr):
    """Exec hook for `await <expr>`."""
    v = ex.concretize(ex.eval(node.value, fr))
    return await_value(ex, v)


def await_value(ex, v):
    if isinstance(v, Coroutine):
        old = getattr(ex, 'in_await', False)
        ex.in_await = True
        try:
            return ex._run_body(v.info, list(v.args), dict(v.kwargs), v.bound)
        finally:
            ex.in_await = old
    if isinstance(v, Aw) and v.kind == 'lock_acquire':
        # await lock.acquire(): as on entry of `async with lock`
        cm = v.info['lock']
        w = world(ex)
        if cm.held_by_me:
            raise Unsupported('re-entrant acquire of an asyncio.Lock (deadlock)')
        if ex.branch(cm.held_by_other, tag='lock-held'):
            if w.on_await is None:
                raise Unsupported('lock wait without an await policy')
            w.on_await(ex, w, Aw('sleep', seconds='lock-wait'))
        cm.held_by_me = True
        w.event('acquire', cm)
        return True
    if isinstance(v, Aw):
        w = world(ex)
        if w.on_await is None:
            raise Unsupported(f'await of {v!r} without an await policy')
        return w.on_await(ex, w, v)
    if hasattr(v, 'sym_await'):
        return v.sym_await(ex)
    raise Unsupported(f'await of {v!r}')


def call_coroutine_function(ex, f, args, kwargs):
    """Calling an async repository function yields a coroutine object (not run)."""
    return Coroutine(f.info, list(args), dict(kwargs), f.bound)


def async_with(ex, node, fr):
    """`async with <lock>:` - acquire (may suspend while another task holds it), run the body, release."""
    if len(node.items) != 1:
        raise Unsupported('async with several items')
    cm = ex.concretize(ex.eval(node.items[0].context_expr, fr))
    if not isinstance(cm, LockObj):
        raise Unsupported(f'async with {cm!r}')
    w = world(ex)
    if cm.held_by_me:
        raise Unsupported('re-entrant acquire of an asyncio.Lock (deadlock)')
    if ex.branch(cm.held_by_other, tag='lock-held'):
        # wait until released: a suspension
        if w.on_await is None:
            raise Unsupported('lock wait without an await policy')
        w.on_await(ex, w, Aw('sleep', seconds='lock-wait'))
    cm.held_by_me = True
    w.event('acquire', cm)
    try:
        ex.exec_block(node.body, fr)
    finally:
        cm.held_by_me = False
        w.event('release', cm)


def install(ex):
    ex.hooks['await'] = ex_await
    ex.hooks['async_with'] = async_with
    ex.in_await = False
