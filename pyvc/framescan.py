"""Frame conditions on module-level state.

The symbolic executor evaluates a module-level name by its initialiser, i.e. it treats module-level objects as
constants.  That is a statement about the code, so it is checked: for every repository function a property's
tasks execute (recorded by Exec._run_body) one obligation

    <prop>/frame/<function>/reads-and-writes-no-mutable-module-state

states that the function (a) contains no `global` / `nonlocal` declaration, (b) does not assign, delete or call a
mutating method through a module-level or class-level name, and (c) reads no module-level name that some function
of the package mutates.  The scan is syntactic (names, not aliases): aliasing of module-level objects through
locals is not tracked, which is listed with the assumptions."""
from __future__ import annotations
import ast

MUTATORS = ('append', 'extend', 'update', 'add', 'remove', 'discard', 'clear', 'pop', 'popitem', 'setdefault', 'insert', 'sort', 'reverse',
            'move_to_end', 'appendleft', 'popleft', '__setitem__', '__delitem__')

_EXECUTED = {}      # fullname -> FuncInfo (per process)


def record(info):
    _EXECUTED[info.fullname] = info


def take_executed():
    out = dict(_EXECUTED)
    _EXECUTED.clear()
    return out


def _root(b):
    while isinstance(b, (ast.Attribute, ast.Subscript)):
        b = b.value
    return b


def _locals_of(node):
    params = {a.arg for a in node.args.posonlyargs + node.args.args + node.args.kwonlyargs}
    if node.args.vararg:
        params.add(node.args.vararg.arg)
    if node.args.kwarg:
        params.add(node.args.kwarg.arg)
    local = set(params)
    declared_global = set()
    for n in ast.walk(node):
        if isinstance(n, (ast.Global, ast.Nonlocal)):
            declared_global.update(n.names)
    for n in ast.walk(node):
        if isinstance(n, ast.Name) and isinstance(n.ctx, ast.Store) and n.id not in declared_global:
            local.add(n.id)
        if isinstance(n, ast.ExceptHandler) and n.name:
            local.add(n.name)
    return local, declared_global


def writes_of(fi, mod):
    """[(name, description)] module-level / class-level writes of one function."""
    node = fi.node
    module_names = set(mod.assigns) | set(mod.functions) | set(mod.classes) | set(mod.imports)
    local, declared = _locals_of(node)
    bad = []
    for g in sorted(declared):
        bad.append((g, f'global/nonlocal {g}'))
    for n in ast.walk(node):
        tg = []
        if isinstance(n, ast.Assign):
            tg = n.targets
        elif isinstance(n, (ast.AugAssign, ast.AnnAssign)):
            tg = [n.target]
        elif isinstance(n, ast.Delete):
            tg = n.targets
        for t in tg:
            if isinstance(t, (ast.Attribute, ast.Subscript)):
                b = _root(t)
                if isinstance(b, ast.Name) and b.id not in local and b.id in module_names:
                    bad.append((b.id, f'write through module-level name {b.id}'))
                elif isinstance(b, ast.Name) and b.id not in local and b.id not in ('self', 'cls'):
                    bad.append((b.id, f'write through non-local name {b.id}'))
                if isinstance(b, ast.Name) and b.id == 'cls':
                    bad.append(('cls', 'write of a class attribute'))
                if isinstance(t, ast.Attribute) and isinstance(t.value, ast.Attribute) and t.value.attr == '__class__':
                    bad.append(('__class__', 'write of a class attribute'))
        if isinstance(n, ast.Call) and isinstance(n.func, ast.Attribute) and n.func.attr in MUTATORS:
            b = _root(n.func.value)
            if isinstance(b, ast.Name) and b.id not in local and b.id in module_names:
                bad.append((b.id, f'mutating call {n.func.attr} on module-level {b.id}'))
    return bad


def mutated_names(repo):
    """{(module, name)}: module-level names some function of the loaded modules writes."""
    out = {}
    for mname, mod in repo.modules.items():
        fis = list(mod.functions.values()) + [f for c in mod.classes.values() for f in c.methods.values()]
        for fi in fis:
            for name, how in writes_of(fi, mod):
                tgt = mod.imports.get(name, (mname, name))
                out.setdefault(tuple(tgt), []).append(f'{fi.fullname}: {how}')
                out.setdefault((mname, name), []).append(f'{fi.fullname}: {how}')
    return out


def reads_of_mutated(fi, mod, mutated):
    node = fi.node
    local, declared = _locals_of(node)
    bad = []
    for n in ast.walk(node):
        if isinstance(n, ast.Name) and isinstance(n.ctx, ast.Load) and (n.id not in local or n.id in declared):
            key = tuple(mod.imports.get(n.id, (mod.name, n.id)))
            if key in mutated or (mod.name, n.id) in mutated:
                bad.append(f'reads module-level {n.id}, which is mutated by {mutated.get(key, mutated.get((mod.name, n.id)))[0]}')
    return bad


_MUT_CACHE = {}


def mutated_cached(repo):
    k = id(repo), tuple(sorted(repo.modules))
    if k not in _MUT_CACHE:
        _MUT_CACHE.clear()
        _MUT_CACHE[k] = mutated_names(repo)
    return _MUT_CACHE[k]


def frame_note(repo, fi):
    mod = repo.modules.get(fi.module) or repo.load(fi.module)
    mutated = mutated_cached(repo)
    bad = [how for _, how in writes_of(fi, mod)] + reads_of_mutated(fi, mod, mutated)
    if fi.cls is not None and 'Enum' not in fi.cls.bases:
        kinds = (ast.Dict, ast.List, ast.Set, ast.Call, ast.ListComp, ast.DictComp, ast.SetComp)
        mutable = [a for a, v in fi.cls.class_attrs.items() if isinstance(v, kinds)]
        if not fi.cls.is_dataclass:
            mutable += [a for a, v in fi.cls.fields if isinstance(v, kinds)]       # annotated class-level assignments
        if mutable:
            bad.append(f'class {fi.cls.name} has mutable class attributes {mutable}')
    return sorted(set(bad))


def frame_results(prop, repo, executed):
    """Result dicts (already decided: the obligation is a closed syntactic fact) for the executed functions."""
    out = []
    for full, fi in sorted(executed.items()):
        bad = frame_note(repo, fi)
        out.append({'obligation': f'{prop}/frame/{full}/reads-and-writes-no-mutable-module-state', 'kind': 'frame', 'function': full,
                    'status': 'refuted' if bad else 'discharged', 'backend': 'syntactic-frame-scan', 'seconds': 0.0, 'model': {},
                    'reason': '; '.join(bad)[:400]})
    return out
