"""Thorough tier: the native batteries of a property are run unconditionally (in the quick tier they only serve to
attach a failing input to a refuted obligation).  Every battery executes the REAL code of the working tree on a
bounded set of inputs / histories / schedules and compares with a reference computed from the property statement or
from canboat.json.  Results are labelled bounded and are never counted as proof; a failure is a violation with a
replayed failing input (it also means a discharged contract and the real code disagree - an engine or contract
soundness problem worth knowing about)."""
from __future__ import annotations
import os
import random
import time
from .report import Task


def _seed():
    return int(os.environ.get('VERIF_SEED', '0') or 0)


def _res(prop, name, t0, failure, how, size):
    ob = f'{prop}/battery/{name}'
    if failure:
        return {'obligation': ob, 'kind': 'bounded', 'status': 'refuted', 'backend': 'native-battery', 'seconds': round(time.time() - t0, 3), 'model': {},
                'reason': str(failure)[:300], 'replay': {'confirmed': True, 'inputs': failure, 'how': how}}
    return {'obligation': ob, 'kind': 'bounded', 'status': 'discharged', 'backend': 'native-battery (bounded, not a proof)', 'seconds': round(time.time() - t0, 3),
            'note': f'{size}'}


# ---------------------------------------------------------------------------------------------------------------
def decode_sweep(lo, hi):
    """C01: sample payloads of every selectable definition through the real decode function vs the specification."""
    from props.C01 import db, replay_decoder
    from spec.canboat import sample_payload
    d = db()
    rnd = random.Random(_seed() + 1)
    n = 0
    for defn in [x for x in d.defs if d.selectable(x)][lo:hi]:
        base = int.from_bytes(sample_payload(defn, 0), 'little')
        nbits = 8 * len(sample_payload(defn, 0))
        mm = 0
        for f in defn.match_fields:
            mm |= ((1 << f.L) - 1) << f.offset_bits
        mv = base & mm
        # bits that may be randomised: fixed-position fields that are neither match fields nor the length field of a
        # variable BINARY field; the variable tail (length-prefixed text / binary) keeps its well-formed sample content
        free = 0
        variable = False
        lens = {f.length_field for f in defn.fields if f.length_field}
        for f in defn.fields:
            if f.L is None or f.offset_bits is None or f.variable:
                variable = True
                break
            if f.match is None and f.order not in lens:
                free |= ((1 << f.L) - 1) << f.offset_bits
        cands = [int.from_bytes(sample_payload(defn, v), 'little') for v in range(6)]
        if not variable:
            cands += [mv, ((1 << nbits) - 1) & ~mm | mv]
        cands += [(base & ~free) | (rnd.getrandbits(nbits) & free) for _ in range(12)]
        for p in cands:
            n += 1
            rp = replay_decoder(defn, p, 'battery')
            if rp.get('confirmed'):
                return {'definition': f'{defn.pgn}:{defn.id}', 'payload': hex(p), 'observed': str(rp.get('observed'))[:300], 'expected': str(rp.get('expected'))[:200]}, n
    return None, n


def roundtrip_sweep(lo, hi):
    """C02: decode -> encode on sample payloads of every encodable definition (fields inside their ranges)."""
    from props.C02 import encodable_defs, replay_roundtrip
    from spec.canboat import sample_payload
    n = 0
    for defn in encodable_defs()[lo:hi]:
        for v in range(8):
            p = int.from_bytes(sample_payload(defn, v), 'little')
            n += 1
            rp = replay_roundtrip(defn, p)
            if rp.get('confirmed'):
                return {'definition': f'{defn.pgn}:{defn.id}', 'payload': hex(p), 'observed': str(rp.get('observed'))[:300]}, n
    return None, n


def fast_packet_sweep():
    """C03: every payload length through the real encoder (all counters) and encoder -> decoder incl. counter wrap."""
    from props.C03_fallback import encode_fallback
    from props.C03_extra import replay_roundtrip
    n = 0
    for ln in range(0, 224):
        r = encode_fallback(ln)
        n += 8
        if r:
            return r[0]['replay'].get('inputs') or r[0]['replay'], n
        if ln % 3 == 0 or ln < 30:
            for pad in (False, True):
                rp = replay_roundtrip(ln, pad, {'seq': ln % 8})
                n += 18
                if rp.get('confirmed'):
                    return rp, n
    return None, n


def reassembly_histories():
    from props import C04_scenarios as S
    f = S.first_failure(None)
    n = len(S.histories())
    if f is None:
        # more random histories with other seeds
        for seed in range(1, 25):
            for name, h in S.histories(seed=_seed() * 100 + seed):
                if not name.startswith('random'):
                    continue
                n += 1
                obs, exp = S.run_history(h)
                bad = [i for i, (o, e) in enumerate(zip(obs, exp)) if o != e and not (isinstance(o, tuple) and o and o[0] == 'raise' and e is None)]
                if bad:
                    i = bad[0]
                    return {'history': name, 'seed': seed, 'frames': [(s, d, fr.hex()) for s, d, fr in h], 'step': i, 'observed': repr(obs[i])[:300], 'expected': repr(exp[i])[:300]}, n
    return f, n


def header_sweep():
    """C05: identifiers parse and rebuild; headers build and parse (2 x 400 000 samples + structured corners)."""
    from .tasks import resolve_real
    build = resolve_real('encoder.NMEA2000Encoder._build_header')
    extract = resolve_real('decoder.NMEA2000Decoder._extract_header')
    rnd = random.Random(_seed() + 5)
    n = 0
    ids = [0, (1 << 29) - 1] + [1 << k for k in range(29)] + [((1 << 29) - 1) ^ (1 << k) for k in range(29)] + [rnd.getrandbits(29) for _ in range(400000)]
    for cid in ids:
        n += 1
        p, s, d, pr = extract(cid)
        if build(p, s, d, pr) != cid or not (0 <= pr <= 7 and 0 <= s <= 255 and 0 <= d <= 255 and 0 <= p < (1 << 18)):
            return {'can_id': cid, 'parsed': [p, s, d, pr], 'rebuilt': build(p, s, d, pr)}, n
    for _ in range(400000):
        pf = rnd.getrandbits(8)
        pgn = (rnd.getrandbits(2) << 16) | (pf << 8) | (rnd.getrandbits(8) if pf >= 240 else 0)
        s, d, pr = rnd.getrandbits(8), rnd.getrandbits(8), rnd.getrandbits(3)
        n += 1
        got = tuple(extract(build(pgn, s, d, pr)))
        if got != (pgn, s, d if pf < 240 else 255, pr):
            return {'pgn': pgn, 'src': s, 'dst': d, 'prio': pr, 'parsed_back': list(got)}, n
    return None, n


def _sample_message(P, rnd, kind):
    if kind == 0:
        return P.decode_pgn_127250(rnd.getrandbits(8) | (rnd.randrange(0, 62000) << 8) | (0x7FFF << 24) | (0x7FFF << 40) | (rnd.getrandbits(2) << 56) | (0x3F << 58))
    if kind == 1:
        return P.decode_pgn_59904(rnd.choice([60928, 126996, 126998, 127250]))
    if kind == 2:
        from spec.canboat import sample_payload
        from props.C01 import db
        d = [x for x in db().defs if x.pgn == 129029][0]
        return P.decode_pgn_129029(int.from_bytes(sample_payload(d, rnd.randrange(50)), 'little'))
    return P.decode_pgn_127251(rnd.getrandbits(8) | (rnd.randrange(0, 1 << 20) << 8) | (0xFFFFFF << 40))


def wire_sweep():
    """C06/C07: real encoder -> real decoder of the same format, and the same frame through every input format."""
    import nmea2000.pgns as P
    from nmea2000.encoder import NMEA2000Encoder
    from nmea2000.decoder import NMEA2000Decoder
    from nmea2000.utils import calculate_canbus_checksum
    rnd = random.Random(_seed() + 6)
    n = 0

    def sig(m):
        return None if m is None else (m.PGN, m.id, m.source, m.destination, m.priority, tuple((f.id, f.value, f.raw_value) for f in m.fields))
    for k in range(400):
        kind = k % 4
        try:
            m = _sample_message(P, rnd, kind)
        except Exception:  # noqa
            continue
        if m is None:
            continue
        try:
            NMEA2000Encoder()._call_encode_function(m)
        except Exception:  # noqa  (sample outside the encodable range: not part of the quantifier)
            continue
        pdu1 = ((m.PGN >> 8) & 0xFF) < 240
        m.source, m.destination, m.priority = rnd.getrandbits(8), (rnd.getrandbits(8) if pdu1 else 255), rnd.getrandbits(3)
        want = sig(m)
        enc = NMEA2000Encoder()
        enc.sequence_counter = rnd.getrandbits(3)
        outs = {}
        for fmt, ef, df, pre in (('ebyte', 'encode_ebyte', 'decode_tcp', None), ('usb', 'encode_usb', 'decode_usb', None),
                                 ('yd', 'encode_yacht_devices', 'decode_yacht_devices_string', '00:00:00.000 R '), ('actisense', 'encode_actisense', 'decode_actisense_string', 'A000000.000 ')):
            n += 1
            dec = NMEA2000Decoder()
            pk = getattr(enc, ef)(m)
            pks = pk if isinstance(pk, list) else [pk]
            res = None
            for q in pks:
                if fmt == 'ebyte' and len(q) != 13:
                    return {'format': fmt, 'packet': bytes(q).hex(), 'observed': f'{len(q)} bytes', 'expected': '13 bytes'}, n
                if fmt == 'usb' and (len(q) != 20 or q[19] != sum(q[2:19]) & 0xFF or calculate_canbus_checksum(q) != q[19]):
                    return {'format': fmt, 'packet': bytes(q).hex(), 'observed': 'length / checksum', 'expected': '20 bytes, checksum = sum of bytes 2..18 mod 256'}, n
                if fmt == 'yd' and not (isinstance(q, (bytes, bytearray)) and bytes(q).endswith(b'\r\n') and bytes(q).count(b'\n') == 1):
                    return {'format': fmt, 'packet': repr(q), 'observed': 'not one CR/LF-terminated line'}, n
                arg = q if pre is None else (pre + (bytes(q).decode() if isinstance(q, (bytes, bytearray)) else q).strip())
                r = getattr(dec, df)(arg)
                if r is not None:
                    if res is not None:
                        return {'format': fmt, 'observed': 'two messages delivered for one encoded message'}, n
                    res = r
            outs[fmt] = sig(res)
            if outs[fmt] != want:
                return {'format': fmt, 'message': str(want)[:200], 'observed': str(outs[fmt])[:300], 'expected': 'the encoded message back'}, n
    return None, n


def dispatch_battery():
    from contracts.decoder_scenarios import check_dispatch
    return check_dispatch(), 1


def decoder_batteries(prop):
    from contracts import decoder_scenarios as D
    n = 0
    for fn in D.BATTERY.get(prop, []):
        n += 1
        f = fn()
        if f is not None:
            return dict(f, battery=fn.__name__), n
    return None, n


def ioclient_batteries(prop):
    from contracts import ioclient_scenarios as I
    n = 0
    fns = []
    for v in I.BATTERY.get(prop, {}).values():
        for fn in v:
            if fn not in fns:
                fns.append(fn)
    for fn in fns:
        n += 1
        f = I.memo(fn)
        if f is not None:
            return dict(f, battery=fn.__name__), n
    return None, n


def hash_battery():
    from props.C17 import grid_hash, replay_hash
    g = grid_hash()
    if g is not None:
        return g, 1
    r = replay_hash()
    return (r.get('inputs') if r.get('confirmed') else None), 2


def units_battery():
    from props.C18 import history_units, replay_converter, CONV
    h = history_units()
    if h.get('confirmed'):
        return h['inputs'], 1
    rnd = random.Random(_seed() + 18)
    n = 1
    for fn in CONV:
        for _ in range(4000):
            x = rnd.choice([rnd.uniform(0, 400), rnd.uniform(-1e6, 1e6), rnd.uniform(-10, 10), float(rnd.randrange(0, 100000)) / 100, rnd.uniform(0, 1e9)])
            n += 1
            rp = replay_converter(fn, x)
            if rp.get('confirmed'):
                return {'function': fn, 'x': x, 'observed': rp.get('observed'), 'expected': rp.get('expected')}, n
    return None, n


def json_battery():
    from props.C15_json import replay_json
    rp = replay_json({})
    return (rp if rp.get('confirmed') else None), 1


def encoder_battery():
    from contracts.encoder_scenarios import check_encoder_selection
    return check_encoder_selection(), 1


def _chunked(fn, total, step):
    return [(f'{fn.__name__}[{lo}..{min(lo + step, total) - 1}]', (lambda lo=lo: fn(lo, lo + step))) for lo in range(0, total, step)]


def batteries_for(prop):
    """[(name, callable -> (failure | None, size), how)]"""
    H = 'real code of the working tree, native execution'
    if prop == 'C01':
        from props.C01 import db
        total = len([x for x in db().defs if db().selectable(x)])
        return [(n, f, H) for n, f in _chunked(decode_sweep, total, 40)]
    if prop == 'C02':
        from props.C02 import encodable_defs
        return [(n, f, H) for n, f in _chunked(roundtrip_sweep, len(encodable_defs()), 60)] + [('encoder-selection', encoder_battery, H)]
    if prop == 'C09':
        return [('encoder-selection', encoder_battery, H)]
    if prop == 'C03':
        return [('fast-packet-sweep', fast_packet_sweep, H), ('reassembly-histories', reassembly_histories, H)]
    if prop == 'C04':
        return [('reassembly-histories', reassembly_histories, H)]
    if prop == 'C05':
        return [('header-sweep', header_sweep, H)]
    if prop == 'C06':
        return [('wire-sweep', wire_sweep, H), ('header-sweep', header_sweep, H), ('clients', lambda: ioclient_batteries('C06'), H)]
    if prop == 'C07':
        return [('wire-sweep', wire_sweep, H), ('reassembly-histories', reassembly_histories, H), ('decoder-histories', lambda: decoder_batteries(prop), H)]
    if prop == 'C08':
        return [('dispatch', dispatch_battery, H)]
    if prop in ('C10', 'C11', 'C16'):
        return [('decoder-histories', lambda: decoder_batteries(prop), H)] + ([('reassembly-histories', reassembly_histories, H)] if prop == 'C16' else [])
    if prop == 'C15':
        return [('decoder-histories', lambda: decoder_batteries(prop), H), ('json', json_battery, H)]
    if prop in ('C12', 'C13', 'C14', 'C19', 'C20'):
        return [('clients', lambda: ioclient_batteries(prop), H)]
    if prop == 'C17':
        return [('hash-grid', hash_battery, H), ('decoder-histories', lambda: decoder_batteries(prop), H)]
    if prop == 'C18':
        return [('units', units_battery, H)]
    return []


class BatteryTask(Task):
    frame_prop = False

    def __init__(self, prop, name, fn, how):
        self.prop, self.bname, self.fn, self.how = prop, name, fn, how
        self.name = f'{prop}:battery[{name}]'

    def run(self, tier):
        t0 = time.time()
        out = {'results': [], 'functions': [], 'notes': [], 'bounded': []}
        try:
            failure, size = self.fn()
        except Exception:  # noqa
            import traceback
            out['results'].append({'obligation': f'{self.prop}/battery/{self.bname}', 'kind': 'bounded', 'status': 'unknown', 'backend': 'native-battery', 'seconds': 0.0,
                                   'reason': 'battery harness error: ' + traceback.format_exc()[-500:]})
            return out
        out['results'].append(_res(self.prop, self.bname, t0, failure, self.how, size))
        out['bounded'].append({'kind': f'native battery {self.bname}', 'cases': size, 'label': 'bounded', 'seconds': round(time.time() - t0, 2)})
        return out


def add_batteries(run):
    for name, fn, how in batteries_for(run.prop):
        run.add(BatteryTask(run.prop, name, fn, how))
