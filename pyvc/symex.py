"""Symbolic executor over the Python AST of the real repository functions.

Path exploration is by decision replay: a path is one ordinary run of the
interpreter under a list of branch decisions; when a symbolic condition is met
beyond the recorded decisions both outcomes are checked for feasibility and the
untaken one is queued.  State is therefore ordinary mutable Python state that is
rebuilt for every path by the harness.
"""
from __future__ import annotations
import ast
import operator
import z3
from . import values as V
from .values import Sym, Unsupported, mk_bool, mk_int, bool_term, truth_term, int_term, vand, vor, vnot, ite, veq
from .gv import GV
from .sbytes import SBytes, byte_of, from_bytes, to_bytes
from .sstr import SStr, Fmt, fmt_value, str_of, hex_of_bytes, sstr_concat

_LITERAL_CACHE = {}
MAX_PATHS = 4000
MAX_LOOP = 600


# ----------------------------------------------------------------------------
# control-flow signals and runtime objects
# ----------------------------------------------------------------------------
from .framescan import record as _frame_record

ASSUME_SITES = {}

class PyRaise(Exception):
    def __init__(self, exc):
        self.exc = exc


class PathAbort(Exception):
    """The current path is infeasible (or was cut); not an outcome."""


class _Return(Exception):
    def __init__(self, v):
        self.v = v


class _Break(Exception):
    pass


class _Continue(Exception):
    pass


EXC_PARENTS = {
    'BaseException': None, 'Exception': 'BaseException', 'CancelledError': 'BaseException',
    'ValueError': 'Exception', 'TypeError': 'Exception', 'IndexError': 'LookupError', 'KeyError': 'LookupError',
    'LookupError': 'Exception', 'AssertionError': 'Exception', 'ZeroDivisionError': 'ArithmeticError',
    'OverflowError': 'ArithmeticError', 'ArithmeticError': 'Exception', 'AttributeError': 'Exception',
    'NotImplementedError': 'RuntimeError', 'RuntimeError': 'Exception', 'OSError': 'Exception',
    'ConnectionError': 'OSError', 'ConnectionResetError': 'ConnectionError', 'IncompleteReadError': 'EOFError',
    'EOFError': 'Exception', 'StopIteration': 'Exception', 'UnicodeDecodeError': 'ValueError',
    'struct.error': 'Exception', 'TimeoutError': 'OSError', 'StopAsyncIteration': 'Exception', 'QueueEmpty': 'Exception',
}


def exc_isinstance(name, parent):
    while name is not None:
        if name == parent:
            return True
        name = EXC_PARENTS.get(name, 'Exception' if name not in EXC_PARENTS else None)
    return False


class Obj:
    """Instance of a repository class or of a modelled exception class."""
    def __init__(self, cls, attrs=None, clsname=None):
        self.cls = cls                       # ClassInfo or None
        self.clsname = clsname or (cls.name if cls is not None else 'object')
        self.attrs = attrs if attrs is not None else {}

    def __repr__(self):
        return f'<{self.clsname} {list(self.attrs)[:6]}>'


def make_exc(name, *args):
    return Obj(None, {'args': tuple(args)}, clsname=name)


class ExcClass:
    ALWAYS_TRUE = True        # a Python object of this kind is truthy (no __bool__ / __len__)
    def __init__(self, name):
        self.name = name

    def __repr__(self):
        return f'<exc class {self.name}>'


class FuncVal:
    def __init__(self, info, bound=None):
        self.info = info
        self.bound = bound

    def __repr__(self):
        return f'<fn {self.info.fullname}>'


class ClassVal:
    def __init__(self, info):
        self.info = info

    def __repr__(self):
        return f'<class {self.info.name}>'


class Builtin:
    def __init__(self, name, fn):
        self.name = name
        self.fn = fn

    def __repr__(self):
        return f'<builtin {self.name}>'


class BoundBuiltin:
    def __init__(self, name, fn, recv):
        self.name = name
        self.fn = fn
        self.recv = recv


class Opaque:
    """A value the model does not look into (logger, external module, ...)."""
    def __init__(self, name):
        self.name = name

    def __repr__(self):
        return f'<opaque {self.name}>'


class EnumVal:
    """Member of a repository Enum class (State.CLOSED, FieldTypes.NUMBER, ...)."""
    _cache = {}

    def __new__(cls, enum, member):
        k = (enum, member)
        if k not in cls._cache:
            o = object.__new__(cls)
            o.enum = enum
            o.member = member
            cls._cache[k] = o
        return cls._cache[k]

    def __repr__(self):
        return f'{self.enum}.{self.member}'


class Frame:
    def __init__(self, module, func=None):
        self.module = module
        self.func = func
        self.locals = {}


class PathResult:
    def __init__(self, pc, kind, value, decisions, ex):
        self.pc = pc
        self.kind = kind      # 'return' | 'raise'
        self.value = value
        self.decisions = decisions
        self.ex = ex          # the Exec (for ghost state / obligations gathered on the path)

    def exc_name(self):
        return self.value.clsname if self.kind == 'raise' else None


# ----------------------------------------------------------------------------
# the executor
# ----------------------------------------------------------------------------
class Exec:
    def __init__(self, repo, decisions=None, assumptions=(), contracts=None, inline=(), hooks=None, branch_timeout_ms=2000):
        self.repo = repo
        self.decisions = list(decisions or [])
        self.cursor = 0
        self.pending = []
        self.assumptions = list(assumptions)
        self.pc = []
        self.contracts = contracts or {}
        self.inline = set(inline)
        self.hooks = hooks or {}
        self.solver = z3.Solver()
        self.solver.set('timeout', branch_timeout_ms)
        for a in self.assumptions:
            self.solver.add(a)
        self.obligations = []     # (name, z3 Bool that must hold given pc at that point, pc snapshot)
        self.ghost = {}
        self.dropped = set()
        self.fresh_n = 0
        self.depth = 0
        self.notes = []
        self.negraise_ids = set()
        self.merge = False      # state-merging mode (generated straight-line code): no forks on if / ifexp / and / or / assert
        self.guards = []        # conditions of the merged branches currently being executed

    # ---- path management -----------------------------------------------------
    def branch(self, cond, tag=None):
        """Decide a z3 Bool on this path; returns a Python bool."""
        cond = z3.simplify(cond)
        if z3.is_true(cond):
            return True
        if z3.is_false(cond):
            return False
        if getattr(self, 'deadline', None) is not None:
            import time as _t
            if _t.process_time() > self.deadline:
                raise Unsupported('exploration budget exceeded (path explosion)')
        if self.cursor < len(self.decisions):
            d = self.decisions[self.cursor]
        else:
            st = self._feasible(cond)
            sf = self._feasible(z3.Not(cond))
            if st and sf:
                self.pending.append(self.decisions[:self.cursor] + [False])
                d = True
            elif st:
                d = True
            elif sf:
                d = False
            else:
                raise PathAbort()
            self.decisions.append(d)
        self.cursor += 1
        c = cond if d else z3.Not(cond)
        self.pc.append(c)
        self.solver.add(c)
        return d

    def _feasible(self, c):
        self.solver.push()
        self.solver.add(c)
        r = self.solver.check()
        self.solver.pop()
        return r != z3.unsat

    def assume(self, c, tag=None):
        # mechanical record of every assumption site outside the executor itself (harness preconditions, dependency contracts,
        # representation invariants): reported in the evidence so that nothing assumed goes unlisted
        import sys as _sys
        fr_ = _sys._getframe(1)
        fn_ = fr_.f_code.co_filename
        if '/pyvc/symex.py' not in fn_ and '/pyvc/values.py' not in fn_:
            k_ = f"{fn_.split('/verif/')[-1]}:{fr_.f_code.co_name}"
            ASSUME_SITES[k_] = ASSUME_SITES.get(k_, 0) + 1
        if isinstance(c, Sym):
            c = bool_term(c)
        elif isinstance(c, bool):
            if not c:
                raise PathAbort()
            return
        self.pc.append(c)
        if tag == 'negraise':
            self.negraise_ids.add(c.get_id())
        self.solver.add(c)

    def pc_core(self):
        """Path condition without the 'no collected exception happened' assumptions."""
        return [c for c in self.pc if c.get_id() not in self.negraise_ids]

    def choose(self, n, tag=None):
        """Non-deterministic choice among n alternatives (forks)."""
        for i in range(n - 1):
            b = z3.Bool(f'choice!{tag}!{self.fresh_n}')
            self.fresh_n += 1
            if self.branch(b):
                return i
        return n - 1

    def fresh(self, prefix, ty='int', **kw):
        self.fresh_n += 1
        name = f'{prefix}!{self.fresh_n}'
        if ty == 'int':
            s, cs = V.fresh_int(name, **kw)
            for c in cs:
                self.assume(c)
            return s
        if ty == 'bool':
            return Sym(z3.Bool(name), 'bool')
        if ty == 'float':
            return Sym(z3.Real(name), 'float')
        raise Unsupported(ty)

    def oblige(self, name, cond):
        """Record a proof obligation: `cond` must follow from the path condition here."""
        if isinstance(cond, Sym):
            cond = bool_term(cond)
        elif isinstance(cond, bool):
            cond = z3.BoolVal(cond)
        self.obligations.append((name, cond, list(self.pc)))

    def guard_conj(self):
        return z3.And(*self.guards) if self.guards else z3.BoolVal(True)

    def collect_raise(self, exc, g, label=''):
        """Record (instead of forking on) an exceptional outcome under condition g; continue on the complement."""
        g = z3.BoolVal(True) if g is True else (bool_term(g) if isinstance(g, Sym) else g)
        full = z3.simplify(z3.And(self.guard_conj(), g))
        if z3.is_false(full):
            return
        self.ghost.setdefault('raises', []).append((label, exc, full))
        self.assume(z3.Not(full), tag='negraise')

    def sym_cond(self, test, fr):
        """Evaluate a condition without forking (merge mode): Python bool or Sym bool."""
        v = self.eval(test, fr)
        if isinstance(v, GV):
            gs = [g for g, x in v.alts if self._static_truth(x)]
            return mk_bool(z3.Or(*gs)) if gs else False
        if isinstance(v, Sym):
            return mk_bool(truth_term(v))
        return self.truth(v)

    def _static_truth(self, x):
        if isinstance(x, Sym):
            raise Unsupported('truthiness of symbolic alternative in merge mode')
        return bool(x) if not isinstance(x, (Obj,)) else True

    def concretize(self, v):
        """Fork over the alternatives of a guarded union."""
        while isinstance(v, GV):
            alts = v.alts
            if self.merge and self.guards:
                # inside a merged branch: keep only the alternatives compatible with the branch condition
                gc = self.guard_conj()
                feas = [(g, val) for g, val in alts if self._feasible(z3.And(gc, g))]
                if len(feas) == 1:
                    v = feas[0][1]
                    continue
                if feas and len(feas) < len(alts):
                    alts = feas
            chosen = None
            for g, val in alts[:-1]:
                if self.branch(g):
                    chosen = (val,)
                    break
            if chosen is None:
                g, val = alts[-1]
                self.assume(g)
                chosen = (val,)
            v = chosen[0]
        return v

    def truth(self, v):
        v = self.concretize(v)
        if isinstance(v, Sym):
            return self.branch(truth_term(v))
        if isinstance(v, (SBytes, SStr)):
            return v.truth(self) if isinstance(v, SStr) else len(v) > 0
        if hasattr(v, 'truth') and not isinstance(v, (Obj,)):
            return v.truth(self)
        if isinstance(v, (Obj, FuncVal, ClassVal, Builtin, Opaque, EnumVal, BoundBuiltin)):
            if isinstance(v, Obj) and 'truth' in self.hooks:
                r = self.hooks['truth'](self, v)
                if r is not None:
                    return r
            if isinstance(v, Obj) and v.cls is not None and (self.repo.find_method(v.cls, '__bool__') or self.repo.find_method(v.cls, '__len__')):
                raise Unsupported(f'truthiness of an instance of {v.clsname} (defines __bool__ / __len__)')
            return True
        if getattr(type(v), 'ALWAYS_TRUE', False):
            return True
        if hasattr(v, 'sym_len'):
            # a container of unknown size (abstract collection, symbolic map, buffer): true iff non-empty
            n = v.sym_len(self)
            return self.truth(n > 0) if isinstance(n, Sym) else n > 0
        if v is None or isinstance(v, (bool, int, float, str, bytes, bytearray, list, tuple, dict, set, frozenset, range)):
            return bool(v)
        import datetime as _dt
        if isinstance(v, (_dt.date, _dt.time, _dt.datetime, _dt.timedelta)):
            return bool(v)
        # anything else is a value of the checker's own making: its Python truth value means nothing
        raise Unsupported(f'truthiness of {type(v).__name__} {v!r}')

    # ---- running ---------------------------------------------------------------
    def call_function(self, info, args, kwargs=None, bound=None):
        kwargs = kwargs or {}
        if info.is_async:
            return Coroutine(info, args, kwargs, bound)      # calling an async function only creates the coroutine; `await` runs it
        return self._run_body(info, args, kwargs, bound)

    def _run_body(self, info, args, kwargs, bound):
        if not getattr(info, 'is_nested', False):
            _frame_record(info)
        node = info.node
        for d in getattr(node, 'decorator_list', []):
            dn = d.id if isinstance(d, ast.Name) else (d.attr if isinstance(d, ast.Attribute) else None)
            if dn not in ('staticmethod', 'classmethod', 'property', 'abstractmethod', 'override', 'final'):
                # a decorator replaces the function by something else (a cache, a wrapper): its body is not what a call runs
                raise Unsupported(f'function {info.qualname} is wrapped by the decorator {ast.unparse(d)}')
        fr = Frame(info.module, info)
        a = node.args
        params = [p.arg for p in a.posonlyargs + a.args]
        vals = list(args)
        if bound is not None:
            vals = [bound] + vals
        if len(vals) > len(params) and not a.vararg:
            raise PyRaise(make_exc('TypeError', f'too many arguments for {info.qualname}'))
        env = getattr(info, 'closure_env', None)
        if env:
            fr.locals.update(env)
        for p, v in zip(params, vals):
            fr.locals[p] = v
        ndef = len(a.defaults)
        for i, p in enumerate(params):
            if p in fr.locals:
                continue
            if p in kwargs:
                fr.locals[p] = kwargs.pop(p)
                continue
            di = i - (len(params) - ndef)
            if di >= 0:
                fr.locals[p] = self.default_value(info, p, a.defaults[di], fr)
            else:
                raise PyRaise(make_exc('TypeError', f'missing argument {p} for {info.qualname}'))
        for p, d in zip(a.kwonlyargs, a.kw_defaults):
            if p.arg in kwargs:
                fr.locals[p.arg] = kwargs.pop(p.arg)
            elif d is not None:
                fr.locals[p.arg] = self.default_value(info, p.arg, d, fr)
        if kwargs:
            raise PyRaise(make_exc('TypeError', f'unexpected keyword {list(kwargs)} for {info.qualname}'))
        self.depth += 1
        if self.depth > 60:
            raise Unsupported('call depth')
        try:
            self.exec_block(node.body, fr)
        except _Return as r:
            return r.v
        finally:
            self.depth -= 1
        return None

    def default_value(self, info, pname, node, fr):
        # mutable defaults are shared objects in CPython: keep one per function+param on this path
        key = ('default', info.fullname, pname)
        if key not in self.ghost:
            self.ghost[key] = self.eval(node, Frame(info.module))
        return self.ghost[key]

    def exec_block(self, stmts, fr):
        for s in stmts:
            self.exec_stmt(s, fr)

    # ---- statements -----------------------------------------------------------
    def exec_stmt(self, s, fr):
        m = getattr(self, 'st_' + type(s).__name__, None)
        if m is None:
            raise Unsupported(f'statement {type(s).__name__} at {fr.module}:{s.lineno}')
        return m(s, fr)

    def st_Expr(self, s, fr):
        if isinstance(s.value, ast.Constant):
            return
        if self.is_logger_call(s.value):
            self.eval_logger_args(s.value, fr)
            return
        self.eval(s.value, fr)

    def st_Pass(self, s, fr):
        pass

    def st_Import(self, s, fr):
        pass            # function-level imports: names are resolved through the module tables / external hooks

    def st_ImportFrom(self, s, fr):
        pass

    def st_Match(self, s, fr):
        """match on value patterns (constants, dotted names such as Enum members), `|` alternatives, capture / wildcard, with
        optional guards - the subset that is an if/elif chain in disguise."""
        subject = self.eval(s.subject, fr)

        def matches(pat):
            if isinstance(pat, ast.MatchValue):
                return self.truth(self.compare(ast.Eq(), subject, self.eval(pat.value, fr)))
            if isinstance(pat, ast.MatchSingleton):
                v = self.concretize(subject)
                if isinstance(v, Sym):
                    if v.ty != 'bool' or pat.value is None:
                        return False
                    t = self.truth(v)
                    return t if pat.value is True else not t
                return v is pat.value
            if isinstance(pat, ast.MatchOr):
                return any(matches(q) for q in pat.patterns)
            if isinstance(pat, ast.MatchAs):
                if pat.pattern is not None and not matches(pat.pattern):
                    return False
                if pat.name is not None:
                    fr.locals[pat.name] = subject
                return True
            raise Unsupported(f'match pattern {type(pat).__name__}')
        for case in s.cases:
            if matches(case.pattern) and (case.guard is None or self.truth(self.eval(case.guard, fr))):
                self.exec_block(case.body, fr)
                return

    def st_Assign(self, s, fr):
        v = self.eval(s.value, fr)
        for t in s.targets:
            self.assign(t, v, fr)

    def st_AnnAssign(self, s, fr):
        if s.value is not None:
            self.assign(s.target, self.eval(s.value, fr), fr)

    def st_AugAssign(self, s, fr):
        cur = self.eval(ast_load(s.target), fr)
        rhs = self.eval(s.value, fr)
        if isinstance(s.op, ast.Add) and isinstance(cur, list):
            cur.extend(rhs)
            return
        self.assign(s.target, self.binop(s.op, cur, rhs), fr)

    def st_Return(self, s, fr):
        raise _Return(self.eval(s.value, fr) if s.value is not None else None)

    def st_If(self, s, fr):
        if self.merge:
            c = self.sym_cond(s.test, fr)
            if isinstance(c, Sym):
                return self.merged_if(c, s, fr)
            if c:
                self.exec_block(s.body, fr)
            else:
                self.exec_block(s.orelse, fr)
            return
        if self.truth(self.eval(s.test, fr)):
            self.exec_block(s.body, fr)
        else:
            self.exec_block(s.orelse, fr)

    def merged_if(self, c, s, fr):
        ct = bool_term(c)
        base = dict(fr.locals)
        outs = []
        for cond, block in ((ct, s.body), (z3.Not(ct), s.orelse)):
            fr.locals = dict(base)
            self.guards.append(cond)
            dead = False
            try:
                self.exec_block(block, fr)
            except PyRaise as pr:
                self.guards.pop()
                self.collect_raise(pr.exc.clsname, cond, 'raise-in-branch')
                dead = True
            else:
                self.guards.pop()
            outs.append((cond, None if dead else fr.locals))
        (ca, la), (cb, lb) = outs
        if la is None and lb is None:
            raise PathAbort()
        if la is None:
            fr.locals = lb
            return
        if lb is None:
            fr.locals = la
            return
        merged = {}
        for k in set(la) | set(lb):
            if k in la and k in lb:
                a, b = la[k], lb[k]
                merged[k] = a if a is b else ite(Sym(ca, 'bool'), a, b)
            else:
                merged[k] = la.get(k, lb.get(k))
        fr.locals = merged

    def st_While(self, s, fr):
        n = 0
        while True:
            if 'while' in self.hooks:
                r = self.hooks['while'](self, s, fr, n)
                if r == 'stop':
                    return
            if not self.truth(self.eval(s.test, fr)):
                self.exec_block(s.orelse, fr)
                return
            n += 1
            if n > MAX_LOOP:
                raise Unsupported(f'loop bound exceeded at {fr.module}:{s.lineno}')
            try:
                self.exec_block(s.body, fr)
            except _Break:
                return
            except _Continue:
                continue

    def sorted_map_loop(self, keys, s, fr):
        """for idx in sorted(M): ACC.extend(M[idx]) | ACC += M[idx] | ACC.append(M[idx])   (M[idx] optionally [::-1]) with ACC an
        empty list / bytes / bytearray before the loop: the loop form of the comprehensions in combined_comprehension."""
        from .symmap import Combined, ChunkSeq
        unmodelled = Unsupported('loop over sorted(symbolic map) of an unmodelled shape')
        if len(s.body) != 1 or s.orelse or not isinstance(s.target, ast.Name):
            raise unmodelled
        key = s.target.id
        st = s.body[0]
        m = keys.map

        def chunk_expr(node):
            rev = False
            if self._is_full_reverse(node):
                rev = True
                node = node.value
            if isinstance(node, ast.Subscript) and isinstance(node.slice, ast.Name) and node.slice.id == key and self.eval(node.value, fr) is m:
                return rev
            return None
        acc_node, mode, rev = None, None, None
        if isinstance(st, ast.Expr) and isinstance(st.value, ast.Call) and isinstance(st.value.func, ast.Attribute) and st.value.func.attr in ('extend', 'append') \
                and len(st.value.args) == 1 and not st.value.keywords:
            acc_node, mode, rev = st.value.func.value, st.value.func.attr, chunk_expr(st.value.args[0])
        elif isinstance(st, ast.AugAssign) and isinstance(st.op, ast.Add):
            acc_node, mode, rev = st.target, 'extend', chunk_expr(st.value)
        if acc_node is None or rev is None:
            raise unmodelled
        acc = self.concretize(self.eval(acc_node, fr))
        empty = (isinstance(acc, (list, bytes, bytearray)) and len(acc) == 0) or (isinstance(acc, SBytes) and len(acc) == 0)
        if not empty:
            raise unmodelled
        if mode == 'append':
            if not isinstance(acc, list):
                raise unmodelled
            val = ChunkSeq(m.snapshot(), 'asc', rev)
        else:
            val = Combined(m.snapshot(), 'asc', rev, None, as_list=isinstance(acc, list))
        self.assign(acc_node if isinstance(acc_node, (ast.Name, ast.Attribute, ast.Subscript)) else s.target, val, fr)

    def st_For(self, s, fr):
        first = self.eval(s.iter, fr)
        from .symmap import SortedKeys
        if isinstance(first, SortedKeys):
            return self.sorted_map_loop(first, s, fr)
        it = self.iterate(first)
        broke = False
        for x in it:
            self.assign(s.target, x, fr)
            try:
                self.exec_block(s.body, fr)
            except _Break:
                broke = True
                break
            except _Continue:
                continue
        if not broke:
            self.exec_block(s.orelse, fr)

    def st_Break(self, s, fr):
        raise _Break()

    def st_Continue(self, s, fr):
        raise _Continue()

    def st_Assert(self, s, fr):
        if self.merge:
            c = self.sym_cond(s.test, fr)
            if isinstance(c, Sym):
                self.collect_raise('AssertionError', z3.Not(bool_term(c)), 'assert')
                return
            if not c:
                raise PyRaise(make_exc('AssertionError'))
            return
        if not self.truth(self.eval(s.test, fr)):
            raise PyRaise(make_exc('AssertionError'))

    def st_Raise(self, s, fr):
        if s.exc is None:
            cur = fr.locals.get('__current_exc__')
            if cur is None:
                raise Unsupported('bare raise outside handler')
            raise PyRaise(cur)
        e = self.eval(s.exc, fr)
        if isinstance(e, ExcClass):
            e = make_exc(e.name)
        if not (isinstance(e, Obj) and e.cls is None):
            raise Unsupported(f'raise of {e!r}')
        raise PyRaise(e)

    def st_Delete(self, s, fr):
        for t in s.targets:
            if isinstance(t, ast.Subscript):
                obj = self.eval(t.value, fr)
                k = self.eval(t.slice, fr)
                self.delitem(obj, k)
            elif isinstance(t, ast.Name):
                fr.locals.pop(t.id, None)
            else:
                raise Unsupported('del target')

    def st_Try(self, s, fr):
        try:
            try:
                self.exec_block(s.body, fr)
            except PyRaise as pr:
                handled = False
                for h in s.handlers:
                    if self.handler_matches(h, pr.exc, fr):
                        handled = True
                        if h.name:
                            fr.locals[h.name] = pr.exc
                        old = fr.locals.get('__current_exc__')
                        fr.locals['__current_exc__'] = pr.exc
                        try:
                            self.exec_block(h.body, fr)
                        finally:
                            fr.locals['__current_exc__'] = old
                        break
                if not handled:
                    raise
            else:
                self.exec_block(s.orelse, fr)
        finally:
            if s.finalbody:
                self.exec_block(s.finalbody, fr)

    def handler_matches(self, h, exc, fr):
        if h.type is None:
            return True
        t = self.eval(h.type, fr)
        ts = t if isinstance(t, tuple) else (t,)
        for c in ts:
            if isinstance(c, ExcClass) and exc_isinstance(exc.clsname, c.name):
                return True
        return False

    def st_FunctionDef(self, s, fr):
        # a nested function: a closure over the enclosing frame (read access to its variables), inlined when called
        from .frontend import FuncInfo
        outer = fr.func.qualname if fr.func is not None else '<module>'
        info = FuncInfo(fr.module, f'{outer}.<locals>.{s.name}', s, None, '')
        info.closure_env = fr.locals
        info.is_nested = True
        fr.locals[s.name] = FuncVal(info)

    def st_With(self, s, fr):
        if 'with' in self.hooks:
            return self.hooks['with'](self, s, fr)
        # contextlib.suppress(E1, E2): the body with `except (E1, E2): pass`
        if len(s.items) == 1 and s.items[0].optional_vars is None:
            cm = self.concretize(self.eval(s.items[0].context_expr, fr))
            if isinstance(cm, tuple) and cm and cm[0] == 'contextlib.suppress':
                try:
                    self.exec_block(s.body, fr)
                except PyRaise as pr:
                    if not any(isinstance(c, ExcClass) and exc_isinstance(pr.exc.clsname, c.name) for c in cm[1]):
                        raise
                return
        raise Unsupported('with statement')

    def st_AsyncWith(self, s, fr):
        if 'async_with' in self.hooks:
            return self.hooks['async_with'](self, s, fr)
        raise Unsupported('async with statement')

    def st_AsyncFor(self, s, fr):
        if 'async_for' in self.hooks:
            return self.hooks['async_for'](self, s, fr)
        raise Unsupported('async for statement')

    # ---- assignment targets ------------------------------------------------------
    def assign(self, t, v, fr):
        if isinstance(t, ast.Name):
            fr.locals[t.id] = v
        elif isinstance(t, (ast.Tuple, ast.List)):
            v = self.concretize(v)
            items = list(self.iterate(v))
            if len(items) != len(t.elts):
                raise PyRaise(make_exc('ValueError', 'unpack'))
            for e, x in zip(t.elts, items):
                self.assign(e, x, fr)
        elif isinstance(t, ast.Attribute):
            obj = self.concretize(self.eval(t.value, fr))
            self.setattr(obj, t.attr, v)
        elif isinstance(t, ast.Subscript):
            obj = self.concretize(self.eval(t.value, fr))
            k = self.eval(t.slice, fr)
            self.setitem(obj, k, v)
        else:
            raise Unsupported(f'assignment target {type(t).__name__}')

    def setattr(self, obj, name, v):
        if isinstance(obj, Obj):
            if 'setattr' in self.hooks:
                r = self.hooks['setattr'](self, obj, name, v)
                if r is not None:
                    v = r[0]
            obj.attrs[name] = v
            return
        raise Unsupported(f'setattr on {obj!r}')

    def setitem(self, obj, k, v):
        if hasattr(obj, 'sym_setitem'):
            return obj.sym_setitem(self, k, v)
        if isinstance(obj, list):
            k = self.concretize(k)
            if isinstance(k, Sym):
                raise Unsupported('symbolic list index store')
            try:
                obj[k] = v
            except IndexError:
                raise PyRaise(make_exc('IndexError', 'list assignment index out of range'))
            return
        if isinstance(obj, dict):
            k = self.dict_key(k)
            obj[k] = v
            return
        raise Unsupported(f'setitem on {type(obj).__name__}')

    def delitem(self, obj, k):
        if hasattr(obj, 'sym_delitem'):
            return obj.sym_delitem(self, k)
        if isinstance(obj, dict):
            k = self.dict_key(k)
            if k not in obj:
                raise PyRaise(make_exc('KeyError', k))
            del obj[k]
            return
        raise Unsupported(f'delitem on {type(obj).__name__}')

    def dict_key(self, k):
        k = self.concretize(k)
        if isinstance(k, (Sym, SStr, SBytes)):
            raise Unsupported(f'symbolic key {k!r} into a concrete dict')
        return k

    # ---- expressions -----------------------------------------------------------
    def eval(self, e, fr):
        m = getattr(self, 'ex_' + type(e).__name__, None)
        if m is None:
            raise Unsupported(f'expression {type(e).__name__} at {fr.module}:{getattr(e, "lineno", "?")}')
        return m(e, fr)

    def ex_Constant(self, e, fr):
        return e.value

    def ex_Name(self, e, fr):
        n = e.id
        if n in fr.locals:
            return fr.locals[n]
        return self.global_name(fr.module, n)

    def global_name(self, module, n):
        key = ('global', module, n)
        if key in self.ghost:
            return self.ghost[key]
        if 'global' in self.hooks:
            r = self.hooks['global'](self, module, n)
            if r is not None:
                return r
        if n == '__name__':
            return f'nmea2000.{module}'
        r = self.repo.resolve_global(module, n) if module in self.repo.modules or module else None
        if r is None:
            from .builtins import BUILTINS
            if n in BUILTINS:
                return BUILTINS[n]
            raise Unsupported(f'unknown name {n} in {module}')
        kind = r[0]
        if kind == 'func':
            return FuncVal(r[1])
        if kind == 'class':
            return ClassVal(r[1])
        if kind == 'const':
            from . import framescan
            if (r[2], n) in framescan.mutated_cached(self.repo):
                from .abssets import HavocState
                v = HavocState(f'{r[2]}.{n}')
                self.ghost[key] = v
                return v
            ck = (r[2], n)
            if ck in _LITERAL_CACHE:
                return _LITERAL_CACHE[ck]
            try:
                v = ast.literal_eval(r[1])
                if isinstance(v, dict):
                    from .builtins import register_const_table
                    register_const_table(v, n)
                    _LITERAL_CACHE[ck] = v
                    return v
            except (ValueError, SyntaxError, TypeError):
                pass
            v = self.eval(r[1], Frame(r[2]))
            self.ghost[key] = v
            return v
        if kind == 'ext':
            from .builtins import external
            return external(r[1])
        raise Unsupported(f'global {n}')

    def ex_BinOp(self, e, fr):
        return self.binop(e.op, self.eval(e.left, fr), self.eval(e.right, fr))

    BINOPS = {ast.Add: operator.add, ast.Sub: operator.sub, ast.Mult: operator.mul, ast.Div: operator.truediv,
              ast.FloorDiv: operator.floordiv, ast.Mod: operator.mod, ast.LShift: operator.lshift,
              ast.RShift: operator.rshift, ast.BitAnd: operator.and_, ast.BitOr: operator.or_,
              ast.BitXor: operator.xor, ast.Pow: operator.pow}

    def binop(self, op, a, b):
        a = self.concretize(a)
        b = self.concretize(b)
        f = self.BINOPS[type(op)]
        if isinstance(op, ast.BitOr):
            # X | Y on classes (PEP 604 union, as in isinstance(v, bytes | bytearray)): the tuple of alternatives
            def is_type(x):
                return isinstance(x, (ClassVal, ExcClass)) or (isinstance(x, Builtin) and x.name in ('int', 'float', 'str', 'bytes', 'bytearray', 'bool', 'list', 'tuple', 'dict', 'set', 'frozenset')) \
                    or x is None or (isinstance(x, tuple) and x and all(is_type(y) for y in x))
            if is_type(a) and is_type(b) and not (a is None and b is None):
                return (a if isinstance(a, tuple) else (a,)) + (b if isinstance(b, tuple) else (b,))
        if isinstance(op, ast.Add) and (isinstance(a, (str, SStr)) and isinstance(b, (str, SStr))):
            return sstr_concat(a, b)
        if isinstance(op, (ast.Add,)) and (isinstance(a, (SBytes, bytes, bytearray)) and isinstance(b, (SBytes, bytes, bytearray))):
            if isinstance(a, (bytes, bytearray)) and isinstance(b, (bytes, bytearray)):
                return a + b
            return SBytes.of(a) + SBytes.of(b)
        if isinstance(op, ast.Add) and (type(a).__name__ == 'ABuf' or type(b).__name__ == 'ABuf'):
            if type(a).__name__ == 'ABuf' and (isinstance(b, (SBytes, bytes, bytearray)) or type(b).__name__ == 'ABuf'):
                return a.concat(self, b)
            if type(b).__name__ == 'ABuf' and isinstance(a, (SBytes, bytes, bytearray)):
                return b.concat(self, a, other_first=True)
            raise PyRaise(make_exc('TypeError', "can't concat"))
        if isinstance(op, ast.Pow):
            if isinstance(a, Sym) or isinstance(b, Sym):
                if not isinstance(a, Sym) and a == 2 and isinstance(b, Sym) and b.ty == 'int':
                    neg = mk_bool(int_term(b) < 0)
                    if neg is not False and self.truth(neg):
                        raise Unsupported('2 ** negative symbolic exponent')
                    return 1 << b           # 2**k for k >= 0: the uninterpreted pow2(k) with its facts
                raise Unsupported('symbolic **')
        if isinstance(op, ast.Div) and not isinstance(a, Sym) and not isinstance(b, Sym):
            if b == 0:
                raise PyRaise(make_exc('ZeroDivisionError', 'division by zero'))
        if isinstance(op, (ast.FloorDiv, ast.Mod)) and not isinstance(a, Sym) and not isinstance(b, Sym) and isinstance(b, (int, float)) and b == 0:
            raise PyRaise(make_exc('ZeroDivisionError', 'division by zero'))
        try:
            r = f(a, b)
        except TypeError as te:
            if any(type(x).__module__.startswith(('pyvc', 'contracts', 'props')) and not isinstance(x, (Sym, SBytes, SStr, Obj)) for x in (a, b)):
                # an operand is an abstract value of the engine (unknown content): the TypeError is the engine's, not the program's
                raise Unsupported(f'{type(op).__name__} on abstract value {a!r} / {b!r}')
            raise PyRaise(make_exc('TypeError', str(te)))
        if r is NotImplemented:
            raise PyRaise(make_exc('TypeError', f'unsupported operand types for {type(op).__name__}'))
        return r

    def ex_UnaryOp(self, e, fr):
        v = self.concretize(self.eval(e.operand, fr))
        if isinstance(e.op, ast.Not):
            return not self.truth(v)
        if isinstance(e.op, ast.USub):
            return -v
        if isinstance(e.op, ast.UAdd):
            return +v
        if isinstance(e.op, ast.Invert):
            return ~v
        raise Unsupported('unary op')

    def ex_BoolOp(self, e, fr):
        isand = isinstance(e.op, ast.And)
        if self.merge:
            vals = []
            for sub in e.values:
                v = self.eval(sub, fr)
                if isinstance(v, GV):
                    v = self.sym_cond_value(v)
                if not isinstance(v, Sym):
                    t = self.truth(v)
                    if isand and not t:
                        return v if not vals else (vand(*vals, False))
                    if (not isand) and t:
                        if not vals:
                            return v
                        return vor(*vals, True)
                    continue
                vals.append(mk_bool(truth_term(v)))
            if not vals:
                return isand
            return vand(*vals) if isand else vor(*vals)
        v = None
        for i, sub in enumerate(e.values):
            v = self.eval(sub, fr)
            if i == len(e.values) - 1:
                return v
            t = self.truth(v)
            if isand and not t:
                return v if not isinstance(v, Sym) else False
            if (not isand) and t:
                return v if not isinstance(v, Sym) else True
        return v

    def sym_cond_value(self, v):
        gs = [g for g, x in v.alts if self._static_truth(x)]
        return mk_bool(z3.Or(*gs)) if gs else False

    def ex_NamedExpr(self, e, fr):
        v = self.eval(e.value, fr)
        self.assign(e.target, v, fr)
        return v

    def ex_IfExp(self, e, fr):
        if self.merge:
            c = self.sym_cond(e.test, fr)
            if isinstance(c, Sym):
                ct = bool_term(c)
                self.guards.append(ct)
                try:
                    a = self.eval(e.body, fr)
                finally:
                    self.guards.pop()
                self.guards.append(z3.Not(ct))
                try:
                    b = self.eval(e.orelse, fr)
                finally:
                    self.guards.pop()
                return ite(c, a, b)
            return self.eval(e.body, fr) if c else self.eval(e.orelse, fr)
        if self.truth(self.eval(e.test, fr)):
            return self.eval(e.body, fr)
        return self.eval(e.orelse, fr)

    def ex_Compare(self, e, fr):
        left = self.eval(e.left, fr)
        result = True
        for op, rn in zip(e.ops, e.comparators):
            right = self.eval(rn, fr)
            r = self.compare(op, left, right)
            if len(e.ops) == 1:
                return r
            if not self.truth(r):
                return False
            left = right
        return result

    def compare(self, op, a, b):
        if isinstance(op, (ast.Is, ast.IsNot)):
            r = self.is_same(a, b)
            return r if isinstance(op, ast.Is) else vnot(r)
        if isinstance(op, (ast.In, ast.NotIn)):
            r = self.contains(b, a)
            return r if isinstance(op, ast.In) else vnot(r)
        a = self.concretize(a)
        b = self.concretize(b)
        if isinstance(op, (ast.Eq, ast.NotEq)):
            r = self.equals(a, b)
            return r if isinstance(op, ast.Eq) else vnot(r)
        f = {ast.Lt: operator.lt, ast.LtE: operator.le, ast.Gt: operator.gt, ast.GtE: operator.ge}[type(op)]
        if hasattr(a, 'sym_compare'):
            return a.sym_compare(self, type(op).__name__, b)
        if hasattr(b, 'sym_compare'):
            rev = {'Lt': 'Gt', 'LtE': 'GtE', 'Gt': 'Lt', 'GtE': 'LtE'}[type(op).__name__]
            return b.sym_compare(self, rev, a)
        try:
            r = f(a, b)
        except TypeError as te:
            raise PyRaise(make_exc('TypeError', str(te)))
        if r is NotImplemented:
            raise PyRaise(make_exc('TypeError', 'ordering not supported'))
        return r

    def is_same(self, a, b):
        if isinstance(a, GV):
            if b is None:
                return a.is_none()
            a = self.concretize(a)
        if isinstance(b, GV):
            if a is None:
                return b.is_none()
            b = self.concretize(b)
        if type(a).__name__ == 'TableGet' and b is None:
            return a.is_none(self)
        if type(b).__name__ == 'TableGet' and a is None:
            return b.is_none(self)
        if a is None or b is None:
            return a is b
        if isinstance(a, (Sym, int, bool, float)) and isinstance(b, ClassVal) or isinstance(b, Builtin):
            return a is b   # e.g. `x is int` : a value is never the type object
        if isinstance(a, Sym) and isinstance(b, Sym):
            return a is b or self.equals(a, b)
        if isinstance(a, Sym) or isinstance(b, Sym):
            if isinstance(a, (bool, int, float)) or isinstance(b, (bool, int, float)):
                return self.equals(a, b)
            return False
        if isinstance(a, (bool,)) or isinstance(b, (bool,)):
            return a is b
        return a is b

    def equals(self, a, b):
        if hasattr(a, 'sym_eq'):
            return a.sym_eq(self, b)
        if hasattr(b, 'sym_eq'):
            return b.sym_eq(self, a)
        if isinstance(a, (SBytes, bytes, bytearray)) and isinstance(b, (SBytes, bytes, bytearray)):
            return SBytes.eq(a, b)
        if isinstance(a, (SStr, str)) and isinstance(b, (SStr, str)):
            return SStr.eq(self, a, b)
        if isinstance(a, (list, tuple)) and isinstance(b, (list, tuple)) and type(a) is type(b):
            if len(a) != len(b):
                return False
            return vand(*[self.equals(x, y) for x, y in zip(a, b)])
        if isinstance(a, Sym) or isinstance(b, Sym):
            return V.compare('==', a, b)
        if isinstance(a, EnumVal) or isinstance(b, EnumVal):
            return a is b
        if isinstance(a, Obj) or isinstance(b, Obj):
            return a is b
        if a is b:
            return True
        for x in (a, b):
            if type(x).__name__ in ('AbsSet', 'SymMap', 'ABuf', 'Combined', 'ChunkSeq', 'App', 'TableGet', 'HavocState', 'TextOf', 'OpaqueBytes', 'SortedKeys', 'MapItems'):
                # an abstract value without an equality theory of its own: Python's identity comparison would be a guess
                raise Unsupported(f'== on abstract value {x!r}')
        try:
            return a == b
        except Exception:
            return False

    def contains(self, container, x):
        container = self.concretize(container)
        if hasattr(container, 'sym_contains'):
            return container.sym_contains(self, x)
        if isinstance(container, (list, tuple, set, frozenset)):
            x = self.concretize(x)
            return vor(*[self.equals(y, x) for y in container])
        if isinstance(container, dict):
            x = self.concretize(x)
            if isinstance(x, (Sym, SStr)):
                return vor(*[self.equals(k, x) for k in container])
            try:
                return x in container
            except TypeError:
                return False
        if isinstance(container, (str,)) and isinstance(x, str):
            return x in container
        raise Unsupported(f'`in` on {type(container).__name__}')

    def _display(self, elts, fr):
        out = []
        for x in elts:
            if isinstance(x, ast.Starred):
                out.extend(self.iterate(self.eval(x.value, fr)))        # [*a, b]
            else:
                out.append(self.eval(x, fr))
        return out

    def ex_Tuple(self, e, fr):
        return tuple(self._display(e.elts, fr))

    def ex_List(self, e, fr):
        return self._display(e.elts, fr)

    def ex_Set(self, e, fr):
        return set(self.eval(x, fr) for x in e.elts)

    def ex_Dict(self, e, fr):
        d = {}
        for k, v in zip(e.keys, e.values):
            d[self.dict_key(self.eval(k, fr))] = self.eval(v, fr)
        return d

    def ex_JoinedStr(self, e, fr):
        parts = []
        for p in e.values:
            if isinstance(p, ast.Constant):
                parts.append(p.value)
            else:
                v = self.eval(p.value, fr)
                spec = ''
                if p.format_spec is not None:
                    sv = self.ex_JoinedStr(p.format_spec, fr)
                    if not isinstance(sv, str):
                        raise Unsupported('symbolic format spec')
                    spec = sv
                conv = p.conversion
                parts.append(fmt_value(self, v, spec, conv))
        out = ''
        for p in parts:
            out = sstr_concat(out, p)
        return out

    def ex_Attribute(self, e, fr):
        obj = self.concretize(self.eval(e.value, fr))
        return self.getattr(obj, e.attr)

    def getattr(self, obj, name):
        from .builtins import method_of
        if isinstance(obj, Obj):
            if 'getattr' in self.hooks:
                r = self.hooks['getattr'](self, obj, name)
                if r is not None:
                    return r[0]
            if name in obj.attrs:
                return obj.attrs[name]
            if obj.cls is not None:
                m = self.repo.find_method(obj.cls, name)
                if m is not None:
                    if m.is_property:
                        return self._run_body(m, [], {}, obj)
                    if m.is_static:
                        return FuncVal(m)
                    return FuncVal(m, obj)
                for c in self.repo.mro(obj.cls):
                    if name in c.class_attrs:
                        return self.eval(c.class_attrs[name], Frame(c.module))
            if name == '__dict__':
                return obj.attrs
            raise PyRaise(make_exc('AttributeError', name))
        if isinstance(obj, SuperProxy):
            mro = self.repo.mro(obj.obj.cls)
            after = mro[mro.index(obj.cls) + 1:] if obj.cls in mro else []
            for c in after:
                if name in c.methods:
                    return FuncVal(c.methods[name], obj.obj)
            if name == '__init__':
                return Builtin('object.__init__', lambda ex, *a, **k: None)
            raise PyRaise(make_exc('AttributeError', name))
        if isinstance(obj, ClassVal):
            ci = obj.info
            m = self.repo.find_method(ci, name)
            if m is not None:
                return FuncVal(m)
            if 'Enum' in ci.bases:
                if name in ci.class_attrs:
                    return EnumVal(ci.name, name)
            if name in ci.class_attrs:
                return self.eval(ci.class_attrs[name], Frame(ci.module))
            raise PyRaise(make_exc('AttributeError', name))
        if isinstance(obj, EnumVal):
            if name == 'name':
                return obj.member
            if name == 'value':
                ci = self.repo.find_class(obj.enum)
                return self.eval(ci.class_attrs[obj.member], Frame(ci.module))
        r = method_of(self, obj, name)
        if r is not None:
            return r
        raise Unsupported(f'attribute {name} of {type(obj).__name__} {obj!r}')

    def ex_Subscript(self, e, fr):
        obj = self.concretize(self.eval(e.value, fr))
        k = self.eval(e.slice, fr)
        return self.getitem(obj, k)

    def ex_Slice(self, e, fr):
        def g(x):
            if x is None:
                return None
            v = self.concretize(self.eval(x, fr))
            return v
        return slice(g(e.lower), g(e.upper), g(e.step))

    def getitem(self, obj, k):
        if hasattr(obj, 'sym_getitem'):
            return obj.sym_getitem(self, k)
        k = self.concretize(k) if not isinstance(k, slice) else k
        if isinstance(k, slice):
            if any(isinstance(x, Sym) for x in (k.start, k.stop, k.step)):
                if isinstance(obj, (SBytes, bytes, bytearray, list, tuple)):
                    return self.sym_slice(obj, k)
                raise Unsupported('symbolic slice bounds')
        if isinstance(obj, (bytes, bytearray)):
            obj = SBytes.of(obj) if isinstance(k, Sym) else obj
        if isinstance(obj, SBytes):
            if isinstance(k, Sym):
                return self.sym_index(obj.items, k)
            return obj[k]
        if isinstance(obj, (list, tuple, str, bytes, bytearray)):
            if isinstance(k, Sym):
                if isinstance(obj, (list, tuple)):
                    return self.sym_index(list(obj), k)
                raise Unsupported('symbolic index')
            try:
                return obj[k]
            except IndexError:
                raise PyRaise(make_exc('IndexError', 'index out of range'))
        if isinstance(obj, dict):
            k2 = k
            if isinstance(k2, (Sym, SStr)):
                # symbolic key into a concrete dict: ONE fork (present / absent), the value merged over the matching keys
                alts_ = []
                for key in obj:
                    c = self.equals(key, k2)
                    if c is True:
                        return obj[key]
                    if c is False:
                        continue
                    alts_.append((bool_term(c), obj[key]))
                if not alts_:
                    raise PyRaise(make_exc('KeyError', k2))
                if len(alts_) > 8:
                    found = z3.Or(*[c for c, _ in alts_])
                    if not self.branch(found, tag='dict-key-present?'):
                        raise PyRaise(make_exc('KeyError', k2))
                    vals = [v for _, v in alts_]
                    if all(isinstance(v, (int, Sym)) and not isinstance(v, bool) for v in vals):
                        r = vals[-1]
                        for c, v in reversed(alts_[:-1]):
                            r = ite(Sym(c, 'bool'), v, r)
                        return r
                    return GV.make(alts_)
                for c, v in alts_:
                    if self.truth(Sym(c, 'bool')):
                        return v
                raise PyRaise(make_exc('KeyError', k2))
            try:
                return obj[k2]
            except KeyError:
                raise PyRaise(make_exc('KeyError', k2))
            except TypeError:
                raise PyRaise(make_exc('KeyError', k2))
        raise Unsupported(f'subscript on {type(obj).__name__}')

    def sym_index(self, items, k):
        n = len(items)
        kt = int_term(k)
        oob = mk_bool(z3.Or(kt >= n, kt < -n))
        if oob is True or (oob is not False and self.branch(oob.t, tag='index-oob?')):
            raise PyRaise(make_exc('IndexError', 'index out of range'))
        alts = []
        for i, x in enumerate(items):
            alts.append((z3.Or(kt == i, kt == i - n), x))
        return GV.make(alts)

    def sym_slice(self, obj, k):
        """Slice with symbolic bounds on a sequence of concrete length: fork on the bound values."""
        n = len(obj)

        def conc(x, default):
            if x is None:
                return default
            if not isinstance(x, Sym):
                return x
            # fork over clamped positions
            for i in range(0, n + 1):
                if i == n:
                    self.assume(int_term(x) >= n)
                    return n
                if self.branch(int_term(x) == i if i > 0 else int_term(x) <= 0 if False else int_term(x) == i):
                    return i
            return n
        if k.step is not None and isinstance(k.step, Sym):
            raise Unsupported('symbolic slice step')
        lo = k.start
        hi = k.stop
        if isinstance(lo, Sym):
            self_neg = mk_bool(int_term(lo) < 0)
            if self_neg is not False and self.truth(self_neg):
                raise Unsupported('negative symbolic slice start')
            lo = conc(lo, 0)
        if isinstance(hi, Sym):
            self_neg = mk_bool(int_term(hi) < 0)
            if self_neg is not False and self.truth(self_neg):
                raise Unsupported('negative symbolic slice stop')
            hi = conc(hi, n)
        return self.getitem(obj, slice(lo, hi, k.step))

    def ex_ListComp(self, e, fr):
        r = self.comprehension(e.elt, e.generators, fr)
        return r if not isinstance(r, list) else list(r)

    def ex_GeneratorExp(self, e, fr):
        return list(self.comprehension(e.elt, e.generators, fr))

    def ex_SetComp(self, e, fr):
        from .builtins import SymSet
        items = list(self.comprehension(e.elt, e.generators, fr))
        return SymSet(items)

    def ex_DictComp(self, e, fr):
        out = {}
        for kv in self.comprehension(ast.Tuple(elts=[e.key, e.value], ctx=ast.Load()), e.generators, fr):
            out[self.dict_key(kv[0])] = kv[1]
        return out

    def comprehension(self, elt, gens, fr):
        sub = Frame(fr.module, fr.func)
        sub.locals = dict(fr.locals)
        out = []
        first = self.eval(gens[0].iter, sub)
        from .symmap import SortedKeys, Combined
        if isinstance(first, SortedKeys):
            return self.combined_comprehension(first.map, elt, gens, sub)
        from .symmap import ChunkSeq, SortedItems
        if isinstance(first, ChunkSeq):
            return self.chunk_comprehension(first, elt, gens, sub)
        if isinstance(first, SortedItems):
            # for k, chunk in sorted(M.items()): the chunks in key order
            t = gens[0].target
            if not (isinstance(t, ast.Tuple) and len(t.elts) == 2 and all(isinstance(x, ast.Name) for x in t.elts)) or gens[0].ifs:
                raise Unsupported('comprehension over sorted(M.items()) of an unmodelled shape')
            g0 = ast.comprehension(target=ast.Name(id=t.elts[1].id, ctx=ast.Store()), iter=gens[0].iter, ifs=[], is_async=0)
            return self.chunk_comprehension(ChunkSeq(first.map.snapshot(), 'asc', False), elt, [g0] + list(gens[1:]), sub)

        def rec(i):
            if i == len(gens):
                out.append(self.eval(elt, sub))
                return
            g = gens[i]
            for x in self.iterate(self.eval(g.iter, sub)):
                self.assign(g.target, x, sub)
                if all(self.truth(self.eval(c, sub)) for c in g.ifs):
                    rec(i + 1)
        rec(0)
        return out

    @staticmethod
    def _is_full_reverse(node):
        return (isinstance(node, ast.Subscript) and isinstance(node.slice, ast.Slice) and node.slice.lower is None and node.slice.upper is None
                and node.slice.step is not None and isinstance(node.slice.step, ast.UnaryOp) and isinstance(node.slice.step.op, ast.USub)
                and isinstance(node.slice.step.operand, ast.Constant) and node.slice.step.operand.value == 1)

    def combined_comprehension(self, m, elt, gens, sub):
        """Comprehensions over sorted(M) for a symbolic map M, in the shapes
             [b for idx in sorted(M) for b in M[idx]]          (optionally M[idx][::-1])   -> Combined
             [M[idx] for idx in sorted(M)]                     (optionally M[idx][::-1])   -> ChunkSeq
           (a ChunkSeq is flattened by chunk_comprehension below)."""
        from .symmap import Combined, ChunkSeq
        unmodelled = Unsupported('comprehension over sorted(symbolic map) of an unmodelled shape')
        if any(g.ifs for g in gens) or not isinstance(gens[0].target, ast.Name):
            raise unmodelled
        key = gens[0].target.id

        def chunk_expr(node):
            """node is M[key] or M[key][::-1] -> each_rev, else None"""
            rev = False
            if self._is_full_reverse(node):
                rev = True
                node = node.value
            if isinstance(node, ast.Subscript) and isinstance(node.slice, ast.Name) and node.slice.id == key:
                if self.eval(node.value, sub) is not m:
                    raise Unsupported('comprehension indexes a different map than it iterates')
                return rev
            return None
        if len(gens) == 1:
            rev = chunk_expr(elt)
            if rev is None:
                raise unmodelled
            return ChunkSeq(m.snapshot(), 'asc', rev)
        if len(gens) == 2 and isinstance(gens[1].target, ast.Name) and isinstance(elt, ast.Name) and elt.id == gens[1].target.id:
            rev = chunk_expr(gens[1].iter)
            if rev is None:
                raise unmodelled
            return Combined(m.snapshot(), 'asc', rev, None, as_list=True)
        raise unmodelled

    def chunk_comprehension(self, cs, elt, gens, sub):
        """[b for chunk in CS for b in chunk]  (optionally chunk[::-1]);  [chunk[::-1] for chunk in CS]."""
        from .symmap import ChunkSeq
        unmodelled = Unsupported('comprehension over a chunk sequence of an unmodelled shape')
        if any(g.ifs for g in gens) or not isinstance(gens[0].target, ast.Name):
            raise unmodelled
        var = gens[0].target.id

        def chunk_expr(node):
            rev = False
            if self._is_full_reverse(node):
                rev = True
                node = node.value
            if isinstance(node, ast.Name) and node.id == var:
                return rev
            return None
        if len(gens) == 1:
            rev = chunk_expr(elt)
            if rev is None:
                raise unmodelled
            return ChunkSeq(cs.snapshot, cs.order, cs.each_rev != rev)
        if len(gens) == 2 and isinstance(gens[1].target, ast.Name) and isinstance(elt, ast.Name) and elt.id == gens[1].target.id:
            rev = chunk_expr(gens[1].iter)
            if rev is None:
                raise unmodelled
            return cs.flatten(rev, as_list=True)
        raise unmodelled

    def ex_Lambda(self, e, fr):
        # a lambda is a nested function whose body is `return <expr>` (closure over the enclosing frame)
        from .frontend import FuncInfo
        node = ast.FunctionDef(name='<lambda>', args=e.args, body=[ast.Return(value=e.body)], decorator_list=[], returns=None, type_comment=None)
        ast.copy_location(node, e)
        ast.fix_missing_locations(node)
        node.end_lineno = getattr(e, 'end_lineno', e.lineno)
        outer = fr.func.qualname if fr.func is not None else '<module>'
        info = FuncInfo(fr.module, f'{outer}.<locals>.<lambda>', node, None, '')
        info.closure_env = fr.locals
        info.is_nested = True
        return FuncVal(info)

    def ex_Await(self, e, fr):
        if 'await' in self.hooks:
            return self.hooks['await'](self, e, fr)
        raise Unsupported('await')

    def ex_Starred(self, e, fr):
        raise Unsupported('starred')

    def iterate(self, v):
        v = self.concretize(v)
        if hasattr(v, 'sym_iter'):
            return v.sym_iter(self)
        if isinstance(v, (list, tuple, range, str, bytes, bytearray, set, frozenset)):
            return list(v)
        if isinstance(v, dict):
            return list(v.keys())
        if isinstance(v, SBytes):
            return list(v.items)
        raise Unsupported(f'iteration over {type(v).__name__}')

    # ---- calls --------------------------------------------------------------------
    def is_logger_call(self, e):
        if not isinstance(e, ast.Call) or not isinstance(e.func, ast.Attribute):
            return False
        f = e.func
        if f.attr not in ('debug', 'info', 'warning', 'error', 'exception', 'critical'):
            return False
        tgt = f.value
        return (isinstance(tgt, ast.Name) and tgt.id == 'logger') or \
               (isinstance(tgt, ast.Attribute) and tgt.attr == 'logger')

    def eval_logger_args(self, call, fr):
        self.dropped.add('logger call')
        for a in call.args:
            try:
                self.eval(a, fr)
            except Unsupported:
                self.dropped.add('logger argument not modelled')

    def ex_Call(self, e, fr):
        if self.is_logger_call(e):
            self.eval_logger_args(e, fr)
            return None
        if 'call_ast' in self.hooks:
            r = self.hooks['call_ast'](self, e, fr)
            if r is not None:
                return r[0]
        if isinstance(e.func, ast.Name) and e.func.id == 'super' and not e.args and 'super' not in fr.locals:
            if fr.func is None or fr.func.cls is None or 'self' not in fr.locals:
                raise Unsupported('super() outside a method')
            return SuperProxy(fr.locals['self'], fr.func.cls)
        f = self.concretize(self.eval(e.func, fr))
        args = []
        for a in e.args:
            if isinstance(a, ast.Starred):
                args.extend(self.iterate(self.eval(a.value, fr)))
            else:
                args.append(self.eval(a, fr))
        kwargs = {}
        for k in e.keywords:
            if k.arg is None:
                d = self.concretize(self.eval(k.value, fr))
                if not isinstance(d, dict):
                    raise Unsupported('** of non-dict')
                kwargs.update(d)
            else:
                kwargs[k.arg] = self.eval(k.value, fr)
        return self.call(f, args, kwargs, fr)

    def call(self, f, args, kwargs=None, fr=None):
        kwargs = kwargs or {}
        if isinstance(f, FuncVal):
            name = f.info.fullname
            if name in self.contracts:
                return self.contracts[name](self, f, args, kwargs)
            if name in self.inline or '*' in self.inline or f.info.module == 'pgns' and 'pgns.*' in self.inline:
                return self.call_function(f.info, args, kwargs, f.bound)
            if f'{f.info.module}.*' in self.inline:
                # helper of the same module without a contract of its own: verified inlined, and reported as such
                self.dropped.add(f'inlined without own contract: {name}')
                return self.call_function(f.info, args, kwargs, f.bound)
            # a repository function without a contract of its own (e.g. a helper introduced by a refactoring): verified
            # inlined into its caller - the caller's contract then speaks about the helper's real body - and reported
            depth = getattr(self, '_auto_inline_depth', 0)
            if depth >= 8:
                raise Unsupported(f'call to {name}: no contract and auto-inlining depth exceeded')
            self.dropped.add(f'inlined without own contract: {name}')
            self._auto_inline_depth = depth + 1
            try:
                return self.call_function(f.info, args, kwargs, f.bound)
            finally:
                self._auto_inline_depth = depth
        if isinstance(f, Builtin):
            return f.fn(self, *args, **kwargs)
        if isinstance(f, BoundBuiltin):
            return f.fn(self, f.recv, *args, **kwargs)
        if isinstance(f, ClassVal):
            return self.instantiate(f.info, args, kwargs)
        if isinstance(f, ExcClass):
            return make_exc(f.name, *args)
        if hasattr(f, 'sym_call'):
            return f.sym_call(self, args, kwargs)
        raise Unsupported(f'call of {f!r}')

    def instantiate(self, ci, args, kwargs):
        name = f'nmea2000.{ci.module}.{ci.name}'
        if name in self.contracts:
            return self.contracts[name](self, ci, args, kwargs)
        obj = Obj(ci)
        init = self.repo.find_method(ci, '__init__')
        if init is not None:
            fn = init.fullname
            if fn in self.contracts:
                self.contracts[fn](self, FuncVal(init, obj), args, kwargs)
            else:
                self._run_body(init, list(args), dict(kwargs), obj)
            return obj
        if ci.is_dataclass:
            names = [n for n, _ in ci.fields]
            if len(args) > len(names):
                raise PyRaise(make_exc('TypeError', 'too many positional arguments'))
            given = dict(zip(names, args))
            for k, v in kwargs.items():
                if k not in names:
                    raise PyRaise(make_exc('TypeError', f'unexpected keyword argument {k}'))
                if k in given:
                    raise PyRaise(make_exc('TypeError', f'multiple values for {k}'))
                given[k] = v
            for n, d in ci.fields:
                if n in given:
                    obj.attrs[n] = given[n]
                elif d is None:
                    raise PyRaise(make_exc('TypeError', f'missing argument {n}'))
                else:
                    obj.attrs[n] = self.dataclass_default(ci, n, d)
            return obj
        if args or kwargs:
            raise PyRaise(make_exc('TypeError', 'takes no arguments'))
        return obj

    def dataclass_default(self, ci, n, d):
        if isinstance(d, ast.Call) and isinstance(d.func, ast.Name) and d.func.id == 'field':
            for k in d.keywords:
                if k.arg == 'default_factory':
                    fac = self.eval(k.value, Frame(ci.module))
                    return self.call(fac, [], {})
                if k.arg == 'default':
                    return self.eval(k.value, Frame(ci.module))
            raise Unsupported('dataclass field()')
        key = ('dc_default', ci.module, ci.name, n)
        if key not in self.ghost:
            self.ghost[key] = self.eval(d, Frame(ci.module))   # evaluated once at class creation in CPython
        return self.ghost[key]


class SuperProxy:
    ALWAYS_TRUE = True        # a Python object of this kind is truthy (no __bool__ / __len__)
    def __init__(self, obj, cls):
        self.obj = obj
        self.cls = cls


class Coroutine:
    ALWAYS_TRUE = True        # a Python object of this kind is truthy (no __bool__ / __len__)
    def __init__(self, info, args, kwargs, bound):
        self.info = info
        self.args = args
        self.kwargs = kwargs
        self.bound = bound

    def __repr__(self):
        return f'<coroutine {self.info.qualname}>'


def ast_load(t):
    import copy
    t2 = copy.deepcopy(t)
    for n in ast.walk(t2):
        if hasattr(n, 'ctx'):
            n.ctx = ast.Load()
    return t2


def built_instance(ex, ci, known=None, args=(), kwargs=None):
    """An object of a repository class in an arbitrary reachable state: the real constructor of the class builds it (so an
    attribute the constructor adds exists in the harness too), every attribute that holds a mutable container and is not
    given in `known` then has unknown content (the object may have any history of earlier calls), and the attributes of
    `known` are replaced by the harness's symbolic values."""
    from .abssets import HavocState
    known = dict(known or {})
    obj = ex.instantiate(ci, list(args), dict(kwargs or {}))
    later = assigned_outside_constructor(ex.repo, ci)
    for a, v in list(obj.attrs.items()):
        if a in known:
            continue
        if isinstance(v, (dict, list, set, bytearray)) or type(v).__name__ in ('SymMap', 'AbsSet', 'SymSet'):
            obj.attrs[a] = HavocState(f'{ci.name}.{a}')
        elif a in later:
            # a scalar some method other than the constructor assigns: unknown value of the constructor's kind
            if isinstance(v, bool):
                obj.attrs[a] = Sym(z3.Bool(f'{ci.name}.{a}0'), 'bool')
            elif isinstance(v, int):
                obj.attrs[a] = mk_int(z3.Int(f'{ci.name}.{a}0'))
            elif v is None or isinstance(v, (str, bytes, float)):
                obj.attrs[a] = Opaque(f'{ci.name}.{a}')
    obj.attrs.update(known)
    return obj


def assigned_outside_constructor(repo, ci):
    """Names of the attributes `self.<name>` that a method other than __init__ of the class or one of its bases assigns
    (read from the source on every run)."""
    out, seen, todo = set(), set(), [ci]
    while todo:
        c = todo.pop()
        if c is None or c.name in seen:
            continue
        seen.add(c.name)
        for mname, m in c.methods.items():
            if mname == '__init__':
                continue
            for n in ast.walk(m.node):
                tg = []
                if isinstance(n, ast.Assign):
                    tg = n.targets
                elif isinstance(n, (ast.AnnAssign, ast.AugAssign)):
                    tg = [n.target]
                for x in tg:
                    for y in (x.elts if isinstance(x, (ast.Tuple, ast.List)) else [x]):
                        if isinstance(y, ast.Attribute) and isinstance(y.value, ast.Name) and y.value.id == 'self':
                            out.add(y.attr)
        for b in c.bases:
            try:
                todo.append(repo.cls(c.module, b))
            except Exception:  # noqa
                pass
    return out


# ----------------------------------------------------------------------------
# exploration driver
# ----------------------------------------------------------------------------
def explore(repo, run, assumptions=(), contracts=None, inline=(), hooks=None, max_paths=MAX_PATHS, branch_timeout_ms=2000, budget_s=None):
    """run(ex) -> value ; returns list[PathResult].  `run` must rebuild all state itself."""
    import os
    import time as _t
    work = [[]]
    results = []
    # CPU time of this worker process, not wall time: the verdict must not depend on how busy the machine is
    t_end = _t.process_time() + (budget_s if budget_s is not None else float(os.environ.get('PYVC_EXPLORE_BUDGET_S', '90')))
    while work:
        if _t.process_time() > t_end:
            raise Unsupported('exploration budget exceeded (path explosion)')
        dec = work.pop()
        ex = Exec(repo, dec, assumptions, contracts, inline, hooks, branch_timeout_ms)
        ex.deadline = t_end
        V._CTX[0] = ex
        try:
            try:
                val = run(ex)
                kind = 'return'
            except PyRaise as pr:
                val = pr.exc
                kind = 'raise'
            except PathAbort:
                work.extend(ex.pending)
                continue
        finally:
            V._CTX[0] = None
        work.extend(ex.pending)
        results.append(PathResult(list(ex.pc), kind, val, list(ex.decisions), ex))
        if len(results) > max_paths:
            raise Unsupported('too many paths')
    return results
