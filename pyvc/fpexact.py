"""Exact IEEE-754 binary64 questions (float model E) in z3's FloatingPoint theory."""
from __future__ import annotations
import z3

F64 = z3.Float64()
RNE = z3.RNE()


def fpv(x: float):
    return z3.FPVal(x, F64)


def scaled_fp(n_bv, res, off=None):
    """fl(fl(float(n) * res) + off) for a signed bit-vector n (int(n) -> double is correctly rounded)."""
    x = z3.fpSignedToFP(RNE, n_bv, F64)
    y = z3.fpMul(RNE, x, fpv(float(res)))
    if off is not None:
        y = z3.fpAdd(RNE, y, fpv(float(off)))
    return y


def isclose_fp(a, b, rel):
    """CPython's math.isclose(a, b, rel_tol=rel, abs_tol=0.0) for finite doubles, bit exact:
       a == b or fabs(b-a) <= fabs(rel*b) or fabs(b-a) <= fabs(rel*a)."""
    diff = z3.fpAbs(z3.fpSub(RNE, b, a))
    r = fpv(float(rel))
    return z3.Or(z3.fpEQ(a, b), z3.fpLEQ(diff, z3.fpAbs(z3.fpMul(RNE, r, b))), z3.fpLEQ(diff, z3.fpAbs(z3.fpMul(RNE, r, a))))


def range_total_query(L, signed, res, off, mn, mx, n_lo, n_hi, na_code, rel_tol=None):
    """Formula that is satisfiable iff some raw n in [n_lo, n_hi] (n != na_code) makes the float range test fail:
       fl(n*res)(+off) < mn  or  > mx.   Returns (formula, n_bv)."""
    W = L + 2
    n = z3.BitVec('n', W)
    hyp = z3.And(n >= z3.BitVecVal(n_lo, W), n <= z3.BitVecVal(n_hi, W), n != z3.BitVecVal(na_code, W))
    if isinstance(res, int) and (off is None or isinstance(off, int)):
        # exact integer arithmetic (Python int * int): compare as reals with the literal bounds
        ni = z3.BV2Int(n, is_signed=True)
        v = ni * res + (off or 0)
        from .values import real_term
        # (isclose can only make the test more permissive: ignoring it here is the stronger statement)
        bad = z3.Or(z3.ToReal(v) < real_term(mn), z3.ToReal(v) > real_term(mx))
        return z3.And(hyp, bad), n
    y = scaled_fp(n, res, off)
    lo, hi = fpv(float(mn)), fpv(float(mx))
    if rel_tol is None:
        bad = z3.Or(z3.fpLT(y, lo), z3.fpGT(y, hi))
    else:
        bad = z3.Or(z3.And(z3.fpLT(y, lo), z3.Not(isclose_fp(y, lo, rel_tol))), z3.And(z3.fpGT(y, hi), z3.Not(isclose_fp(y, hi, rel_tol))))
    return z3.And(hyp, bad), n
