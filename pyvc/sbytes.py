"""Byte strings of concrete length whose items may be symbolic (ints 0..255)."""
from __future__ import annotations
import z3
from .values import Sym, mk_bool, mk_int, int_term, vand, Unsupported, ctx


class SBytes:
    """Immutable (bytes) or mutable (bytearray) sequence of byte values."""
    __slots__ = ('items', 'mutable', 'src')

    def __init__(self, items, mutable=False, src=None):
        self.items = list(items)
        self.mutable = mutable
        self.src = src     # (int value, length, byteorder) when made by int.to_bytes

    def __repr__(self):
        return ('bytearray' if self.mutable else 'bytes') + '<' + ','.join(
            (f'{b:02x}' if isinstance(b, int) else '?') for b in self.items) + '>'

    def __len__(self):
        return len(self.items)

    def __bool__(self):
        return len(self.items) > 0

    def __iter__(self):
        return iter(self.items)

    def __hash__(self):
        return id(self)

    @staticmethod
    def of(v):
        if isinstance(v, SBytes):
            return v
        if isinstance(v, (bytes, bytearray)):
            return SBytes(list(v), isinstance(v, bytearray))
        raise Unsupported(f'SBytes.of({type(v).__name__})')

    def concrete(self):
        return all(isinstance(b, int) for b in self.items)

    def to_bytes(self):
        return bytes(self.items)

    def __getitem__(self, k):
        if isinstance(k, slice):
            return SBytes(self.items[k], self.mutable)
        if isinstance(k, Sym):
            raise Unsupported('symbolic index into bytes')
        try:
            return self.items[k]
        except IndexError:
            from .symex import PyRaise, make_exc
            raise PyRaise(make_exc('IndexError', 'index out of range'))

    def __add__(self, o):
        o = SBytes.of(o)
        return SBytes(self.items + o.items, self.mutable)

    def __radd__(self, o):
        o = SBytes.of(o)
        return SBytes(o.items + self.items, o.mutable)

    @staticmethod
    def eq(a, b):
        if not isinstance(a, (SBytes, bytes, bytearray)) or not isinstance(b, (SBytes, bytes, bytearray)):
            return False
        a, b = SBytes.of(a), SBytes.of(b)
        if len(a) != len(b):
            return False
        return vand(*[x == y for x, y in zip(a.items, b.items)])

    def __eq__(self, o):
        return SBytes.eq(self, o)

    def __ne__(self, o):
        from .values import vnot
        return vnot(SBytes.eq(self, o))


def byte_of(v):
    """Check/convert a value to a byte item (raises ValueError outside 0..255 like bytes([...]))."""
    if isinstance(v, Sym):
        c = ctx()
        bad = mk_bool(z3.Or(int_term(v) < 0, int_term(v) > 255))
        if bad is True or (bad is not False and c is not None and c.branch(bad.t, tag='bytes-range?')):
            from .symex import PyRaise, make_exc
            raise PyRaise(make_exc('ValueError', 'bytes must be in range(0, 256)'))
        if v.supp is None or v.supp > 255:
            v = mk_int(v.t, 255)
        return v
    if isinstance(v, int):
        if not 0 <= v <= 255:
            from .symex import PyRaise, make_exc
            raise PyRaise(make_exc('ValueError', 'bytes must be in range(0, 256)'))
        return int(v)
    raise Unsupported(f'byte_of({type(v).__name__})')


def from_bytes(b, order):
    b = SBytes.of(b)
    items = b.items if order == 'big' else b.items[::-1]
    if all(isinstance(x, int) for x in items):
        return int.from_bytes(bytes(items), 'big')
    total = 0
    n = len(items)
    for i, x in enumerate(items):
        sh = 8 * (n - 1 - i)
        if isinstance(x, Sym) and (x.supp is None or x.supp > 255):
            x = mk_int(x.t, 255)
        total = total + (x << sh)      # disjoint byte pieces: keeps the piece normal form
    return total


def to_bytes(x, n, order):
    """int.to_bytes(n, order) for unsigned values; OverflowError when out of range."""
    from .symex import PyRaise, make_exc
    if isinstance(x, Sym):
        c = ctx()
        bad = mk_bool(z3.Or(int_term(x) < 0, int_term(x) >= (1 << (8 * n))))
        if bad is True or (bad is not False and c is not None and c.branch(bad.t, tag='to_bytes-overflow?')):
            raise PyRaise(make_exc('OverflowError', 'int too big to convert'))
        items = []
        for i in range(n):
            s = x.supp
            if s is not None and (s >> (8 * i)) & 0xFF == 0:
                items.append(0)
            else:
                items.append((x >> (8 * i)) & 0xFF)
        if order == 'big':
            items = items[::-1]
        return SBytes(items, False, (x, n, order))
    if x < 0 or x >= (1 << (8 * n)):
        raise PyRaise(make_exc('OverflowError', 'int too big to convert'))
    return SBytes(list(int(x).to_bytes(n, order)))
