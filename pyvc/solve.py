"""Discharging obligations: z3 (python API) first, then cvc5 / system z3 on `unknown`."""
from __future__ import annotations
import os
import subprocess
import tempfile
import time
import z3
from .floats import lower_formula, has_float_ops


class Obligation:
    def __init__(self, name, hyps, goal, kind='ensures', func=None, inputs=None, meta=None, float_model=None):
        self.name = name
        self.hyps = list(hyps)
        self.goal = goal
        self.kind = kind
        self.func = func
        self.inputs = inputs or {}     # name -> z3 term (for model extraction / replay)
        self.meta = meta or {}
        self.float_model = float_model  # None (uninterpreted) | 'S'

    def formula(self):
        """The formula whose unsatisfiability discharges the obligation."""
        f = z3.And(*self.hyps, z3.Not(self.goal)) if self.hyps else z3.Not(self.goal)
        if self.float_model in ('S', 'R') and has_float_ops(f):
            f = z3.simplify(f)      # canonical form first: equal float applications must lower to the same variables
            g, side = lower_formula(f, exact_i2f=self.meta.get('exact_i2f', True), exact=self.float_model == 'R')
            f = z3.And(g, *side) if side else g
        return f


class Result:
    def __init__(self, ob, status, backend, seconds, model=None, reason=''):
        self.ob = ob
        self.status = status      # 'discharged' | 'refuted' | 'unknown'
        self.backend = backend
        self.seconds = seconds
        self.model = model        # dict name -> python value
        self.reason = reason

    def to_json(self):
        d = {'obligation': self.ob.name, 'kind': self.ob.kind, 'status': self.status, 'backend': self.backend,
             'seconds': round(self.seconds, 4)}
        if self.model is not None:
            d['model'] = {k: (v if isinstance(v, (int, float, str, bool, type(None), list)) else str(v)) for k, v in self.model.items()}
        if self.reason:
            d['reason'] = self.reason
        return d


def model_value(m, t):
    v = m.eval(t, model_completion=True)
    if z3.is_int_value(v):
        return v.as_long()
    if z3.is_true(v):
        return True
    if z3.is_false(v):
        return False
    if z3.is_rational_value(v):
        from fractions import Fraction
        return float(Fraction(v.numerator_as_long(), v.denominator_as_long()))
    if z3.is_bv_value(v):
        return v.as_long()
    if z3.is_algebraic_value(v):
        return float(v.approx(20).as_fraction())
    return str(v)


def _cli(cmd, smt2, timeout):
    with tempfile.NamedTemporaryFile('w', suffix='.smt2', delete=False, dir=os.environ.get('PYVC_TMP', None)) as f:
        f.write(smt2)
        path = f.name
    try:
        p = subprocess.run(cmd + [path], capture_output=True, text=True, timeout=timeout + 5)
        out = p.stdout.strip().splitlines()
        return out[0].strip() if out else 'unknown'
    except subprocess.TimeoutExpired:
        return 'unknown'
    finally:
        try:
            os.unlink(path)
        except OSError:
            pass


def _z3_try(f, ob, timeout_s, tactic=None):
    s = z3.Solver() if tactic is None else z3.Tactic(tactic).solver()
    s.set('timeout', int(timeout_s * 1000))
    s.add(f)
    r = s.check()
    return s, r


GIVEN_UP = [0]        # obligations of the current task on which every back end gave up


def reset_given_up():
    GIVEN_UP[0] = 0


def discharge(ob, timeout_s=30, fallbacks=True, tactic=None):
    """Portfolio: z3 API (short slice), then cvc5 CLI, then /usr/bin/z3, then z3 API with the full budget.
    Once three obligations of a task have exhausted the full budget (the task is undecided whatever follows), the rest of
    the task runs with a 15 s budget, so that a task of many hard obligations ends in minutes instead of hours."""
    if GIVEN_UP[0] >= 3:
        timeout_s = min(timeout_s, 15)
    r = _discharge(ob, timeout_s, fallbacks, tactic)
    if r.status == 'unknown':
        GIVEN_UP[0] += 1
    return r


def guess_model(f, ob, tries=400, max_size=200000):
    """Look for a model of f by evaluating it on boundary and random assignments of its integer / Boolean constants
    (sound: a found assignment is a model, checked by evaluation; nothing is concluded when none is found).  Used when
    the solvers time out on formulas that mix integer arithmetic with bit vectors."""
    import random
    try:
        if len(f.sexpr()) > max_size:
            return None
    except Exception:  # noqa
        return None
    consts, nums, seen = {}, set(), set()
    stack = [f]
    while stack:
        e = stack.pop()
        if e.get_id() in seen:
            continue
        seen.add(e.get_id())
        if z3.is_quantifier(e):
            return None
        if z3.is_int_value(e):
            nums.add(e.as_long())
        elif z3.is_const(e) and e.decl().kind() == z3.Z3_OP_UNINTERPRETED:
            consts[e.decl().name()] = e
        elif z3.is_app(e) and e.decl().kind() == z3.Z3_OP_UNINTERPRETED and e.num_args() > 0:
            return None
        stack.extend(e.children())
    if not consts or any(not (z3.is_int(c) or z3.is_bool(c) or z3.is_real(c)) for c in consts.values()):
        return None
    # simple bounds stated as top-level conjuncts (x >= c, x < c, x <= c): sample inside them
    lo, hi = {}, {}
    conj = list(f.children()) if z3.is_and(f) else [f]
    for c in conj:
        if z3.is_app(c) and c.num_args() == 2 and c.decl().kind() in (z3.Z3_OP_GE, z3.Z3_OP_LE, z3.Z3_OP_LT, z3.Z3_OP_GT):
            a, b = c.arg(0), c.arg(1)
            kd = c.decl().kind()
            if z3.is_int_value(a) and z3.is_const(b):
                a, b = b, a
                kd = {z3.Z3_OP_GE: z3.Z3_OP_LE, z3.Z3_OP_LE: z3.Z3_OP_GE, z3.Z3_OP_LT: z3.Z3_OP_GT, z3.Z3_OP_GT: z3.Z3_OP_LT}[kd]
            if z3.is_const(a) and a.decl().kind() == z3.Z3_OP_UNINTERPRETED and z3.is_int(a) and z3.is_int_value(b):
                n, v = a.decl().name(), b.as_long()
                if kd == z3.Z3_OP_GE:
                    lo[n] = max(lo.get(n, v), v)
                elif kd == z3.Z3_OP_GT:
                    lo[n] = max(lo.get(n, v + 1), v + 1)
                elif kd == z3.Z3_OP_LE:
                    hi[n] = min(hi.get(n, v), v)
                else:
                    hi[n] = min(hi.get(n, v - 1), v - 1)
    rnd = random.Random(len(consts) * 7919 + len(nums))
    cands = sorted({0, 1, 2, 7, 8, 15, 16, 255, 256} | {n + d for n in nums for d in (-1, 0, 1) if abs(n) < (1 << 70)})
    ints = [c for c in consts.values() if z3.is_int(c)]
    bools = [c for c in consts.values() if z3.is_bool(c)]
    reals = sorted([c for c in consts.values() if z3.is_real(c)], key=lambda c: c.decl().name())
    for k in range(tries):
        sub = []
        for c in ints:
            n = c.decl().name()
            l, h = lo.get(n), hi.get(n)
            mode = rnd.random()
            if l is not None and h is not None and l <= h:
                inside = [x for x in cands if l <= x <= h]
                if mode < 0.3 and inside:
                    v = rnd.choice(inside)
                elif mode < 0.4:
                    v = rnd.choice((l, h))
                elif mode < 0.7:
                    v = l + rnd.getrandbits(rnd.choice((3, 4, 8, 12, 16, 18, 20, 29, 32))) % (h - l + 1)
                else:
                    v = rnd.randint(l, h)
            elif mode < 0.45:
                v = rnd.choice(cands)
            elif mode < 0.9:
                v = rnd.getrandbits(rnd.choice((3, 4, 8, 12, 16, 18, 20, 29, 32)))
            else:
                v = -rnd.getrandbits(8)
            if l is not None and v < l:
                v = l
            if h is not None and v > h:
                v = h
            sub.append((c, z3.IntVal(v)))
        for c in bools:
            sub.append((c, z3.BoolVal(rnd.random() < 0.5)))
        for j, c in enumerate(reals):
            sub.append((c, z3.RealVal(j + (k % 3))))         # increasing with the order of creation (clock readings)
        if z3.is_true(z3.simplify(z3.substitute(f, *sub))):
            return {c.decl().name(): (v.as_long() if z3.is_int_value(v) else (z3.is_true(v) if z3.is_bool(v) else v)) for c, v in sub}
    return None


def _discharge(ob, timeout_s=30, fallbacks=True, tactic=None):
    t0 = time.time()
    f = ob.formula()
    first = min(timeout_s, 8) if fallbacks else timeout_s
    s, r = _z3_try(f, ob, first, tactic)
    if r == z3.unknown:
        gm = guess_model(f, ob)
        if gm is not None:
            # re-check with the solver under the guessed assignment, so that the model comes from the usual path
            s2 = z3.Solver()
            s2.set('timeout', 5000)
            s2.add(f)
            for k, v in gm.items():
                s2.add((z3.Bool(k) == v) if isinstance(v, bool) else ((z3.Int(k) == v) if isinstance(v, int) else (z3.Real(k) == v)))
            if s2.check() == z3.sat:
                m = s2.model()
                mv = {k: model_value(m, t) for k, t in ob.inputs.items()}
                return Result(ob, 'refuted', 'z3-' + z3.get_version_string() + ' (model found by evaluation on boundary/random assignments)', time.time() - t0, mv)
    if r == z3.unknown and fallbacks:
        smt2 = '(set-logic ALL)\n' + s.to_smt2()
        for name, cmd in (('cvc5-cli', ['/usr/bin/cvc5', '--strings-exp', f'--tlimit={int(timeout_s * 1000)}']),
                          ('z3-4.8-cli', ['/usr/bin/z3', f'-T:{int(min(timeout_s, 20))}'])):
            if not os.path.exists(cmd[0]):
                continue
            ans = _cli(cmd, smt2, timeout_s)
            if ans == 'unsat':
                return Result(ob, 'discharged', name, time.time() - t0)
            if ans == 'sat':
                break   # get a model from the API below
        if timeout_s > first:
            s, r = _z3_try(f, ob, timeout_s, tactic)
    dt = time.time() - t0
    if r == z3.unsat:
        return Result(ob, 'discharged', 'z3-' + z3.get_version_string(), dt)
    if r == z3.sat:
        m = s.model()
        mv = {k: model_value(m, t) for k, t in ob.inputs.items()}
        return Result(ob, 'refuted', 'z3-' + z3.get_version_string(), dt, mv)
    return Result(ob, 'unknown', 'z3+cvc5', dt, None, s.reason_unknown())
