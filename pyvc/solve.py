"""Discharging obligations: z3 (python API) first, then cvc5 / system z3 on `unknown`."""
from __future__ import annotations
import os
import subprocess
import tempfile
import time
import z3
from .floats import lower_formula, has_float_ops


class Obligation:
    def __init__(self, name, hyps, goal, kind='ensures', func=None, inputs=None, meta=None, float_model=None):
        self.name = name
        self.hyps = list(hyps)
        self.goal = goal
        self.kind = kind
        self.func = func
        self.inputs = inputs or {}     # name -> z3 term (for model extraction / replay)
        self.meta = meta or {}
        self.float_model = float_model  # None (uninterpreted) | 'S'

    def formula(self):
        """The formula whose unsatisfiability discharges the obligation."""
        f = z3.And(*self.hyps, z3.Not(self.goal)) if self.hyps else z3.Not(self.goal)
        if self.float_model in ('S', 'R') and has_float_ops(f):
            f = z3.simplify(f)      # canonical form first: equal float applications must lower to the same variables
            g, side = lower_formula(f, exact_i2f=self.meta.get('exact_i2f', True), exact=self.float_model == 'R')
            f = z3.And(g, *side) if side else g
        return f


class Result:
    def __init__(self, ob, status, backend, seconds, model=None, reason=''):
        self.ob = ob
        self.status = status      # 'discharged' | 'refuted' | 'unknown'
        self.backend = backend
        self.seconds = seconds
        self.model = model        # dict name -> python value
        self.reason = reason

    def to_json(self):
        d = {'obligation': self.ob.name, 'kind': self.ob.kind, 'status': self.status, 'backend': self.backend,
             'seconds': round(self.seconds, 4)}
        if self.model is not None:
            d['model'] = {k: (v if isinstance(v, (int, float, str, bool, type(None), list)) else str(v)) for k, v in self.model.items()}
        if self.reason:
            d['reason'] = self.reason
        return d


def model_value(m, t):
    v = m.eval(t, model_completion=True)
    if z3.is_int_value(v):
        return v.as_long()
    if z3.is_true(v):
        return True
    if z3.is_false(v):
        return False
    if z3.is_rational_value(v):
        from fractions import Fraction
        return float(Fraction(v.numerator_as_long(), v.denominator_as_long()))
    if z3.is_bv_value(v):
        return v.as_long()
    if z3.is_algebraic_value(v):
        return float(v.approx(20).as_fraction())
    return str(v)


def _cli(cmd, smt2, timeout):
    with tempfile.NamedTemporaryFile('w', suffix='.smt2', delete=False, dir=os.environ.get('PYVC_TMP', None)) as f:
        f.write(smt2)
        path = f.name
    try:
        p = subprocess.run(cmd + [path], capture_output=True, text=True, timeout=timeout + 5)
        out = p.stdout.strip().splitlines()
        return out[0].strip() if out else 'unknown'
    except subprocess.TimeoutExpired:
        return 'unknown'
    finally:
        try:
            os.unlink(path)
        except OSError:
            pass


def _z3_try(f, ob, timeout_s, tactic=None):
    s = z3.Solver() if tactic is None else z3.Tactic(tactic).solver()
    s.set('timeout', int(timeout_s * 1000))
    s.add(f)
    r = s.check()
    return s, r


def discharge(ob, timeout_s=30, fallbacks=True, tactic=None):
    """Portfolio: z3 API (short slice), then cvc5 CLI, then /usr/bin/z3, then z3 API with the full budget."""
    t0 = time.time()
    f = ob.formula()
    first = min(timeout_s, 8) if fallbacks else timeout_s
    s, r = _z3_try(f, ob, first, tactic)
    if r == z3.unknown and fallbacks:
        smt2 = '(set-logic ALL)\n' + s.to_smt2()
        for name, cmd in (('cvc5-cli', ['/usr/bin/cvc5', '--strings-exp', f'--tlimit={int(timeout_s * 1000)}']),
                          ('z3-4.8-cli', ['/usr/bin/z3', f'-T:{int(min(timeout_s, 20))}'])):
            if not os.path.exists(cmd[0]):
                continue
            ans = _cli(cmd, smt2, timeout_s)
            if ans == 'unsat':
                return Result(ob, 'discharged', name, time.time() - t0)
            if ans == 'sat':
                break   # get a model from the API below
        if timeout_s > first:
            s, r = _z3_try(f, ob, timeout_s, tactic)
    dt = time.time() - t0
    if r == z3.unsat:
        return Result(ob, 'discharged', 'z3-' + z3.get_version_string(), dt)
    if r == z3.sat:
        m = s.model()
        mv = {k: model_value(m, t) for k, t in ob.inputs.items()}
        return Result(ob, 'refuted', 'z3-' + z3.get_version_string(), dt, mv)
    return Result(ob, 'unknown', 'z3+cvc5', dt, None, s.reason_unknown())
