"""Reads the real source of the repository on every run and builds the tables
the symbolic executor works from.  Nothing is cached across runs."""
from __future__ import annotations
import ast
import hashlib
import os

REPO = os.environ.get('NMEA2000_REPO', '/repo')
PKG = 'nmea2000'


class FuncInfo:
    def __init__(self, module, qualname, node, cls=None, src_seg=''):
        self.module = module
        self.qualname = qualname
        self.node = node
        self.cls = cls
        self.is_static = any(isinstance(d, ast.Name) and d.id == 'staticmethod' for d in node.decorator_list)
        self.is_property = any(isinstance(d, ast.Name) and d.id == 'property' for d in node.decorator_list)
        self.is_async = isinstance(node, ast.AsyncFunctionDef)
        self.sha256 = hashlib.sha256(src_seg.encode()).hexdigest()
        self.lines = (node.lineno, node.end_lineno)

    @property
    def fullname(self):
        return f'{PKG}.{self.module}.{self.qualname}'

    def __repr__(self):
        return f'<func {self.fullname}>'

    def describe(self):
        return {'function': self.fullname, 'file': f'{PKG}/{self.module}.py', 'lines': list(self.lines), 'sha256': self.sha256}


class ClassInfo:
    def __init__(self, module, name, node):
        self.module = module
        self.name = name
        self.node = node
        self.bases = [b.id if isinstance(b, ast.Name) else ast.unparse(b) for b in node.bases]
        self.methods = {}
        self.is_dataclass = any((isinstance(d, ast.Name) and d.id == 'dataclass') for d in node.decorator_list)
        self.fields = []   # dataclass fields: (name, default_ast | None)
        self.class_attrs = {}  # name -> ast value (non-dataclass simple assignments)

    def __repr__(self):
        return f'<class {self.module}.{self.name}>'


class Module:
    def __init__(self, name, path):
        self.name = name
        self.path = path
        self.src = open(path, encoding='utf-8').read()
        self.tree = ast.parse(self.src, filename=path)
        self.functions = {}
        self.classes = {}
        self.assigns = {}       # top-level NAME = <expr ast>  (last wins)
        self.imports = {}       # local name -> (module, name) for intra-package imports
        self.star_imports = []  # intra-package modules imported with *
        self.ext_imports = {}   # local name -> dotted external name
        self._scan()

    def _seg(self, node):
        if not hasattr(self, '_lines'):
            self._lines = self.src.split('\n')
        return '\n'.join(self._lines[node.lineno - 1:node.end_lineno])

    def _scan(self):
        for st in self.tree.body:
            if isinstance(st, (ast.FunctionDef, ast.AsyncFunctionDef)):
                self.functions[st.name] = FuncInfo(self.name, st.name, st, None, self._seg(st))
            elif isinstance(st, ast.ClassDef):
                ci = ClassInfo(self.name, st.name, st)
                for b in st.body:
                    if isinstance(b, (ast.FunctionDef, ast.AsyncFunctionDef)):
                        ci.methods[b.name] = FuncInfo(self.name, f'{st.name}.{b.name}', b, ci, self._seg(b))
                    elif isinstance(b, ast.AnnAssign) and isinstance(b.target, ast.Name):
                        ci.fields.append((b.target.id, b.value))
                    elif isinstance(b, ast.Assign) and len(b.targets) == 1 and isinstance(b.targets[0], ast.Name):
                        ci.class_attrs[b.targets[0].id] = b.value
                self.classes[st.name] = ci
            elif isinstance(st, ast.Assign):
                for t in st.targets:
                    if isinstance(t, ast.Name):
                        self.assigns[t.id] = st.value
            elif isinstance(st, ast.AnnAssign) and isinstance(st.target, ast.Name) and st.value is not None:
                self.assigns[st.target.id] = st.value
            elif isinstance(st, ast.ImportFrom):
                if st.level >= 1:
                    for a in st.names:
                        if a.name == '*':
                            self.star_imports.append(st.module)
                        else:
                            self.imports[a.asname or a.name] = (st.module, a.name)
                else:
                    for a in st.names:
                        self.ext_imports[a.asname or a.name] = f'{st.module}.{a.name}'
            elif isinstance(st, ast.Import):
                for a in st.names:
                    self.ext_imports[a.asname or a.name.split('.')[0]] = a.name if a.asname else a.name.split('.')[0]


class Repo:
    def __init__(self, root=None, modules=('utils', 'message', 'decoder', 'encoder', 'ioclient', 'consts')):
        self.root = root or REPO
        self.modules = {}
        for m in modules:
            self.load(m)

    def load(self, m):
        if m not in self.modules:
            self.modules[m] = Module(m, os.path.join(self.root, PKG, m + '.py'))
        return self.modules[m]

    def func(self, dotted):
        """'decoder.NMEA2000Decoder._extract_header' or 'utils.decode_int'."""
        parts = dotted.split('.')
        mod = self.load(parts[0])
        if len(parts) == 2:
            return mod.functions.get(parts[1])
        ci = mod.classes.get(parts[1])
        return self.find_method(ci, parts[2]) if ci else None

    def cls(self, module, name):
        mod = self.load(module)
        return mod.classes.get(name)

    def find_class(self, name, from_module=None):
        order = ([from_module] if from_module else []) + [m for m in self.modules if m != from_module]
        for m in order:
            mod = self.modules[m]
            if name in mod.classes:
                return mod.classes[name]
            if name in mod.imports:
                m2, n2 = mod.imports[name]
                c = self.load(m2).classes.get(n2)
                if c:
                    return c
        return None

    def mro(self, ci):
        out = [ci]
        for b in ci.bases:
            bc = self.find_class(b, ci.module)
            if bc:
                out += [c for c in self.mro(bc) if c not in out]
        return out

    def find_method(self, ci, name):
        for c in self.mro(ci):
            if name in c.methods:
                return c.methods[name]
        return None

    def resolve_global(self, module, name):
        """Resolve a global name used inside `module`: ('func', FuncInfo) | ('class', ClassInfo) |
        ('const', ast expr, module) | ('ext', dotted) | None"""
        mod = self.load(module)
        if name in mod.functions:
            return ('func', mod.functions[name])
        if name in mod.classes:
            return ('class', mod.classes[name])
        if name in mod.assigns:
            return ('const', mod.assigns[name], module)
        if name in mod.imports:
            m2, n2 = mod.imports[name]
            return self.resolve_global(m2, n2)
        if name in mod.ext_imports:
            return ('ext', mod.ext_imports[name])
        for m2 in mod.star_imports:
            r = self.resolve_global(m2, name)
            if r is not None:
                return r
        return None
