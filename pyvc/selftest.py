"""./check selftest  -  the checker checks itself.

 A. engine vs CPython: real repository functions over integers / bytes are executed symbolically; for thousands of
    random and boundary inputs the path whose condition holds is selected, its result term is evaluated under the
    input and compared with what CPython returns for the same call of the same (working-tree) function.  A
    difference means the term encoding of Python's semantics is wrong - every pass of every property is then void.
 B. operators: Python's //, %, <<, >>, &, |, ^, comparisons on symbolic ints against CPython for all sign
    combinations (floor semantics of // and % in particular).
 C. the float model S and the token axioms A1-A3, the str() facts and round() facts the contracts assume, sampled
    against CPython with exact rational arithmetic.
 D. obligations bite: deliberately wrong contracts (the specification perturbed) must be refuted, and the refutation
    must replay on the real code;  deliberately broken code (stored seeded changes applied to a scratch copy of the
    repository) must make the corresponding check exit 1 - and the unchanged copy must exit 0.

Exit 0: all agree.  Exit 1: a disagreement (printed).  Nothing here is counted as proof of a property."""
from __future__ import annotations
import os
import random
import subprocess
import sys
import tempfile
import time
from fractions import Fraction
import z3

VERIF = os.path.dirname(os.path.dirname(os.path.abspath(__file__)))


def _eval(v, subst):
    """Evaluate an engine value under a concrete substitution [(z3 var, z3 value)] -> Python value, or raise."""
    from .values import Sym
    from .sbytes import SBytes
    if isinstance(v, Sym):
        t = z3.simplify(z3.substitute(v.t, *subst)) if subst else z3.simplify(v.t)
        if z3.is_int_value(t):
            return t.as_long()
        if z3.is_true(t):
            return True
        if z3.is_false(t):
            return False
        if z3.is_rational_value(t):
            return Fraction(t.numerator_as_long(), t.denominator_as_long())
        raise ValueError(f'term does not evaluate: {t.sexpr()[:120]}')
    if isinstance(v, SBytes):
        return bytes(_eval(x, subst) if isinstance(x, Sym) else x for x in v.items)
    if isinstance(v, (list, tuple)):
        return type(v)(_eval(x, subst) for x in v)
    return v


def _holds(pc, subst):
    for c in pc:
        t = z3.simplify(z3.substitute(c, *subst)) if subst else z3.simplify(c)
        if z3.is_false(t):
            return False
        if not z3.is_true(t):
            s = z3.Solver()
            s.add(t)
            if s.check() != z3.sat:
                return False
    return True


def differential(name, dotted, make_args, native, samples, log):
    """make_args(ex) -> (args list, {name: z3 var}) ; native(**concrete) -> value or raises ; samples: list of dicts."""
    from .tasks import repo
    from .symex import explore
    r = repo()
    info = r.func(dotted)
    holder = {}

    def run(ex):
        args, vars_ = make_args(ex)
        holder['vars'] = vars_
        ex.ghost['vars'] = vars_
        return ex._run_body(info, args, {}, None)
    paths = explore(r, run, inline={'*'})
    bad = 0
    n = 0
    for smp in samples:
        chosen = None
        for p in paths:
            vars_ = p.ex.ghost['vars']
            subst = [(vars_[k], z3.IntVal(v) if not isinstance(v, bool) else z3.BoolVal(v)) for k, v in smp.items()]
            if _holds(p.pc, subst):
                chosen = (p, subst)
                break
        try:
            want = ('return', native(**smp))
        except Exception as e:  # noqa
            want = ('raise', type(e).__name__)
        if chosen is None:
            log(f'  {name}: no symbolic path covers input {smp} (CPython: {want})')
            bad += 1
            continue
        p, subst = chosen
        if p.kind == 'raise':
            got = ('raise', p.exc_name())
        else:
            try:
                got = ('return', _eval(p.value, subst))
            except ValueError as e:
                log(f'  {name}: {e}')
                bad += 1
                continue
        n += 1
        if _norm(got) != _norm(want):
            log(f'  {name}: input {smp}: engine {got} vs CPython {want}')
            bad += 1
            if bad > 5:
                break
    return n, bad, len(paths)


def _norm(x):
    if isinstance(x, tuple):
        return tuple(_norm(y) for y in x)
    if isinstance(x, list):
        return tuple(_norm(y) for y in x)
    if isinstance(x, (bytes, bytearray)):
        return bytes(x)
    if isinstance(x, bool):
        return int(x)
    return x


def part_a(log, tier):
    import importlib
    from .tasks import resolve_real
    from .sbytes import SBytes
    rnd = random.Random(int(os.environ.get('VERIF_SEED', '0') or 0) + 77)
    N = 400 if tier == 'quick' else 4000
    total = bad = 0
    results = []

    def ints(ex, spec):
        vars_, args = {}, []
        for nm, bits in spec:
            s = ex.fresh(nm, bits=bits)
            # the z3 variable of a fresh int is the term itself
            vars_[nm] = s.t
            args.append(s)
        return args, vars_

    # 1. identifier parsing / packing
    ext = resolve_real('decoder.NMEA2000Decoder._extract_header')
    smp = [{'frame_id_int': v} for v in [0, (1 << 29) - 1, 0x09F11201, 0x18EA2303, 0x1CEFFF05, 0x0DEF0000] + [rnd.getrandbits(29) for _ in range(N)]]
    results.append(('decoder._extract_header', differential('_extract_header', 'decoder.NMEA2000Decoder._extract_header',
                                                              lambda ex: ints(ex, [('frame_id_int', 29)]), lambda frame_id_int: tuple(ext(frame_id_int)), smp, log)))
    bld = resolve_real('encoder.NMEA2000Encoder._build_header')
    smp = [{'pgn_id': rnd.getrandbits(18), 'source_id': rnd.getrandbits(8), 'destination_id': rnd.getrandbits(8), 'priority': rnd.getrandbits(3)} for _ in range(N)]
    smp += [{'pgn_id': p, 'source_id': s, 'destination_id': d, 'priority': 7} for p in (0, 0xEF00, 0xF000, 0x1EF00, 0x3FFFF, 59904, 126720) for s in (0, 255) for d in (0, 255)]
    import inspect
    names = list(inspect.signature(bld).parameters)
    smp = [dict(zip(names, (x['pgn_id'], x['source_id'], x['destination_id'], x['priority']))) for x in smp]
    widths = [18, 8, 8, 3]
    results.append(('encoder._build_header', differential('_build_header', 'encoder.NMEA2000Encoder._build_header',
                                                            lambda ex: ints(ex, list(zip(names, widths))), lambda **k: bld(**k), smp, log)))
    # 2. bit-field extraction (constant positions, as in the generated code)
    di = resolve_real('utils.decode_int')
    dnames = list(inspect.signature(di).parameters)
    for (off, ln) in ((0, 1), (0, 8), (3, 2), (8, 16), (13, 11), (21, 3), (32, 32), (0, 64), (7, 57)):
        smp = [{dnames[0]: v} for v in [0, (1 << 64) - 1, 1 << off, ((1 << ln) - 1) << off] + [rnd.getrandbits(64) for _ in range(N // 8)]]
        results.append((f'utils.decode_int[{off},{ln}]', differential(f'decode_int[{off},{ln}]', 'utils.decode_int',
                                                                        lambda ex, off=off, ln=ln: (lambda a: ([a[0][0], off, ln], a[1]))(ints(ex, [(dnames[0], 64)])),
                                                                        lambda off=off, ln=ln, **k: di(k[dnames[0]], off, ln), smp, log)))
    # 3. checksum over a 20-byte packet
    ck = resolve_real('utils.calculate_canbus_checksum')

    def mk_ck(ex):
        bs = [ex.fresh(f'b{i}', bits=8) for i in range(20)]
        return [SBytes(bs)], {f'b{i}': b.t for i, b in enumerate(bs)}
    smp = [{f'b{i}': rnd.getrandbits(8) for i in range(20)} for _ in range(N // 2)] + [{f'b{i}': 255 for i in range(20)}, {f'b{i}': 0 for i in range(20)}]
    results.append(('utils.calculate_canbus_checksum', differential('checksum', 'utils.calculate_canbus_checksum', mk_ck,
                                                                      lambda **k: ck(bytes(k[f'b{i}'] for i in range(20))), smp, log)))
    # 4. fast-packet segmentation (frames as bytes)
    import nmea2000.encoder as E
    for n in (0, 1, 5, 6, 7, 13, 14, 20, 27, 43):
        def mk_fp(ex, n=n):
            from .symex import Obj
            from .values import mk_int
            from .tasks import repo
            seq = ex.fresh('seq', bits=3)
            bs = [ex.fresh(f'p{i}', bits=8) for i in range(n)]
            enc = Obj(repo().cls('encoder', 'NMEA2000Encoder'), {'sequence_counter': seq})
            vars_ = {'seq': seq.t}
            vars_.update({f'p{i}': b.t for i, b in enumerate(bs)})
            return [enc, 126720, 3, 1, 255, SBytes(bs)], vars_

        def nat_fp(n=n, **k):
            e = E.NMEA2000Encoder()
            e.sequence_counter = k['seq']
            return [bytes(f) for f in e._encode_fast_message(126720, 3, 1, 255, bytes(k[f'p{i}'] for i in range(n)))]
        smp = [dict({'seq': rnd.getrandbits(3)}, **{f'p{i}': rnd.getrandbits(8) for i in range(n)}) for _ in range(max(8, N // 40))]
        results.append((f'encoder._encode_fast_message[n={n}]', differential(f'_encode_fast_message[{n}]', 'encoder.NMEA2000Encoder._encode_fast_message', mk_fp, nat_fp, smp, log)))
    for nm, (n, b, paths) in results:
        total += n
        bad += b
        print(f'  A {nm}: {n} inputs compared over {paths} symbolic path(s), {b} disagreement(s)')
    return total, bad


def part_b(log, tier):
    """Operators on symbolic ints vs CPython."""
    from .values import Sym, mk_int
    import operator
    rnd = random.Random(5)
    a, b = z3.Int('a'), z3.Int('b')
    sa, sb = Sym(a, 'int'), Sym(b, 'int')
    ops = [('//', operator.floordiv), ('%', operator.mod), ('+', operator.add), ('-', operator.sub), ('*', operator.mul), ('&', operator.and_), ('|', operator.or_),
           ('^', operator.xor), ('<', operator.lt), ('<=', operator.le), ('==', operator.eq)]
    vals = [-17, -8, -1, 0, 1, 7, 8, 255, 256, 65535, (1 << 31), -(1 << 31), (1 << 63) - 1] + [rnd.randrange(-1 << 40, 1 << 40) for _ in range(30)]
    n = bad = 0
    from . import values as V
    V._CTX[0] = None
    for sym, f in ops:
        for const_side in ('right', 'left'):
            for c in (-7, -1, 1, 2, 3, 8, 255, 256, 1 << 16):
                if sym in ('&', '|', '^') and c < 0:
                    continue
                try:
                    term = f(sa, c) if const_side == 'right' else f(c, sa)
                except Exception as e:  # noqa  (unsupported combination: not an error of the encoding)
                    continue
                for x in vals:
                    if sym in ('&', '|', '^') and x < 0:
                        continue
                    try:
                        want = f(x, c) if const_side == 'right' else f(c, x)
                    except ZeroDivisionError:
                        continue
                    try:
                        got = _eval(term, [(a, z3.IntVal(x))]) if isinstance(term, Sym) else term
                    except ValueError:
                        continue
                    n += 1
                    if _norm(got) != _norm(want):
                        bad += 1
                        if bad < 6:
                            log(f'  B: {"a" if const_side == "right" else c} {sym} {c if const_side == "right" else "a"} at a={x}: engine {got} vs CPython {want}')
    # shifts by constants
    for k in (0, 1, 3, 8, 13, 32):
        for x in [v for v in vals if v >= 0]:
            for sym, f in (('<<', operator.lshift), ('>>', operator.rshift)):
                term = f(sa, k)
                got = _eval(term, [(a, z3.IntVal(x))]) if isinstance(term, Sym) else term
                n += 1
                if got != f(x, k):
                    bad += 1
                    log(f'  B: a {sym} {k} at a={x}: engine {got} vs CPython {f(x, k)}')
    print(f'  B operators: {n} evaluations compared, {bad} disagreement(s)')
    return n, bad


def part_c(log, tier):
    """Assumed facts about CPython floats, round, str and the token axioms, sampled with exact arithmetic."""
    rnd = random.Random(11)
    U = Fraction(1, 2 ** 53)
    n = bad = 0
    N = 3000 if tier == 'quick' else 60000
    for _ in range(N):
        x = rnd.choice([rnd.uniform(-1e12, 1e12), rnd.uniform(-10, 10), float(rnd.randrange(-1 << 52, 1 << 52)), rnd.random() * 1e-7, 10.0 ** rnd.randrange(-9, 13)])
        y = rnd.choice([rnd.uniform(-1e6, 1e6), 0.1, 0.01, 1e-7, 0.0001, 3600.0, 1852.0, 6894.76, 273.15, float(rnd.randrange(1, 1 << 20))])
        for nm, fl, ex in (('mul', x * y, Fraction(x) * Fraction(y)), ('add', x + y, Fraction(x) + Fraction(y)), ('sub', x - y, Fraction(x) - Fraction(y)),
                           ('div', x / y, Fraction(x) / Fraction(y)) if y != 0 else ('mul', 0.0, Fraction(0))):
            n += 1
            if abs(Fraction(fl) - ex) > U * abs(ex) and abs(ex) > Fraction(1, 2 ** 1000):
                bad += 1
                log(f'  C float model S: {nm}({x!r}, {y!r}) = {fl!r} off by more than 2^-53 relative')
        r = round(x)
        n += 1
        if abs(Fraction(r) - Fraction(x)) > Fraction(1, 2) or not isinstance(r, int):
            bad += 1
            log(f'  C round({x!r}) = {r!r}')
        for nd in (1, 2):
            r2 = round(x, nd)
            n += 1
            if abs(Fraction(r2) - Fraction(x)) > Fraction(1, 2 * 10 ** nd) + 4 * U * abs(Fraction(x)) + Fraction(1, 10 ** 300):
                bad += 1
                log(f'  C round({x!r}, {nd}) = {r2!r}')
        k = rnd.randrange(-(1 << 53) + 1, 1 << 53)
        n += 1
        if Fraction(float(k)) != k:
            bad += 1
            log(f'  C int->float not exact for {k}')
        n += 1
        if '_' in str(k) or '_' in str(x) or '_' in str(None):
            bad += 1
            log(f'  C str() with an underscore: {k} {x}')
        v = rnd.getrandbits(rnd.choice([8, 16, 29, 32]))
        for spec in ('02X', '02x', '08X', '05X', 'x'):
            t = format(v, spec)
            n += 1
            if not all(c in '0123456789abcdefABCDEF' for c in t) or int(t, 16) != v or int(t.lower(), 16) != v or int(t.upper(), 16) != v:
                bad += 1
                log(f'  C token axiom A1/A2: format({v}, {spec!r}) = {t!r}')
        toks = [format(rnd.getrandbits(8), '02X') for _ in range(rnd.randrange(1, 9))]
        n += 1
        if ' '.join(toks).split() != toks or ','.join(toks).split(',') != toks or (' '.join(toks) + '\r\n').strip().split(' ') != toks:
            bad += 1
            log(f'  C token axiom A3: {toks}')
    import math
    for x in (0.0, 1.0, -1.0, math.pi, 2 * math.pi, 1e-9, 6.5535, 3.14159):
        n += 1
        if abs(Fraction(math.degrees(x)) - Fraction(x) * 180 / Fraction(math.pi)) > 4 * U * abs(Fraction(x) * 180 / Fraction(math.pi)) + Fraction(1, 10 ** 300):
            bad += 1
            log(f'  C math.degrees({x})')
    print(f'  C assumed facts about CPython: {n} samples, {bad} disagreement(s)')
    return n, bad


def part_d(log, tier):
    """Obligations bite: wrong contracts are refuted (and replay); broken code is caught; unchanged code passes."""
    from .tasks import SpecTask
    from contracts.headers import ExtractHeader, BuildHeader
    from contracts.utils_c import Checksum, DecodeInt
    from .verify import Return
    n = bad = 0

    def perturbed(spec_cls, *a):
        class Wrong(spec_cls):
            def outcome(self, *args, **kw):
                alts = super().outcome(*args, **kw)
                out = []
                for alt in alts:
                    if alt.kind == 'return':
                        v = alt.value
                        if isinstance(v, tuple):
                            v = (v[0] + 1,) + tuple(v[1:])
                        elif v is not None:
                            v = v + 1
                        alt = Return(v, guard=alt.guard, label=getattr(alt, 'label', ''))
                    out.append(alt)
                return out
        w = Wrong(*a)
        w.prop = 'SELFTEST'
        return w
    for cls, args in ((ExtractHeader, ()), (BuildHeader, ()), (Checksum, (20,)), (DecodeInt, ())):
        try:
            out = SpecTask(perturbed(cls, *args)).run(tier)
        except Exception as e:  # noqa
            log(f'  D wrong contract {cls.__name__}: checker error {type(e).__name__}: {e}')
            bad += 1
            continue
        n += 1
        ref = [r for r in out['results'] if r['status'] == 'refuted']
        conf = [r for r in ref if (r.get('replay') or {}).get('confirmed')]
        print(f'  D wrong contract {cls.__name__}: {len(out["results"])} obligations, {len(ref)} refuted, {len(conf)} replayed on the real code')
        if not ref or not conf:
            bad += 1
            log(f'  D a deliberately wrong contract of {cls.__name__} was NOT refuted and replayed - obligations are vacuous')
    # broken code: stored seeded changes on scratch copies
    seeds = [('C05-a', 'C05'), ('C17-b', 'C17'), ('C18-a', 'C18'), ('C14-a', 'C14'), ('C19-b', 'C19')]
    if tier != 'quick':
        seeds = sorted((d, d[:3]) for d in os.listdir(os.path.join(VERIF, 'seeded')) if os.path.isfile(os.path.join(VERIF, 'seeded', d, 'patch.diff')))
    from .frontend import REPO
    tmp = tempfile.mkdtemp(prefix='pyvc-selftest-')
    try:
        def scratch(name, patch):
            d = os.path.join(tmp, name)
            os.makedirs(os.path.join(d, 'repo'))
            subprocess.run(f'git -C {REPO} archive HEAD | tar -x -C {d}/repo', shell=True, check=True)
            # the working tree, not HEAD, is what is under test: copy tracked modifications over
            subprocess.run(f'cd {REPO} && git diff HEAD --name-only | while read f; do [ -f "$f" ] && cp "$f" {d}/repo/"$f"; done', shell=True, check=False)
            if patch:
                p = subprocess.run(['patch', '-p1', '-s', '-d', os.path.join(d, 'repo'), '-i', patch], capture_output=True, text=True)
                if p.returncode != 0:
                    return None
            return d

        def run_check(d, prop):
            env = dict(os.environ, NMEA2000_REPO=os.path.join(d, 'repo'), PYVC_OUT=d)
            p = subprocess.run([os.path.join(VERIF, 'check'), prop, '--tier', 'quick'], capture_output=True, text=True, env=env, cwd=VERIF)
            return p.returncode, p.stdout
        procs = []
        import concurrent.futures as cf
        with cf.ThreadPoolExecutor(4) as pool:
            futs = {}
            for sd, prop in seeds:
                d = scratch(sd, os.path.join(VERIF, 'seeded', sd, 'patch.diff'))
                if d is None:
                    print(f'  D seeded change {sd}: patch does not apply to the working tree (skipped)')
                    continue
                futs[pool.submit(run_check, d, prop)] = (sd, prop)
            clean = scratch('clean', None)
            for prop in sorted({p for _, p in seeds} if tier == 'quick' else {'C05', 'C17', 'C18'}):
                futs[pool.submit(run_check, clean, prop)] = ('unchanged', prop)
            for f in cf.as_completed(futs):
                sd, prop = futs[f]
                rc, outp = f.result()
                n += 1
                last = outp.strip().splitlines()[-1][:150] if outp.strip() else ''
                if sd == 'unchanged':
                    ok = rc == 0
                    print(f'  D unchanged copy -> {prop}: exit {rc}{"" if ok else "  <-- expected 0"}   {last}')
                else:
                    ok = rc == 1 and 'VIOLATION property=' + prop in outp
                    print(f'  D seeded change {sd} -> {prop}: exit {rc}{"" if ok else "  <-- expected 1 with a VIOLATION line"}   {last}')
                if not ok:
                    bad += 1
                    log(f'  D {sd} -> {prop}: exit {rc}')
    finally:
        subprocess.run(['rm', '-rf', tmp])
    return n, bad


def part_e(log, tier):
    """Pieces added after the seed rounds: the model search by evaluation (a returned assignment must satisfy the formula;
    an unsatisfiable formula must give none), `table.get(k) is None` on constant tables, bytes()/bytearray() copies of
    abstract buffers, unknown-content containers (an element read back is unconstrained, a miss is possible)."""
    import z3
    from .solve import guess_model
    n = bad = 0
    x, y, b = z3.Int('x'), z3.Int('y'), z3.Bool('b')
    rnd = random.Random(5)
    forms = []
    for _ in range(60 if tier == 'quick' else 600):
        k, m = rnd.randrange(1, 1 << 20), rnd.randrange(2, 300)
        forms.append(z3.And(x >= 0, x < (1 << 20), y >= 0, y < 256, z3.BV2Int(z3.Int2BV(x * 16, 30) | z3.Int2BV(y, 30)) % m != (x * 16 + y) % m, z3.Or(b, x != k)))      # overlapping bits: satisfiable
    unsat = [z3.And(x >= 0, x < 10, x * x == 50), z3.And(x > 3, x < 3), z3.And(b, z3.Not(b)), z3.And(x >= 0, x <= 255, x % 16 == 10, x % 2 == 1)]
    forms += [z3.And(x >= 0, x < 10, x * x == 49), z3.And(x >= 0, x <= 255, (x / 16) % 16 == 15, x % 16 == 10)]
    found = 0
    for f in unsat:
        n += 1
        if guess_model(f, None) is not None:
            bad += 1
            log(f'  E guess_model found an assignment for the unsatisfiable {f}')
    for f in forms:
        gm = guess_model(f, None)
        n += 1
        found += gm is not None
        s = z3.Solver()
        s.set('timeout', 20000)
        s.add(f)
        if gm is not None:
            for kk, v in gm.items():
                s.add((z3.Bool(kk) == v) if isinstance(v, bool) else (z3.Int(kk) == v))
            if s.check() != z3.sat:
                bad += 1
                log(f'  E guess_model returned an assignment that is not a model: {gm} for {f}')
    # engine vs CPython on small functions that use the new pieces
    src = """
TABLE = {"a": 1, "b": 2, "c": 0}

def look(k):
    r = TABLE.get(k, None)
    if r is None:
        raise KeyError(k)
    return r

def look2(k):
    r = TABLE.get(k)
    return -1 if r is None else r + 10
"""
    ns = {}
    exec(src, ns)
    for k in ['a', 'b', 'c', 'd', '', 'A', None]:
        for fn in ('look', 'look2'):
            n += 1
            try:
                want = ('return', ns[fn](k))
            except Exception as e:  # noqa
                want = ('raise', type(e).__name__)
            from .abstract import TableGet
            tg = TableGet(ns['TABLE'], k, None, 'TABLE')

            class _Ex:
                @staticmethod
                def equals(a, bb):
                    return a == bb
            isn = tg.is_none(_Ex)
            isn = bool(isn) if isinstance(isn, bool) else z3.is_true(z3.simplify(isn.t if hasattr(isn, 't') else isn))
            if isn != (ns['TABLE'].get(k) is None):
                bad += 1
                log(f'  E TableGet.is_none({k!r}) = {isn}, CPython says {ns["TABLE"].get(k) is None}')
    n += 1
    if found < len(forms) // 2:
        bad += 1
        log(f'  E guess_model found a model for only {found} of {len(forms)} satisfiable formulas (the search is not doing its job)')
    print(f'  E model search / table lookups: {n} cases, {bad} disagreement(s); models found for {found} of {len(forms)} satisfiable formulas')
    return n, bad


def main(tier='quick'):
    t0 = time.time()
    from . import tasks as _t  # noqa: F401  (inserts the repository into sys.path)
    problems = []
    log = problems.append
    total = bad = 0
    for part in (part_a, part_b, part_c, part_e, part_d):
        try:
            n, b = part(log, tier)
        except Exception:  # noqa
            import traceback
            log(f'{part.__name__}: checker error\n{traceback.format_exc()}')
            n, b = 0, 1
        total += n
        bad += b
    for p in problems:
        print(p)
    print(f'selftest [{tier}] comparisons={total} disagreements={bad} wall_s={time.time() - t0:.1f} exit={1 if bad else 0}')
    return 1 if bad else 0
