"""Abstract collections of unknown size: only membership, emptiness and length are observable."""
from __future__ import annotations
import z3
from .values import Sym, mk_bool, mk_int, int_term, Unsupported
from .sstr import SStr, Atom, str_const


class AbsSet:
    """A list/set of ints or of strings with unknown contents.  `x in s` is an uninterpreted predicate,
    len(s) an uninterpreted non-negative integer with (x in s) => len(s) > 0."""
    def __init__(self, name, kind):
        self.name = name
        self.kind = kind
        dom = z3.IntSort() if kind == 'int' else Atom.S
        self.pred = z3.Function(f'in[{name}]', dom, z3.BoolSort())
        self.n = z3.Int(f'len[{name}]')

    def __repr__(self):
        return f'<{self.kind} collection {self.name}>'

    def member_term(self, x):
        if self.kind == 'int':
            if isinstance(x, bool) or not isinstance(x, (int, Sym)) or (isinstance(x, Sym) and x.ty != 'int'):
                return None
            return self.pred(int_term(x))
        if isinstance(x, str):
            return self.pred(str_const(x))
        if isinstance(x, SStr) and len(x.parts) == 1 and isinstance(x.parts[0], Atom):
            return self.pred(x.parts[0].z3())
        return None

    def facts(self, app=None):
        fs = [self.n >= 0]
        if app is not None:
            fs.append(z3.Implies(app, self.n > 0))
        return fs

    def sym_contains(self, ex, x):
        x = ex.concretize(x)
        t = self.member_term(x)
        if t is None:
            if isinstance(x, (int, str, SStr, Sym)):
                return False        # an int is never equal to a str element and vice versa
            raise Unsupported(f'membership of {x!r} in {self.name}')
        for f in self.facts(t):
            ex.assume(f)
        return mk_bool(t)

    def sym_len(self, ex):
        ex.assume(self.n >= 0)
        return mk_int(self.n)

    def nonempty(self):
        return self.n > 0

    def has(self, x):
        """z3 Bool for use in specifications."""
        t = self.member_term(x)
        return z3.BoolVal(False) if t is None else t


_STORED_KIND = {}


class HavocState:
    """A module-level object that some function of the package mutates: its content at the time of a call is unknown
    (it depends on the history of the process), so every observation of it is an unconstrained value."""
    def __init__(self, name):
        self.name = name
        self._n = 0
        self._memo = {}

    def __repr__(self):
        return f'<module-level state {self.name}: unknown content>'

    def _fresh(self, tag):
        self._n += 1
        return z3.Bool(f'{self.name}.{tag}!{self._n}')

    def sym_contains(self, ex, x):
        x = ex.concretize(x)
        key = x.t.sexpr() if isinstance(x, Sym) else repr(x)
        if key not in self._memo:
            self._memo[key] = self._fresh('has')
        return mk_bool(self._memo[key])

    def _learn(self, v):
        # the kind of value the code stores into this container (learned on the miss paths, which are explored first):
        # an element read later is an unconstrained value of that kind
        from .values import Sym
        if isinstance(v, bool) or (isinstance(v, Sym) and v.ty == 'bool'):
            _STORED_KIND.setdefault(self.name, 'bool')
        elif isinstance(v, int) or (isinstance(v, Sym) and v.ty == 'int'):
            _STORED_KIND.setdefault(self.name, 'int')

    def _element(self, ex):
        from .symex import Opaque
        kind = _STORED_KIND.get(self.name)
        self._n += 1
        if kind == 'int':
            return mk_int(z3.Int(f'{self.name}[?]!{self._n}'))
        if kind == 'bool':
            return mk_bool(z3.Bool(f'{self.name}[?]!{self._n}'))
        return Opaque(f'{self.name}[?]')

    def sym_getitem(self, ex, k):
        from .symex import PyRaise, make_exc
        if ex.branch(z3.Not(self._fresh('hit')), tag='havoc-miss'):
            raise PyRaise(make_exc('KeyError', 'key'))
        return self._element(ex)

    def sym_setitem(self, ex, k, v):
        self._learn(v)
        self._memo.clear()

    def sym_delitem(self, ex, k):
        self._memo.clear()

    def sym_len(self, ex):
        self._n += 1
        n = z3.Int(f'{self.name}.len!{self._n}')
        ex.assume(n >= 0)
        return mk_int(n)

    def truth(self, ex):
        return ex.branch(self._fresh('nonempty'), tag='havoc-truth')

    def sym_method(self, ex, name):
        from .symex import BoundBuiltin, Opaque
        if name in ('add', 'discard', 'remove', 'update', 'clear', 'append', 'extend', 'insert', 'sort', 'reverse'):
            def mut(ex, me, *a, **k):
                me._memo.clear()
            return BoundBuiltin(f'{self.name}.{name}', mut, self)
        if name in ('get', 'pop', 'setdefault'):
            def get(ex, me, k, default=None):
                if name != 'get':
                    me._memo.clear()
                if name == 'setdefault':
                    me._learn(default)
                if ex.branch(z3.Not(me._fresh('hit')), tag='havoc-miss'):
                    return default
                return me._element(ex)
            return BoundBuiltin(f'{self.name}.{name}', get, self)
        return None
