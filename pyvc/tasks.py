"""Worker-side tasks: check one function spec, or one group of lemmas."""
from __future__ import annotations
import importlib
import os
import time
import traceback
from .frontend import Repo
from .report import Task
from .solve import discharge, Obligation
from .floats import has_float_ops
from .verify import build_obligations
from .values import veq

import sys as _sys
from .frontend import REPO as _REPO_PATH
if _sys.path[0] != _REPO_PATH:
    _sys.path.insert(0, _REPO_PATH)      # native replays import nmea2000 from the tree the VCs came from

_REPO = [None]


def repo():
    if _REPO[0] is None:
        _REPO[0] = Repo()
    return _REPO[0]


def budget(tier):
    return 90 if tier == "quick" else 300      # last-resort budget per obligation (wall clock): generous, so that verdicts do not flip on a busy machine


def smt_size(ob):
    try:
        return len(ob.formula().sexpr())
    except Exception:
        return -1


def result_dict(r, with_size=True):
    d = r.to_json()
    if with_size:
        d['smt_size'] = smt_size(r.ob)
    return d


def resolve_real(dotted):
    """The real, importable function object for 'module.Class.func' inside the nmea2000 package."""
    parts = dotted.split('.')
    from .frontend import REPO
    import sys
    if sys.path[0] != REPO:
        sys.path.insert(0, REPO)     # replay on the same tree the verification conditions came from
    mod = importlib.import_module('nmea2000.' + parts[0])
    obj = mod
    for p in parts[1:]:
        obj = getattr(obj, p)
    return obj


def native_outcome(fn, args, kwargs):
    try:
        return ('return', fn(*args, **kwargs))
    except BaseException as e:  # noqa
        return ('raise', type(e).__name__, str(e)[:200])


def exc_is(name, expected):
    import builtins
    exp = expected if isinstance(expected, (list, tuple)) else [expected]
    cls = getattr(builtins, name, None)
    for e in exp:
        ec = getattr(builtins, e, None)
        if name == e:
            return True
        if cls is not None and ec is not None and isinstance(cls, type) and issubclass(cls, ec):
            return True
    return False


def native_replay(spec, model):
    """Run the real function on the solver's counterexample and evaluate the contract natively."""
    try:
        inp = spec.native_inputs(model) if hasattr(spec, 'native_inputs') else dict(model)
        fn = resolve_real(spec.func)
        args, kwargs = spec.native_call_args(inp) if hasattr(spec, 'native_call_args') else (list(inp.values()), {})
        got = native_outcome(fn, args, kwargs)
        if hasattr(spec, 'native_pre') and not spec.native_pre(**inp):
            return {'confirmed': False, 'inputs': _j(inp), 'note': 'counterexample does not satisfy the precondition natively'}
        alts = spec.outcome(**inp)
        exp = None
        for a in alts:
            if a.guard is True or (a.guard is not False and bool(a.guard)):
                exp = a
                break
        if exp is None:
            return {'confirmed': True, 'inputs': _j(inp), 'observed': _j(got), 'expected': 'no contract alternative applies (contract not total here)'}
        if exp.kind == 'raise':
            ok = got[0] == 'raise' and exc_is(got[1], exp.exc)
            expd = ['raise', exp.exc]
        else:
            ok = got[0] == 'return' and bool(veq(spec.native_view(got[1]) if hasattr(spec, 'native_view') else got[1], exp.value))
            expd = ['return', exp.value]
        if ok and hasattr(spec, 'native_extra'):
            ok2, why = spec.native_extra(inp, got)
            if not ok2:
                return {'confirmed': True, 'inputs': _j(inp), 'observed': _j(got), 'expected': why}
        return {'confirmed': not ok, 'inputs': _j(inp), 'observed': _j(got), 'expected': _j(expd),
                'how': f'nmea2000.{spec.func}(*{_j(args)}) under /venv python on the working tree'}
    except Exception:
        return {'confirmed': None, 'note': 'replay harness error: ' + traceback.format_exc()[-600:]}


def _j(v):
    if isinstance(v, (int, float, str, bool, type(None))):
        return v
    if isinstance(v, (bytes, bytearray)):
        return {'bytes': bytes(v).hex()}
    if isinstance(v, (list, tuple)):
        return [_j(x) for x in v]
    if isinstance(v, dict):
        return {str(k): _j(x) for k, x in v.items()}
    return repr(v)[:300]


class SpecTask(Task):
    def __init__(self, spec, contracts=None):
        self.spec = spec
        self.contracts = contracts
        self.name = f'{spec.prop}:{spec.func}'

    def run(self, tier):
        rep = build_obligations(repo(), self.spec, self.contracts)
        out = {'results': [], 'functions': [], 'notes': sorted(rep.dropped), 'bounded': []}
        if rep.info is not None:
            d = rep.info.describe()
            d['paths'] = rep.paths
            d['symex_seconds'] = round(rep.seconds, 3)
            out['functions'].append(d)
        if rep.error:
            out['error'] = rep.error
            fb = self.fallback(tier)
            if fb is not None:
                out['results'].extend(fb['results'])
                out['bounded'].append(fb['note'])
            return out
        if rep.paths == 0:
            out['error'] = f'no feasible path through {self.spec.func} (precondition unsatisfiable?)'
            return out
        need_fallback = False
        for ob in rep.obligations:
            r = discharge(ob, budget(tier))
            d = result_dict(r)
            d['function'] = self.spec.func
            if r.status == 'refuted':
                note = ob.meta.get('note')
                if note:
                    d['reason'] = note
                if r.model is not None:
                    d['replay'] = native_replay(self.spec, r.model)
                if not (d.get('replay') or {}).get('confirmed') and ob.float_model is None and has_float_ops(ob.formula()):
                    # the counterexample lives in the uninterpreted-float abstraction: refine to the standard model
                    ob.float_model = 'S'
                    r2 = discharge(ob, budget(tier))
                    d2 = result_dict(r2)
                    d2['function'] = self.spec.func
                    d2['refined'] = 'float model S after a spurious counterexample in the uninterpreted abstraction'
                    if r2.status == 'refuted' and r2.model is not None:
                        if note:
                            d2['reason'] = note
                        d2['replay'] = native_replay(self.spec, r2.model)
                    d = d2
                if d['status'] == 'refuted' and not (d.get('replay') or {}).get('confirmed'):
                    need_fallback = True
            elif r.status != 'discharged':
                need_fallback = True        # the solvers gave up: look for a failing input natively (bounded) before reporting 'undecided'
            out['results'].append(d)
        if need_fallback:
            fb = self.fallback(tier)
            if fb is not None:
                out['results'].extend(fb['results'])
                out['bounded'].append(fb['note'])
        return out

    def fallback(self, tier):
        """Bounded fall-back when the function left the modelled subset: evaluate the executable
        contract natively on the spec's sample inputs (never counted as discharged)."""
        if not hasattr(self.spec, 'native_samples'):
            return None
        n = 0
        res = []
        for inp in self.spec.native_samples(tier):
            n += 1
            rp = native_replay(self.spec, inp)
            if rp.get('confirmed'):
                res.append({'obligation': f'{self.spec.prop}/{self.spec.func}/bounded-fallback', 'kind': 'bounded',
                            'status': 'refuted', 'backend': 'native-contract', 'seconds': 0.0, 'model': _j(inp),
                            'replay': rp, 'function': self.spec.func})
                break
        return {'results': res, 'note': {'function': self.spec.func, 'kind': 'native contract evaluation (function outside subset)',
                                         'inputs_tried': n, 'label': 'bounded'}}


class LemmaTask(Task):
    """builder(tier) -> list of (Obligation, replay_fn | None)."""
    def __init__(self, name, builder):
        self.name = name
        self.builder = builder

    def run(self, tier):
        out = {'results': [], 'functions': [], 'notes': [], 'bounded': []}
        for item in self.builder(tier):
            ob, rfn = item if isinstance(item, tuple) else (item, None)
            tmo = ob.meta.get('timeout', budget(tier))
            r = discharge(ob, tmo, tactic=ob.meta.get('tactic'))
            d = result_dict(r)
            if r.status == 'refuted' and rfn is not None and r.model is not None:
                try:
                    d['replay'] = rfn(r.model)
                except Exception:
                    d['replay'] = {'confirmed': None, 'note': 'replay harness error: ' + traceback.format_exc()[-500:]}
            out['results'].append(d)
        return out


class RawSmtTask(Task):
    """Lemmas given directly as SMT-LIB text (string theory): discharged by the cvc5 / z3 command-line solvers."""
    def __init__(self, name, items):
        self.name = name
        self.items = items     # list of (obligation name, smt2 text expecting unsat)

    def run(self, tier):
        import subprocess
        import tempfile
        import time as _t
        out = {'results': [], 'functions': [], 'notes': [], 'bounded': []}
        for oname, text in self.items:
            t0 = _t.time()
            status, backend = 'unknown', 'cvc5-cli'
            for bname, cmd in (('cvc5-cli', ['/usr/bin/cvc5', '--strings-exp', '--tlimit=60000']), ('z3-5.1-cli', ['z3-new', '-T:60']), ('z3-4.8-cli', ['/usr/bin/z3', '-T:60'])):
                with tempfile.NamedTemporaryFile('w', suffix='.smt2', delete=False) as f:
                    f.write(text)
                    path = f.name
                try:
                    p = subprocess.run(cmd + [path], capture_output=True, text=True, timeout=90)
                    ans = (p.stdout.strip().splitlines() or ['unknown'])[0].strip()
                except (subprocess.TimeoutExpired, FileNotFoundError):
                    ans = 'unknown'
                finally:
                    os.unlink(path)
                if ans == 'unsat':
                    status, backend = 'discharged', bname
                    break
                if ans == 'sat':
                    status, backend = 'refuted', bname
                    break
            out['results'].append({'obligation': oname, 'kind': 'lemma', 'status': status, 'backend': backend, 'seconds': round(_t.time() - t0, 3),
                                   'smt_size': len(text), **({'replay': {'confirmed': None, 'note': 'string lemma refuted by the solver (no model extraction through the CLI)'}} if status == 'refuted' else {})})
        return out


def with_prop(spec, prop):
    """The same function contract checked as part of another property (obligation names carry that property's id)."""
    spec.prop = prop
    return spec
