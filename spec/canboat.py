"""Specification compiler: reads /repo/canboat.json on every run and produces, per PGN definition, the
expected message header and per field the expected constant attributes and the expected value term.
Written from the canboat schema (BitOffset, BitLength, Signed, Resolution, Offset, RangeMin/Max,
Lookup*Enumeration, Match, PartOfPrimaryKey, Fallback, Type, Length, TransmissionInterval), not from
python.PGNs.j2.  Library conventions that are accepted (not derivable from the schema): function names
decode_pgn_<PGN>[_<Id>], the id 'reserved_<BitOffset>' of RESERVED fields."""
from __future__ import annotations
import json
import os
from collections import OrderedDict
from decimal import Decimal
from fractions import Fraction
from pyvc.frontend import REPO

NUMERIC = ('NUMBER', 'MMSI', 'PGN', 'DURATION')
SUPPORTED = NUMERIC + ('LOOKUP', 'BITLOOKUP', 'STRING_FIX', 'STRING_LZ', 'STRING_LAU', 'FLOAT', 'TIME', 'DATE',
                       'RESERVED', 'SPARE', 'INDIRECT_LOOKUP', 'BINARY')
ENCODABLE = ('NUMBER', 'PGN', 'RESERVED', 'FLOAT', 'LOOKUP', 'DATE', 'TIME', 'DURATION')


def frac(x):
    if x is None:
        return None
    if isinstance(x, Decimal):
        return Fraction(x)
    return Fraction(x)


class Field:
    def __init__(self, d, defn):
        self.raw = d
        self.defn = defn
        self.order = d['Order']
        self.fid = d['Id']
        self.name = d['Name']
        self.description = d.get('Description')
        self.unit = d.get('Unit')
        self.pq = d.get('PhysicalQuantity')
        self.type = d['FieldType']
        self.L = d.get('BitLength')
        self.offset_bits = d.get('BitOffset')
        self.signed = bool(d.get('Signed', False))
        self.res = frac(d.get('Resolution'))
        self.off = frac(d.get('Offset')) if d.get('Offset') is not None else Fraction(0)
        self.rmin = frac(d.get('RangeMin'))
        self.rmax = frac(d.get('RangeMax'))
        self.lookup = d.get('LookupEnumeration')
        self.bitlookup = d.get('LookupBitEnumeration')
        self.indirect = d.get('LookupIndirectEnumeration')
        self.indirect_order = d.get('LookupIndirectEnumerationFieldOrder')
        self.match = d.get('Match')
        self.pk = bool(d.get('PartOfPrimaryKey', False))
        self.length_field = d.get('BitLengthField')
        self.variable = bool(d.get('BitLengthVariable', False))

    @property
    def expected_id(self):
        if self.type == 'RESERVED':
            # library convention (accepted): 'reserved_<BitOffset>'; a RESERVED field without BitOffset gets 'reserved_'
            return 'reserved_' + (str(self.offset_bits) if self.offset_bits is not None else '')
        return self.fid

    @property
    def supported(self):
        return self.type in SUPPORTED

    # literal forms as the double / int a Python program would use for the DB decimals
    def lit(self, q):
        if q is None:
            return None
        if q.denominator == 1:
            return int(q)
        return float(q)

    @property
    def excess_k(self):
        """canboat: a field with an Offset is stored in excess-K notation: unsigned raw + Offset."""
        return self.off != 0

    def raw_range(self):
        """[lo, hi] raw integers n whose exact value n*Res+Off lies in [RangeMin, RangeMax] (None if no range)."""
        import math
        if self.rmin is None or self.rmax is None or not self.res:
            return None
        signed = self.signed and not self.excess_k
        lo_rep = -(1 << (self.L - 1)) if signed else 0
        hi_rep = ((1 << (self.L - 1)) - 1) if signed else (1 << self.L) - 1
        lo = math.ceil((self.rmin - self.off) / self.res)
        hi = math.floor((self.rmax - self.off) / self.res)
        return max(lo, lo_rep), min(hi, hi_rep)


class Definition:
    def __init__(self, d, index):
        self.raw = d
        self.index = index
        self.pgn = d['PGN']
        self.id = d['Id']
        self.description = d['Description']
        self.type = d['Type']
        self.fallback = bool(d.get('Fallback', False))
        self.length = d.get('Length')
        self.interval = d.get('TransmissionInterval')
        self.fields = [Field(f, self) for f in d.get('Fields', [])]
        self.group = None

    @property
    def match_fields(self):
        return [f for f in self.fields if f.match is not None]

    @property
    def suffix(self):
        g = self.group
        if len(g) > 1 and any(d.match_fields for d in g):
            return f'{self.pgn}_{self.id}'
        return f'{self.pgn}'

    @property
    def first_unsupported(self):
        for i, f in enumerate(self.fields):
            if not f.supported:
                return i
        return None

    @property
    def encodable(self):
        return all(f.type in ENCODABLE and f.L is not None and f.offset_bits is not None for f in self.fields)


class DB:
    def __init__(self, path=None):
        path = path or os.path.join(REPO, 'canboat.json')
        self.json = json.load(open(path), parse_float=Decimal)
        self.defs = [Definition(d, i) for i, d in enumerate(self.json['PGNs'])]
        self.groups = OrderedDict()
        for d in self.defs:
            self.groups.setdefault(d.pgn, []).append(d)
        for d in self.defs:
            d.group = self.groups[d.pgn]
        self.lookups = {e['Name']: {v['Value']: v['Name'] for v in e['EnumValues']} for e in self.json['LookupEnumerations']}
        self.bitlookups = {e['Name']: {v['Bit']: v['Name'] for v in e['EnumBitValues']} for e in self.json['LookupBitEnumerations']}
        self.indirect = {e['Name']: {f"{v['Value1']}_{v['Value2']}": v['Name'] for v in e['EnumValues']}
                         for e in self.json['LookupIndirectEnumerations']}

    def selectable(self, d):
        """False for a definition the dispatch specification can never select (a group without any match field:
        the first non-fallback definition matches vacuously and shadows the rest)."""
        g = d.group
        if len(g) > 1 and not any(x.match_fields for x in g):
            first = next((x for x in g if not x.fallback), g[0])
            return d is first
        return True

    def multi_groups(self):
        return [(pgn, g) for pgn, g in self.groups.items() if len(g) > 1 and any(d.match_fields for d in g)]

    def dispatch(self, pgn, bits_of):
        """Reference dispatch: first non-fallback definition in DB order all of whose match fields equal the
        payload bits; else the fallback; else None.  bits_of(offset, length) -> int"""
        g = self.groups[pgn]
        for d in g:
            if d.fallback:
                continue
            if all(bits_of(f.offset_bits, f.L) == int(f.match) for f in d.match_fields):
                return d
        for d in g:
            if d.fallback:
                return d
        return None


def sample_payload(d, variant=0):
    """A concrete payload (bytes, little-endian bit numbering as on the wire) for definition d: match fields carry
    their match value, every other fixed-position field a small in-range raw value depending on `variant`; a
    definition with a variable-length or position-less field gets the fixed prefix only.  Used by native batteries
    (bounded stand-ins), never by proofs."""
    n = 0
    end = 0
    for f in d.fields:
        if f.L is None or f.offset_bits is None or f.variable:
            break
        if f.match is not None:
            raw = int(f.match)
        elif f.type in ('RESERVED', 'SPARE'):
            raw = (1 << f.L) - 1
        elif f.type in ('STRING_FIX',):
            raw = int.from_bytes((b'AB' * f.L)[:f.L // 8], 'little') if f.L % 8 == 0 else 0
        elif f.type in ('NUMBER', 'DURATION', 'TIME', 'DATE', 'MMSI', 'PGN', 'ISO_NAME', 'DYNAMIC_FIELD_KEY', 'FIELD_INDEX'):
            rr = f.raw_range() if f.type == 'NUMBER' else None
            lo, hi = rr if rr else (0, (1 << max(f.L - 2, 1)) - 1)
            raw = lo + (3 + 7 * variant) % max(hi - lo, 1) if hi > lo else lo
            if raw < 0:
                raw += 1 << f.L
        elif f.type in ('LOOKUP', 'INDIRECT_LOOKUP', 'BITLOOKUP', 'FIELDTYPE_LOOKUP'):
            raw = variant % 2
        elif f.type in ('FLOAT',):
            import struct
            raw = int.from_bytes(struct.pack('<f', 1.5 + variant), 'little') if f.L == 32 else 0
        else:
            raw = 0
        n |= (raw & ((1 << f.L) - 1)) << f.offset_bits
        end = max(end, f.offset_bits + f.L)
    # variable part: well-formed variable-length fields after the fixed prefix (text 'ABC', 16 bits of binary data)
    fixed = True
    pos = end
    started = False
    for f in d.fields:
        if not started:
            if f.L is None or f.offset_bits is None or f.variable:
                started = True
            else:
                continue
        fixed = False
        if f.type == 'STRING_LZ':
            data = bytes([3]) + b'ABC'
        elif f.type == 'STRING_LAU':
            data = bytes([5, 1]) + b'ABC'
        elif f.type == 'BINARY' and f.length_field:
            lf = d.fields[f.length_field - 1]
            if lf.L is None or lf.offset_bits is None:
                break
            n &= ~(((1 << lf.L) - 1) << lf.offset_bits)
            n |= 16 << lf.offset_bits
            data = bytes([0xA5, 0x5A])
        elif f.L is not None and not f.variable and f.type in ('NUMBER', 'LOOKUP', 'RESERVED', 'SPARE', 'TIME', 'DATE', 'DURATION'):
            raw = ((1 << f.L) - 1) if f.type in ('RESERVED', 'SPARE') else (1 if f.type != 'NUMBER' else 1 + variant % 2)
            n |= raw << pos
            pos += f.L
            continue
        else:
            break
        pos = (pos + 7) // 8 * 8
        n |= int.from_bytes(data, 'little') << pos
        pos += 8 * len(data)
    end = max(end, pos)
    nbytes = max((end + 7) // 8, d.length if isinstance(d.length, int) and d.length <= 223 and d.first_unsupported is None and all(f.L is not None and not f.variable for f in d.fields) else 0)
    nbytes = max(nbytes, 1)
    return n.to_bytes(nbytes, 'little')


def sample_line(d, variant=0, src=9, dst=255, prio=3):
    """canboat plain-text line (whole message) for sample_payload(d)."""
    p = sample_payload(d, variant)
    return f"2022-09-28-11:36:59.668,{prio},{d.pgn},{src},{dst},{len(p)}," + ','.join(f'{b:02x}' for b in p)
