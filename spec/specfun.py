"""Specification functions (the oracles).  Each is written once over the polymorphic operators of
pyvc.values, so the same text evaluates on native Python values (replay) and on symbolic values (z3)."""
from pyvc.values import ite, vand, vor, vnot, implies, Sym


# ---- bits and numbers -------------------------------------------------------------------
def bits(d, o, L):
    if hasattr(d, 'field_bits'):
        return d.field_bits(o, L)
    return (d >> o) & ((1 << L) - 1)


class FieldPayload:
    """A payload seen as independent bit-field variables: bits(d, o, L) is a fresh variable per (o, L).
    Disjoint fields of a payload are independent, so this is exact for the fields of one definition; for
    overlapping requests it over-approximates (sound for proofs; counterexamples are replayed natively)."""
    def __init__(self, prefix='bits'):
        self.vars = {}
        self.prefix = prefix

    def field_bits(self, o, L):
        import z3
        from pyvc.values import mk_int
        k = (o, L)
        if k not in self.vars:
            t = z3.Int(f'{self.prefix}!{o}!{L}')
            self.vars[k] = mk_int(t, (1 << L) - 1)
        return self.vars[k]

    def constraints(self):
        import z3
        return [z3.And(v.t >= 0, v.t < (1 << k[1])) for k, v in self.vars.items()]

    def input_terms(self):
        return {f'{o}:{L}': v.t for (o, L), v in self.vars.items()}

    @staticmethod
    def payload_from_model(model):
        p = 0
        for k, v in model.items():
            if ':' in k and isinstance(v, int):
                o, L = k.split(':')
                p |= (v & ((1 << int(L)) - 1)) << int(o)
        return p


def sbits(d, o, L, signed):
    b = bits(d, o, L)
    if signed:
        return ite(b >= (1 << (L - 1)), b - (1 << L), b)
    return b


def maxraw(L, signed):
    return (1 << (L - 1)) - 1 if signed else (1 << L) - 1


def minraw(L, signed):
    return -(1 << (L - 1)) if signed else 0


# ---- CAN identifier (C05) -----------------------------------------------------------------
def extract(can_id):
    """(pgn, source, destination, priority) of a 29-bit identifier."""
    src = bits(can_id, 0, 8)
    ps = bits(can_id, 8, 8)
    pf = bits(can_id, 16, 8)
    dp = bits(can_id, 24, 2)
    prio = bits(can_id, 26, 3)
    pdu1 = pf < 240
    dst = ite(pdu1, ps, 255)
    pgn = ite(pdu1, dp * 65536 + pf * 256, dp * 65536 + pf * 256 + ps)
    return pgn, src, dst, prio


def build(pgn, src, dst, prio):
    dp = bits(pgn, 16, 2)
    pf = bits(pgn, 8, 8)
    ps = ite(pf < 240, bits(dst, 0, 8), bits(pgn, 0, 8))
    return bits(prio, 0, 3) * (1 << 26) + (dp * 65536 + pf * 256 + ps) * 256 + bits(src, 0, 8)


def canonical_pgn(pgn):
    """PGN in canonical form: 18 bits, and PS = 0 for PDU1."""
    return vand(pgn >= 0, pgn < (1 << 18), implies(bits(pgn, 8, 8) < 240, bits(pgn, 0, 8) == 0))


# ---- fast packet (C03, C04) ------------------------------------------------------------------
def nframes(n):
    return 1 if n <= 6 else 1 + (n - 6 + 6) // 7


def chunk(P, i):
    return P[0:6] if i == 0 else P[6 + 7 * (i - 1): 6 + 7 * i]


def frames(P, s):
    """Frames (lists of byte values) of payload P (list) under sequence counter s."""
    n = len(P)
    out = []
    for i in range(nframes(n)):
        hdr = [s * 32 + i] + ([n] if i == 0 else [])
        out.append(hdr + list(chunk(P, i)))
    return out
