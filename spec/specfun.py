"""Specification functions (the oracles).  Each is written once over the polymorphic operators of
pyvc.values, so the same text evaluates on native Python values (replay) and on symbolic values (z3)."""
from pyvc.values import ite, vand, vor, vnot, implies, Sym


# ---- bits and numbers -------------------------------------------------------------------
def bits(d, o, L):
    return (d >> o) & ((1 << L) - 1)


def sbits(d, o, L, signed):
    b = bits(d, o, L)
    if signed:
        return ite(b >= (1 << (L - 1)), b - (1 << L), b)
    return b


def maxraw(L, signed):
    return (1 << (L - 1)) - 1 if signed else (1 << L) - 1


def minraw(L, signed):
    return -(1 << (L - 1)) if signed else 0


# ---- CAN identifier (C05) -----------------------------------------------------------------
def extract(can_id):
    """(pgn, source, destination, priority) of a 29-bit identifier."""
    src = bits(can_id, 0, 8)
    ps = bits(can_id, 8, 8)
    pf = bits(can_id, 16, 8)
    dp = bits(can_id, 24, 2)
    prio = bits(can_id, 26, 3)
    pdu1 = pf < 240
    dst = ite(pdu1, ps, 255)
    pgn = ite(pdu1, dp * 65536 + pf * 256, dp * 65536 + pf * 256 + ps)
    return pgn, src, dst, prio


def build(pgn, src, dst, prio):
    dp = bits(pgn, 16, 2)
    pf = bits(pgn, 8, 8)
    ps = ite(pf < 240, bits(dst, 0, 8), bits(pgn, 0, 8))
    return bits(prio, 0, 3) * (1 << 26) + (dp * 65536 + pf * 256 + ps) * 256 + bits(src, 0, 8)


def canonical_pgn(pgn):
    """PGN in canonical form: 18 bits, and PS = 0 for PDU1."""
    return vand(pgn >= 0, pgn < (1 << 18), implies(bits(pgn, 8, 8) < 240, bits(pgn, 0, 8) == 0))
