#!/bin/sh
# confirm_seed.sh <Cxx> : confirm a sub-agent's seeded change in its scratch worktree at /repo's current HEAD
id=$1; root=${SEED_ROOT:-/tmp/seed}; wt=$root/$id/wt; out=$root/$id/out
head=$(git -C /repo rev-parse HEAD)
git -C $wt checkout -q --detach $head 2>/dev/null; git -C $wt checkout -q -- . ; git -C $wt clean -fdq
cd $wt
PYTHONPATH=$wt timeout 120 /venv/bin/python $out/demo.py >$root/$id/demo_clean.log 2>&1; c0=$?
if ! git apply --check $out/patch.diff 2>/dev/null; then echo "$id patch does not apply at $head"; git apply -3 $out/patch.diff || exit 2; else git apply $out/patch.diff; fi
PYTHONPATH=$wt /venv/bin/python -m pytest -q -p no:cacheprovider --timeout=900 >$root/$id/tests.log 2>&1; t=$?
PYTHONPATH=$wt timeout 120 /venv/bin/python $out/demo.py >$root/$id/demo_patched.log 2>&1; c1=$?
git diff HEAD > $root/$id/patch_at_head.diff
git reset -q --hard HEAD; git clean -fdq
echo "$id clean_demo_exit=$c0 tests_exit=$t ($(tail -1 $root/$id/tests.log)) patched_demo_exit=$c1"
