#!/bin/sh
# seed_matrix.sh [suffix] : run every seeded change (on a scratch copy of /repo) against the check of the property it
# breaks, four at a time, and record the verdict lines in seeded/RESULTS<suffix>.txt
cd /verif
suf=${1:-}
out=seeded/RESULTS$suf.txt
ls -d seeded/C*$suf | while read d; do s=$(basename $d); p=$(echo $s | cut -c1-3); [ -f $d/patch.diff ] && echo "$s $p"; done |
  xargs -P 6 -L 1 sh -c 'tools/try_seed_scratch.sh $0 $1' | sort > $out
cat $out
