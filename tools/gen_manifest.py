#!/usr/bin/env python3
"""Writes MANIFEST.json from the table below (kept valid at all times)."""
import json, os
HERE = os.path.dirname(os.path.dirname(os.path.abspath(__file__)))
TECH = "contract-based deductive verification: VCs generated from the real Python AST against side-car contracts, discharged by z3/cvc5"
CHECKS = {
 'C01': ('proof', "Every generated decoder (one per selectable database definition) is symbolically executed for a fully symbolic payload against contracts of the utils helpers; each field's nine constructor arguments are proved equal to the term compiled from canboat.json; decode_int/decode_number are proved against their contracts for every bit length 1..64; per numeric field kind the scaling is proved within 4u of the exact rational value (standard float model) and the float range test is proved to accept every in-range raw value in exact binary64 (z3 FloatingPoint).",
         "Trusted: pyvc's Python semantics, spec compiler, z3/cvc5. Assumed (bounded-checked only): string/date/time/bit-lookup/float helper bodies, int_to_bytes."),
 'C02': ('other', "All obligations are deductive (every encodable definition: encode(decode-contract(payload)) reproduces every defined bit, for all payloads, in the standard float model; encode_number/encode_time against contracts) and are discharged, except one recorded known finding (F18: 64-bit altitude at the extreme of its range) - hence not claimed as a full proof. Spurious counterexamples of the over-approximating float model are re-examined by a bounded native search over raw values.",
         "Trusted: decoder contract (C01), float model S, pyvc state merging. Assumed: encode_date/encode_time/encode_float/lookup_encode bodies via contracts. Known finding F18 listed in known_findings.json."),
 'C05': ('proof', "Every obligation generated from the current source of _extract_header and _build_header (contract = the 29-bit layout of the property statement) and the inverse/injectivity lemmas over those contracts is discharged by an SMT solver for all 2^29 identifiers / all headers, without enumeration.",
         "Trusted: pyvc's encoding of Python integer semantics, z3/cvc5, spec functions extract/build. Assumed: callers pass ints within the stated ranges."),
 'C08': ('proof', "(plus: _call_decode_function / _call_encode_function are proved to call the generated function of the frame's PGN / the message's PGN and id, once, with the payload integer / message) Every feasible path of each of the 24 generated dispatchers is enumerated with a symbolic payload; for each path the callee reached (or None) is proved to be the first database definition in database order whose match fields equal the payload bits, else the fallback, else none; the payload is proved to be handed on unchanged.",
         "Trusted: pyvc path enumeration, spec compiler dispatch order. The per-definition decoders are C01."),
 'C09': ('other', "Deductive: encode_number against its contract for every double (standard float model) and every generated encoder for an arbitrary message (each value None / int / float / other object), with per-field frame obligations (a field's bits and error conditions depend on that field only). All obligations are discharged except those matched by the recorded known finding F10 (over-wide RESERVED/LOOKUP/DATE/TIME values are masked, not rejected), hence not claimed as a full proof.",
         "Trusted: float model S, pyvc state merging. NaN/inf are outside the real-number float model (covered by the bounded selftest). Known finding F10 in known_findings.json."),
 'C03': ('proof', "For every payload length 0..223 (enumerated; bytes, 3-bit counter and addressing symbolic) the real _encode_fast_message is proved to produce exactly the frames of the specification (count, sizes <= 8, counter/length/chunk bytes, counter advance mod 8, frame: only sequence_counter assigned), and the frames it produces - unpadded and padded to 8 bytes - are fed in order through the real _decode_fast_message starting from an absent record or any well-formed record with another counter: nothing is delivered before the last frame, then exactly one delivery of the original payload, record removed. _encode and the generated is_fast_pgn_* functions are checked against the database PGN type.",
         "Trusted: pyvc bytes/list/dict models. _call_decode_function is used through its contract at the delivery point."),
 'C04': ('proof', "The real _decode_fast_message is proved to implement the transition function T of the property (ignore before a first frame / other sequence / duplicate; restart on a first frame with a new counter; store; complete when stored bytes reach the announced length; deliver the slots in index order cut to the announced length; delete the record) for EVERY well-formed record state over 32 slots, every header byte and data length 0..8, with the frame condition that only the record of (PGN, source, destination) is touched. Single-step lemmas over T (completion iff all frames present, invariant preserved by a missing frame in any order, re-established by any first frame) are discharged for every announced length 0..223.",
         "Histories of any length follow by induction over the single-step lemmas (not mechanised). Key injectivity of f'{pgn}_{src}_{dest}' by the no-underscore axiom for str(int)."),
 'C06': ('proof', "encode_ebyte/usb/yacht_devices/actisense and decode_tcp/usb/yacht_devices_string/actisense_string are proved against the packet layouts of the statement for every frame length 0..8 with symbolic identifier and bytes (13-byte EByte packets with zero padding, 20-byte USB packets with header, length, padding and additive checksum, CR/LF-terminated YD lines); the packets of the real encoders are fed to the real decoders (round trip on the real code); a USB packet with any one byte 2..19 changed by any non-zero delta is proved never to reach _decode.",
         "Text formats rest on the token axioms A1-A3 (hex formatting/parsing, split/join). _encode/_decode are used through contracts."),
 'C07': ('proof', "Each of the five decode_* front ends is proved to call _decode exactly once with (header parsed from the identifier or header fields, data bytes reversed, combined flag), independently of direction marker, hex letter case and timestamp variant, so equal frames give equal _decode calls.",
         "Equality of the resulting messages uses that _decode is a function of its arguments and the decoder state (C16). Token axioms A1-A3."),
 'C10': ('proof', "Every path of _decode with _call_decode_function inlined (whole-message and frame entry, claim and non-claim), over abstract filter collections, is proved sound (a returned message is permitted by the lists, ids compared lower-cased) and complete (a decodable, permitted message is never dropped), address claims update the source map even when filtered, non-claim traffic never writes the map; the constructor is proved to build the collections and the claim flag from the user's lists without touching the arguments.",
         "Constructor checked for lists of at most two entries (loops unrolled). Histories: simulation step proved per call, induction not mechanised."),
 'C11': ('proof', "Per call: a returned non-claim message carries map[source] as of that call, claims store the identity of their NAME (reused iff equal NAME) at their own address only, the manufacturer lists are applied to the claimed manufacturer (lower-cased), unknown sources are withheld inside the discovery window with network mapping on; IsoName.__init__ is proved to be a function of the claim's fields; the reassembler hands the identity of the completing frame to the decoder.",
         "Permissive reading: an unknown (None) claimed manufacturer is not filtered. Induction over histories not mechanised."),
 'C15': ('other', "Dump clause deductive (discharged): exactly json+newline is written iff dumping is enabled and the returned message matches the dump filter by number or lower-cased id. JSON clause is a BOUNDED stand-in (orjson is a C extension): the executable contract is evaluated natively over a boundary corpus of ~10 000 messages.",
         "JSON clause bounded, never counted as proved."),
 'C16': ('proof', "Frame and ownership obligations: the constructor neither stores nor modifies its (shared default) arguments and builds fresh per-instance state; _decode writes only the source map (claims only); _decode_fast_message touches only the record of its own stream, exceptional outcomes (0-1 data bytes) leave the abstract view unchanged, a first frame with a fresh counter overwrites whatever the record held; a syntactic frame scan shows no function of decoder/encoder/message/utils/pgns writes module-level or class-level state.",
         "The frame scan is syntactic (no alias tracking of module objects through locals)."),
 'C17': ('proof', "add_data is proved, for every combination of key flags on up to three fields and every raw value kind, to set hash = md5(id + '_' + str(raw) for the primary-key fields, in order) when network mapping is on and None otherwise, reading nothing but the id, the flags and the key fields' raw values; the key is proved injective (cvc5 string solver) for up to three key fields; the database is checked to satisfy the lemma's side conditions.",
         "MD5 treated as injective; str(int/float/None) contains no underscore (axiom, cross-checked)."),
 'C18': ('proof', "The six converters are proved within the library's rounding of the exact formula for every int/float input (standard float model); apply_preferred_units is proved, for every (quantity, preference) pair incl. unrecognised ones, to rewrite only value and unit of the matching field through the right converter and to leave every other field and attribute untouched.",
         "round(x, nd) modelled by its specification; |value| <= 1e12."),
 'C12': ('other', "Deductive per-call contracts of the three receive paths and the consumer loop under assumed asyncio dependency contracts (queued = decoded, in order; decode errors never escape; callbacks awaited one at a time with exactly the dequeued item; Waveshare scan step proved for a buffer of any length and content); whole-stream chunking independence of the serial scan is a bounded stand-in.",
         "asyncio StreamReader/Queue behaviour is assumed (dependency contracts, DESIGN Appendix B); real transports not covered."),
 'C13': ('other', "Safety decomposition discharged by z3 (fault => DISCONNECTED + one connect task; one connect attempt; stop_never retry on every Exception; tenacity's wait function verified from its installed source: delay in (0,10], never shrinking, never raising; one receive path, started under the connect lock after the old one is cancelled; every _receive_impl call suspends, consumes input or raises). The liveness composition is a paper argument, not mechanised.",
         "asyncio/tenacity dependency contracts assumed; liveness and real transports outside the contracts."),
 'C14': ('other', "Rely/guarantee at every await: every atomic segment of connect/_receive_loop/send/close/_update_state is proved never to write the state out of CLOSED assuming only that other tasks do the same (all interleavings); no connection attempt once CLOSED, a link opened during close() is shut; _update_state notifies once per change with the new state after the assignment and shields the client from callback exceptions; close() leaves CLOSED, shuts the writer, cancels the tasks.",
         "Whether callbacks still run / tasks have finished after close() returns depends on scheduler timing and is not decided (DESIGN section 7)."),
 'C19': ('other', "send() for the four client classes: packets written are the encoder's, in order; at every suspension in drain() between two packets a lock taken by every send() is held (contiguity for all interleavings); unsendable messages (encoder ValueError - every encoder failure is proved to surface as ValueError - or a format without an encoder) write nothing and change nothing; a failing write leads to DISCONNECTED and one connect task unless CLOSED.",
         "asyncio dependency contracts assumed (write never suspends, Lock is mutual exclusion)."),
 'C20': ('other', "Per call, for any pending buffer (<=120 bytes, any content) and any read: packets are decoded only from the 20-byte window at the first AA 55, bad checksums are never delivered (decode_usb proved), the bytes held back are a suffix of the stream containing every unconsumed start marker and a trailing AA, and stay bounded (<=120). Resynchronisation over whole streams is a bounded stand-in.",
         "StreamReader.read contract assumed; whole-stream lemmas bounded."),
}
ADD = {
 'C01': " Helper bodies: decode_time / decode_date / decode_float / decode_decimal are proved against h-m-s / day-number / IEEE-single / BCD contracts (datetime and struct through dependency contracts); decode_string_fix/lz/lau and decode_bit_lookup are bounded-checked against references (labelled bounded, not counted as proved).",
 'C02': " Also under this property: decode_number's contract for every bit length of an encodable field, encode_number with excess-K offsets, encode_date / encode_float contracts.",
 'C06': " Also under this property: the fast-packet segmentation contract (every payload length), the header pair _build_header/_extract_header, and one receive step of each of the four clients from an arbitrary pending buffer (the framing step by which a concatenation of packets is split back).",
 'C07': " Also under this property: the _extract_header contract (frame-level formats vs formats that carry the PGN number) and the reassembly transition contract (frame-wise delivery = pre-assembled delivery).",
 'C08': " The hand-over of the payload integer is checked for 1, 2, 3, 5, 7, 8 (and 12, whole messages) data bytes.",
 'C09': " get_field_by_id is additionally checked over the id universe of the database: for every encodable definition every field present is returned and every field missing raises ValueError.",
 'C10': " Also under this property: every decodable address claim is decoded whatever the filters (claim completeness; PGN 60928 proved known and single-frame), and the reassembly transition contract (a completed message's record is deleted whether the decode step returns a message, None or raises).",
 'C12': " The consumer contract is batch-robust: every item taken off the queue in an iteration reaches the callback exactly once, in queue order, whatever earlier callbacks did.",
 'C13': " A connection attempt may fail only because the transport refused (StreamWriter.wait_closed modelled: may re-raise the old link's error).",
 'C16': " Also under this property: the outcome contract of C10 (the result is a function of configuration, source map and input, independent of the set of PGNs already reported unsupported), and only PGNs without decode functions are remembered as unsupported.",
 'C17': " The decoder's call site is also under contract: every returned message went through add_data once with the decoder's own build_network_map flag.",
 'C19': " Every write happens while holding the send lock, the lock is held from the first to the last packet (1..3 packets explored), and every packet goes to the writer that is current when it is written (a reconnect by another task may replace the link at any suspension).",
 'C20': " The additive checksum contract of calculate_canbus_checksum is checked under this property too.",
}
COMMON = " Every repository function the tasks execute also carries the frame obligation 'reads and writes no mutable module-level state'."


def main():
    checks = []
    for pid in sorted(CHECKS):
        lvl, text, note = CHECKS[pid]
        text = text + ADD.get(pid, '') + COMMON
        if pid == 'C01':
            note = "Trusted: pyvc's Python semantics, spec compiler, z3/cvc5. String / bit-lookup helper bodies are bounded-checked only."
        checks.append({"property_id": pid, "quick_cmd": f"./check {pid} --tier quick", "thorough_cmd": f"./check {pid} --tier thorough",
                       "evidence_file": f"evidence/{pid}.json", "replay_cmd_template": f"./check {pid} --replay {{path}}", "engine": "pyvc",
                       "level_claimed": {"category": lvl, "text": text, "design_ref": f"DESIGN.md section 6 {pid}"},
                       "level_note": note, "technique": TECH})
    props = [json.loads(l)['id'] for l in open(os.path.join(HERE, 'properties.jsonl'))]
    na = [{"property_id": p, "reason": NA.get(p, "check under construction in this session (contracts not yet written); will be claimed or given a technical reason")} for p in props if p not in CHECKS]
    m = {"version": 1, "setup_cmd": "./setup.sh",
         "hooks": {"guard": "NMEA2000_VERIF", "enable": "no hooks: the checks parse /repo/nmea2000/*.py and /repo/canboat.json from the working tree on every run",
                   "baseline_off_cmd": "cd /repo && /venv/bin/python -m pytest -ra -q -p no:cacheprovider --timeout=900 --continue-on-collection-errors",
                   "source_commits": [], "add_only": True},
         "engines": [{"name": "pyvc", "path": "pyvc/", "serves_properties": sorted(CHECKS),
                      "kind_free_text": "self-built deductive verifier: symbolic execution of the real Python AST against side-car contracts (contracts/, spec/), verification conditions discharged by z3 5.1 / cvc5 1.0 / z3 4.8; counterexamples replayed on the real code"}],
         "checks": checks, "not_applicable": na,
         "notes": "fix: commits in /repo repair genuine defects found by these checks (see known_findings.json, status fixed); known findings are listed there with status known."}
    json.dump(m, open(os.path.join(HERE, 'MANIFEST.json'), 'w'), indent=1)
NA = {}
if __name__ == '__main__':
    main()
