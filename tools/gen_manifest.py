#!/usr/bin/env python3
"""Writes MANIFEST.json from the table below (kept valid at all times)."""
import json, os
HERE = os.path.dirname(os.path.dirname(os.path.abspath(__file__)))
TECH = "contract-based deductive verification: VCs generated from the real Python AST against side-car contracts, discharged by z3/cvc5"
CHECKS = {
 'C01': ('proof', "Every generated decoder (one per selectable database definition) is symbolically executed for a fully symbolic payload against contracts of the utils helpers; each field's nine constructor arguments are proved equal to the term compiled from canboat.json; decode_int/decode_number are proved against their contracts for every bit length 1..64; per numeric field kind the scaling is proved within 4u of the exact rational value (standard float model) and the float range test is proved to accept every in-range raw value in exact binary64 (z3 FloatingPoint).",
         "Trusted: pyvc's Python semantics, spec compiler, z3/cvc5. Assumed (bounded-checked only): string/date/time/bit-lookup/float helper bodies, int_to_bytes."),
 'C02': ('other', "All obligations are deductive (every encodable definition: encode(decode-contract(payload)) reproduces every defined bit, for all payloads, in the standard float model; encode_number/encode_time against contracts) and are discharged, except one recorded known finding (F18: 64-bit altitude at the extreme of its range) - hence not claimed as a full proof. Spurious counterexamples of the over-approximating float model are re-examined by a bounded native search over raw values.",
         "Trusted: decoder contract (C01), float model S, pyvc state merging. Assumed: encode_date/encode_time/encode_float/lookup_encode bodies via contracts. Known finding F18 listed in known_findings.json."),
 'C05': ('proof', "Every obligation generated from the current source of _extract_header and _build_header (contract = the 29-bit layout of the property statement) and the inverse/injectivity lemmas over those contracts is discharged by an SMT solver for all 2^29 identifiers / all headers, without enumeration.",
         "Trusted: pyvc's encoding of Python integer semantics, z3/cvc5, spec functions extract/build. Assumed: callers pass ints within the stated ranges."),
 'C08': ('proof', "Every feasible path of each of the 24 generated dispatchers is enumerated with a symbolic payload; for each path the callee reached (or None) is proved to be the first database definition in database order whose match fields equal the payload bits, else the fallback, else none; the payload is proved to be handed on unchanged.",
         "Trusted: pyvc path enumeration, spec compiler dispatch order. The per-definition decoders are C01."),
 'C09': ('other', "Deductive: encode_number against its contract for every double (standard float model) and every generated encoder for an arbitrary message (each value None / int / float / other object), with per-field frame obligations (a field's bits and error conditions depend on that field only). All obligations are discharged except those matched by the recorded known finding F10 (over-wide RESERVED/LOOKUP/DATE/TIME values are masked, not rejected), hence not claimed as a full proof.",
         "Trusted: float model S, pyvc state merging. NaN/inf are outside the real-number float model (covered by the bounded selftest). Known finding F10 in known_findings.json."),
}
def main():
    checks = []
    for pid in sorted(CHECKS):
        lvl, text, note = CHECKS[pid]
        checks.append({"property_id": pid, "quick_cmd": f"./check {pid} --tier quick", "thorough_cmd": f"./check {pid} --tier thorough",
                       "evidence_file": f"evidence/{pid}.json", "replay_cmd_template": f"./check {pid} --replay {{path}}", "engine": "pyvc",
                       "level_claimed": {"category": lvl, "text": text, "design_ref": f"DESIGN.md section 6 {pid}"},
                       "level_note": note, "technique": TECH})
    props = [json.loads(l)['id'] for l in open(os.path.join(HERE, 'properties.jsonl'))]
    na = [{"property_id": p, "reason": NA.get(p, "check under construction in this session (contracts not yet written); will be claimed or given a technical reason")} for p in props if p not in CHECKS]
    m = {"version": 1, "setup_cmd": "./setup.sh",
         "hooks": {"guard": "NMEA2000_VERIF", "enable": "no hooks: the checks parse /repo/nmea2000/*.py and /repo/canboat.json from the working tree on every run",
                   "baseline_off_cmd": "cd /repo && /venv/bin/python -m pytest -ra -q -p no:cacheprovider --timeout=900 --continue-on-collection-errors",
                   "source_commits": [], "add_only": True},
         "engines": [{"name": "pyvc", "path": "pyvc/", "serves_properties": sorted(CHECKS),
                      "kind_free_text": "self-built deductive verifier: symbolic execution of the real Python AST against side-car contracts (contracts/, spec/), verification conditions discharged by z3 5.1 / cvc5 1.0 / z3 4.8; counterexamples replayed on the real code"}],
         "checks": checks, "not_applicable": na,
         "notes": "fix: commits in /repo repair genuine defects found by these checks (see known_findings.json, status fixed); known findings are listed there with status known."}
    json.dump(m, open(os.path.join(HERE, 'MANIFEST.json'), 'w'), indent=1)
NA = {}
if __name__ == '__main__':
    main()
