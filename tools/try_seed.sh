#!/bin/sh
# try_seed.sh <seed dir name> <Cxx> [<Cxx>...] : apply a seeded change to /repo, run the named checks, undo it at once
cd /verif
s=seeded/$1; shift
git -C /repo diff --quiet || { echo "/repo has local changes"; exit 9; }
git -C /repo apply /verif/$s/patch.diff || { echo "patch does not apply"; exit 9; }
for p in "$@"; do ./check $p --tier quick > /tmp/try_$p.log 2>&1; echo "$s -> $p exit=$? : $(grep -c '^VIOLATION' /tmp/try_$p.log) violation line(s); $(tail -1 /tmp/try_$p.log)"; grep -m3 '^VIOLATION\|^UNDECIDED' /tmp/try_$p.log; done
git -C /repo checkout -- .
