#!/bin/sh
# run every registered quick check on the current tree (must be the unchanged tree before committing evidence)
cd /verif
git -C /repo diff --quiet || { echo "/repo has local changes: refusing"; exit 9; }
for p in $(python3 -c "import json; print(' '.join(c['property_id'] for c in json.load(open('MANIFEST.json'))['checks']))"); do
  ./check $p --tier ${1:-quick} > /tmp/runall_$p.log 2>&1; echo "$p exit=$? $(tail -1 /tmp/runall_$p.log | cut -c1-200)"
done
