#!/bin/sh
# harmless_regress.sh : run every behaviour-preserving patch of harmless/ against the checks listed for it in harmless/PLAN.txt
# (on scratch copies of /repo); the verdict lines go to harmless/RESULTS.txt.  Every line must say exit=0.
cd /verif
: > /tmp/harmless_results.txt
while read n checks; do
  PAR=${PAR:-4} tools/try_patch.sh $n /verif/harmless/$n/patch.diff $checks >> /tmp/harmless_results.txt 2>&1
done < harmless/PLAN.txt
sort /tmp/harmless_results.txt > harmless/RESULTS.txt
grep -v "exit=0" harmless/RESULTS.txt | cut -c1-200
echo "$(grep -c 'exit=0' harmless/RESULTS.txt) of $(wc -l < harmless/RESULTS.txt) runs exit 0"
