#!/bin/sh
# try_seed_scratch.sh <seed dir name> <Cxx> [<Cxx>...] : run checks against a scratch copy of /repo with the seeded
# change applied (NMEA2000_REPO), evidence and replays redirected to the scratch directory; several may run in parallel
s=$1; shift
d=/tmp/mut/$s
rm -rf $d; mkdir -p $d
git -C /repo archive HEAD | tar -x -C $d --one-top-level=repo
( cd $d/repo && git init -q . 2>/dev/null && patch -p1 -s < /verif/seeded/$s/patch.diff ) || { echo "$s: patch does not apply"; exit 9; }
cd /verif
for p in "$@"; do
  NMEA2000_REPO=$d/repo PYVC_OUT=$d ./check $p --tier ${TIER:-quick} > $d/$p.log 2>&1
  echo "$s -> $p exit=$? : $(grep -c '^VIOLATION' $d/$p.log) violation line(s); $(tail -1 $d/$p.log | cut -c1-170)"
done
rm -rf $d/repo
