#!/bin/sh
# try_patch.sh <name> <patch file> <Cxx> [<Cxx>...] : run checks against a scratch copy of /repo with the patch applied
# (NMEA2000_REPO), evidence and replays redirected to the scratch directory (PYVC_OUT); several may run in parallel
n=$1; pf=$2; shift; shift
d=/tmp/mut/$n
rm -rf $d; mkdir -p $d
git -C /repo archive HEAD | tar -x -C $d --one-top-level=repo
( cd $d/repo && patch -p1 -s < $pf ) || { echo "$n: patch does not apply"; exit 9; }
cd /verif
echo "$@" | tr ' ' '\n' | xargs -P ${PAR:-6} -I{} sh -c "NMEA2000_REPO=$d/repo PYVC_OUT=$d ./check {} --tier ${TIER:-quick} > $d/{}.log 2>&1; echo \"$n -> {} exit=\$? : \$(grep -c '^VIOLATION' $d/{}.log) violation line(s), \$(grep -c '^UNDECIDED' $d/{}.log) undecided; \$(tail -1 $d/{}.log | cut -c1-150)\""
rm -rf $d/repo
