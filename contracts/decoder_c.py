"""Harness and contracts for NMEA2000Decoder._decode / _call_decode_function (C10, C11, C15 dump, C16, C08 call site)."""
from __future__ import annotations
import time
import z3
from pyvc import values as V
from pyvc.values import Sym, bool_term, vand, vor, vnot, veq, mk_int, mk_bool, ite, int_term
from pyvc.gv import GV
from pyvc.sbytes import SBytes
from pyvc.sstr import SStr, Fmt, Atom, str_const, str_axioms
from pyvc.symmap import SymMap, ABSENT, alts, present_term
from pyvc.abssets import AbsSet, HavocState
from pyvc.timeval import TimeVal
from pyvc.report import Task
from pyvc.tasks import repo, budget, result_dict
from pyvc.solve import Obligation, discharge
from pyvc.symex import explore, Obj, Opaque, PyRaise, make_exc, FuncVal, BoundBuiltin

DEC = 'decoder.NMEA2000Decoder.'
CLAIM = 60928
KNOWN = z3.Function('has_decode_function', z3.IntSort(), z3.BoolSort())
KIND = z3.Function('fast_kind', z3.IntSort(), z3.IntSort())          # 0 unknown, 1 single, 2 fast
SUBMSG = z3.Function('sub_decoder_returns_message', z3.IntSort(), z3.IntSort(), z3.BoolSort())
IDOF = z3.Function('definition_id', z3.IntSort(), z3.IntSort(), Atom.S)
CLAIM_ID_LOWER = 'isoaddressclaim'


class DumpFile:
    ALWAYS_TRUE = True        # a Python object of this kind is truthy (no __bool__ / __len__)
    def __init__(self):
        self.lines = []
        self.closed = False

    def sym_method(self, ex, name):
        if name == 'write':
            return BoundBuiltin('file.write', lambda ex, me, s: me.lines.append(s), self)
        if name == 'close':
            def close(ex, me):
                me.closed = True
            return BoundBuiltin('file.close', close, self)
        return None


class GenDecoder:
    """The generated decode function of a PGN (contract from C01/C08: a message of that PGN or None, or an error)."""
    ALWAYS_TRUE = True        # a Python object of this kind is truthy (no __bool__ / __len__)
    def __init__(self, pgn, st):
        self.pgn = pgn
        self.st = st

    def sym_call(self, ex, args, kwargs):
        st = self.st
        data_int = args[0]
        st.decode_calls.append((self.pgn, data_int))
        c = ex.choose(3, 'sub-decoder')
        if c == 0:
            raise PyRaise(make_exc('ValueError', 'field decoder rejected the payload'))
        dt = int_term(data_int)
        if c == 1:
            ex.assume(z3.Not(SUBMSG(int_term(self.pgn), dt)))
            return None
        ex.assume(SUBMSG(int_term(self.pgn), dt))
        idterm = IDOF(int_term(self.pgn), dt)
        msg = Obj(st.r.cls('message', 'NMEA2000Message'), {'PGN': self.pgn, 'id': SStr([Atom('message.id', False, idterm)]), 'fields': Opaque('fields'),
                                                           'description': 'd'})
        st.msg = msg
        return msg


class DState:
    """Symbolic decoder state after construction, and one frame."""
    def __init__(self, ex, r, data_len=8, claim=None):
        self.r = r
        self.sets = {n: AbsSet(n, k) for n, k in (('exclude_pgns', 'int'), ('exclude_pgns_ids', 'str'), ('include_pgns', 'int'), ('include_pgns_ids', 'str'),
                                                  ('exclude_manufacturer_code', 'str'), ('include_manufacturer_code', 'str'),
                                                  ('dump_include_pgns', 'int'), ('dump_include_pgns_ids', 'str'))}
        for s in self.sets.values():
            ex.assume(s.n >= 0)
        self.icf = Sym(z3.Bool('iso_claim_filter'), 'bool')
        self.bnm = Sym(z3.Bool('build_network_map'), 'bool')
        self.started = TimeVal(z3.Real('started_at'), 'datetime', 'started_at')
        self.pgn = ex.fresh('pgn', bits=18)
        self.src = ex.fresh('source_id', bits=8)
        self.dst = ex.fresh('destination_id', bits=8)
        self.prio = ex.fresh('priority', bits=3)
        if claim is True:
            ex.assume(self.pgn.t == CLAIM)
        elif claim is False:
            ex.assume(self.pgn.t != CLAIM)
        self.ts = Opaque('timestamp')
        self.raw = Opaque('raw_can_data')
        self.can = SBytes([ex.fresh(f'can_data[{i}]', bits=8) for i in range(data_len)])
        # source map: the entry of this source address (absent or an identity with any NAME / manufacturer)
        self.has_ident = Sym(z3.Bool('source_known'), 'bool')
        self.mfr_none = Sym(z3.Bool('claimed_manufacturer_is_None'), 'bool')
        self.old_name = ex.fresh('claimed_NAME', lo=0, hi=(1 << 128) - 1)      # a stored NAME is int.from_bytes of at most 16 data bytes
        self.mfr = SStr([Atom('claimed_manufacturer')])
        self.ident = Obj(r.cls('message', 'IsoName'), {'name': self.old_name,
                                                       'manufacturer_code': GV.make([(self.mfr_none.t, None), (z3.Not(self.mfr_none.t), self.mfr)])})
        self.map = SymMap('source_to_iso_name', [[self.src, GV.make([(self.has_ident.t, self.ident), (z3.Not(self.has_ident.t), ABSENT)])]], open_world=True)
        self.dump_on = Sym(z3.Bool('dump_enabled'), 'bool')
        self.dump = DumpFile()
        self.prefs = Opaque('preferred_units')
        self.data = Opaque('reassembly-records')
        self.logged = AbsSet('logged_unsupported_pgns', 'int')      # PGNs already reported as unsupported: any content
        self.log_calls = []
        self.decode_calls = []
        self.add_data_calls = []
        self.units_calls = []
        self.call_order = []
        self.fast_calls = []
        self.msg = None
        self.new_ident = None
        attrs = {k: v for k, v in self.sets.items()}
        attrs.update({'iso_claim_filter': self.icf, 'build_network_map': self.bnm, 'started_at': self.started, 'source_to_iso_name': self.map,
                      'dump_TextIOWrapper': GV.make([(self.dump_on.t, self.dump), (z3.Not(self.dump_on.t), None)]),
                      'preferred_units': self.prefs, 'data': self.data, 'logged_unsupported_pgns': self.logged})
        # any further attribute the real constructor creates exists here too, with unknown content (the decoder has an
        # arbitrary history of earlier calls): a container reads as a HavocState, anything else is opaque
        attrs.update(unknown_ctor_attrs(r, DEC + '__init__', attrs, 'NMEA2000Decoder'))
        self.decoder = Obj(r.cls('decoder', 'NMEA2000Decoder'), attrs)
        self.attr_names = set(attrs)
        # facts established by the constructor (checked by the __init__ task) and by C01 (the claim definition's id)
        S = self.sets
        lit = str_const(CLAIM_ID_LOWER)
        self.lit = lit
        ex.assume(z3.Implies(z3.Not(self.icf.t), z3.And(z3.Not(S['exclude_pgns'].pred(CLAIM)), z3.Not(S['exclude_pgns_ids'].pred(lit)),
                                                       z3.Or(z3.And(S['include_pgns'].n == 0, S['include_pgns_ids'].n == 0), S['include_pgns'].pred(CLAIM), S['include_pgns_ids'].pred(lit)))))
        ex.assume(z3.Implies(self.icf.t, z3.And(z3.Not(S['exclude_pgns'].pred(CLAIM)), z3.Not(S['exclude_pgns_ids'].pred(lit)))))
        for s in S.values():
            x = z3.Int('x!q') if s.kind == 'int' else z3.Const('x!qs', Atom.S)
            ex.assume(z3.ForAll([x], z3.Implies(s.pred(x), s.n > 0)))
        d = z3.Int('d!q')
        ex.assume(z3.ForAll([d], Atom.LOWER(IDOF(z3.IntVal(CLAIM), d)) == lit))
        for a in str_axioms():
            ex.assume(a)
        self.inputs = {'pgn': self.pgn.t, 'source_id': self.src.t, 'destination_id': self.dst.t, 'iso_claim_filter': self.icf.t,
                       'build_network_map': self.bnm.t, 'source_known': self.has_ident.t, 'claimed_manufacturer_is_None': self.mfr_none.t,
                       'dump_enabled': self.dump_on.t, 'claimed_NAME': self.old_name.t}
        for n, s in self.sets.items():
            self.inputs[f'len({n})'] = s.n
            self.inputs[f'pgn in {n}' if s.kind == 'int' else f'len_{n}'] = s.pred(self.pgn.t) if s.kind == 'int' else s.n

    # ---- call-site contracts ----------------------------------------------------------
    def contracts(self):
        st = self

        def is_fast(ex, f, args, kwargs):
            k = KIND(int_term(args[0]))
            ex.assume(z3.And(k >= 0, k <= 2))
            # a PGN has an is_fast function exactly when it has a decode function (both generated per PGN)
            ex.assume((k != 0) == KNOWN(int_term(args[0])))
            return GV.make([(k == 0, None), (k == 1, False), (k == 2, True)])

        def log_unsupported(ex, f, args, kwargs):
            st.log_calls.append((args[0], list(ex.pc)))
            return None

        def fast(ex, f, args, kwargs):
            st.fast_calls.append(list(args))
            return Opaque('fast-path-result')

        def add_data(ex, f, args, kwargs):
            st.add_data_calls.append((f.bound, list(args)))
            st.call_order.append(('add_data', f.bound))
            return None

        def units(ex, f, args, kwargs):
            st.units_calls.append((f.bound, list(args)))
            st.call_order.append(('apply_preferred_units', f.bound))
            return None

        def to_json(ex, f, args, kwargs):
            st.call_order.append(('to_json', f.bound))
            return SStr([Atom('json-of-message')])

        def isoname(ex, ci, args, kwargs):
            msg, name = args
            o = Obj(ci, {'name': name, 'manufacturer_code': GV.make([(z3.Bool('new_mfr_none'), None), (z3.Not(z3.Bool('new_mfr_none')), SStr([Atom('new_manufacturer')]))]),
                         'from_message': msg})
            st.new_ident = o
            return o
        return {'nmea2000.decoder.NMEA2000Decoder._isFastPGN': is_fast,
                'nmea2000.decoder.NMEA2000Decoder._log_unsupported_pgn_once': log_unsupported,
                'nmea2000.decoder.NMEA2000Decoder._decode_fast_message': fast,
                'nmea2000.message.NMEA2000Message.add_data': add_data,
                'nmea2000.message.NMEA2000Message.apply_preferred_units': units,
                'nmea2000.message.NMEA2000Message.to_json': to_json,
                'nmea2000.message.IsoName': isoname}

    def hooks(self):
        st = self

        def globals_get(ex, name):
            if isinstance(name, SStr) and len(name.parts) == 2 and name.parts[0] == 'decode_pgn_' and isinstance(name.parts[1], Fmt):
                pgn = name.parts[1].value
                if ex.branch(KNOWN(int_term(pgn))):
                    return (GenDecoder(pgn, st),)
                return (None,)
            return None
        return {'globals_get': globals_get}

    # ---- specification terms (from the property statements) -----------------------------------
    def lid(self, msg):
        a = msg.attrs['id'].parts[0]
        return Atom.LOWER(a.term)

    def permitted(self, pgn_t, lid_t):
        S = self.sets
        excluded = z3.Or(S['exclude_pgns'].pred(pgn_t), S['exclude_pgns_ids'].pred(lid_t))
        included = z3.Or(z3.And(S['include_pgns'].n == 0, S['include_pgns_ids'].n == 0), S['include_pgns'].pred(pgn_t), S['include_pgns_ids'].pred(lid_t))
        return z3.And(z3.Not(excluded), included)

    def mfr_ok(self, ident_present, mfr_none, mfr_lower_t):
        S = self.sets
        passes = z3.And(z3.Not(S['exclude_manufacturer_code'].pred(mfr_lower_t)),
                        z3.Or(S['include_manufacturer_code'].n == 0, S['include_manufacturer_code'].pred(mfr_lower_t)))
        # permissive reading: a source that never claimed, or whose claimed manufacturer code is unknown (None), is not filtered
        return z3.Or(z3.Not(ident_present), mfr_none, passes)


# ---------------------------------------------------------------------------------------------
# exploring _decode (with _call_decode_function inlined) and building the obligations per property
# ---------------------------------------------------------------------------------------------
def explore_decode(r, combined, claim, data_len=8):
    info = r.func(DEC + '_decode')
    holder = {}

    def run(ex):
        st = DState(ex, r, data_len, claim)
        ex.ghost['st'] = st
        ex.__dict__.setdefault('_hooks_installed', True)
        ex.hooks.update(st.hooks())
        ex.contracts.update(st.contracts())
        return ex._run_body(info, [st.pgn, st.prio, st.src, st.dst, st.ts, st.can, st.raw, combined], {}, st.decoder)
    results = explore(r, run, contracts={}, inline={'nmea2000.decoder.NMEA2000Decoder._call_decode_function', 'decoder.*'}, hooks={})
    return info, results


def constructor_attributes(r, init_name):
    """{attribute: is_container} for every `self.<attribute> = ...` / `self.<attribute>: T = ...` of the constructor (read
    from the source on every run)."""
    import ast
    info = r.func(init_name)
    out = {}
    if info is None:
        return out
    for n in ast.walk(info.node):
        tgts, val = [], None
        if isinstance(n, ast.Assign):
            tgts, val = n.targets, n.value
        elif isinstance(n, ast.AnnAssign):
            tgts, val = [n.target], n.value
        elif isinstance(n, ast.AugAssign):
            tgts = [n.target]
        for t in tgts:
            for t1 in (t.elts if isinstance(t, (ast.Tuple, ast.List)) else [t]):
                if isinstance(t1, ast.Attribute) and isinstance(t1.value, ast.Name) and t1.value.id == 'self':
                    # anything that is not plainly a scalar expression counts as a container (a call may return one)
                    cont = not isinstance(val, (ast.Constant, ast.Compare, ast.BoolOp, ast.UnaryOp, ast.BinOp, ast.Name, ast.Attribute, ast.IfExp, ast.JoinedStr, type(None)))
                    out[t1.attr] = out.get(t1.attr, False) or cont
                    if isinstance(val, ast.Constant) and not cont:
                        KINDS[(init_name, t1.attr)] = 'bool' if isinstance(val.value, bool) else ('int' if isinstance(val.value, int) else ('str' if isinstance(val.value, str) else 'other'))
    return out


KINDS = {}


def unknown_ctor_attrs(r, init_name, known, label):
    """Attributes the real constructor creates and the harness does not model, with unknown content (the object has an
    arbitrary history): a container reads as a HavocState, anything else is opaque."""
    out = {}
    for a, is_container in constructor_attributes(r, init_name).items():
        if a not in known:
            kind = KINDS.get((init_name, a))
            if is_container:
                out[a] = HavocState(f'{label}.{a}')
            elif kind == 'int':
                out[a] = mk_int(z3.Int(f'{label}.{a}0'))
            elif kind == 'bool':
                out[a] = mk_bool(z3.Bool(f'{label}.{a}0'))
            elif kind == 'str':
                out[a] = SStr([Atom(f'{label}.{a}0')])
            else:
                out[a] = Opaque(f'{label}.{a}')
    return out


class DecodeTask(Task):
    """_decode + _call_decode_function against the filter / identity / dump specification of C10, C11, C15, C16."""
    def __init__(self, prop, combined, claim, data_len=8):
        self.prop = prop
        self.combined = combined
        self.claim = claim
        self.data_len = data_len
        self.name = f'{prop}:_decode[combined={combined},claim={claim}' + (f',data_bytes={data_len}' if data_len != 8 else '') + ']'

    def run(self, tier):
        out = {'results': [], 'functions': [], 'notes': [], 'bounded': []}
        r = repo()
        t0 = time.time()
        try:
            info, results = explore_decode(r, self.combined, self.claim, self.data_len)
        except V.Unsupported as u:
            out['error'] = f'_decode: outside the modelled subset: {u}'
            from contracts.decoder_scenarios import fallback_results
            out['results'].extend(fallback_results(self.prop))
            return out
        for fn in ('_decode', '_call_decode_function'):
            d = r.func(DEC + fn).describe()
            d['paths'] = len(results)
            d['inlined_into'] = '_decode' if fn != '_decode' else None
            out['functions'].append(d)
        out['functions'][0]['symex_seconds'] = round(time.time() - t0, 2)
        base = f'{self.prop}/{DEC}_decode[{"whole-message" if self.combined else "frame"},{"claim" if self.claim else "non-claim"}' + \
               (f',data_bytes={self.data_len}' if self.data_len != 8 else '') + ']'
        obs = []
        for pi, p in enumerate(results):
            st = p.ex.ghost['st']
            out['notes'].extend(p.ex.dropped)
            hyps = list(p.pc)

            def add(name, goal, note='', scenario=None):
                g = goal if isinstance(goal, z3.ExprRef) else (z3.BoolVal(goal) if isinstance(goal, bool) else bool_term(goal))
                obs.append(Obligation(f'{base}/{name}/path[{pi}]', hyps, g, kind='ensures', func=info.fullname, inputs=st.inputs,
                                      meta={'note': note, 'scenario': scenario or name, 'prop': self.prop}))
            if p.kind == 'raise' and not (p.exc_name() == 'ValueError' and 'field decoder rejected' in str((p.value.attrs.get('args') or [''])[0])):
                add('no-exception-of-its-own', False, f'_decode raises {p.exc_name()}: {str((p.value.attrs.get("args") or [""])[0])[:80]}', 'exception')
            build = {'C10': obligations_c10, 'C11': obligations_c11, 'C15': obligations_c15, 'C16': obligations_c16, 'C08': obligations_c08, 'C17': obligations_c17, 'C07': obligations_c16, 'C03': obligations_c16, 'C05': obligations_c11}[self.prop]
            build(self, p, st, add)
        for ob in obs:
            res = discharge(ob, budget(tier))
            dct = result_dict(res, with_size=False)
            dct['function'] = info.fullname
            if res.status == 'refuted':
                dct['reason'] = ob.meta.get('note', '')
                from contracts.decoder_scenarios import replay_for
                dct['replay'] = replay_for(self.prop, ob.meta.get('scenario'), res.model or {})
            out['results'].append(dct)
        return out


def outcome_facts(p, st):
    """(returned_message: bool, msg Obj or None, fast: bool)"""
    returned = p.kind == 'return' and isinstance(p.value, Obj) and p.value.clsname == 'NMEA2000Message'
    fast = p.kind == 'return' and isinstance(p.value, Opaque) and p.value.name == 'fast-path-result'
    return returned, (p.value if returned else None), fast


def would_be(st):
    """Terms describing the message this frame decodes to (whether or not the path got that far)."""
    data_int = 0
    for b in st.can.items:
        data_int = (data_int << 8) + b
    dt = int_term(data_int)
    pgn_t = st.pgn.t
    decodable = z3.And(KNOWN(pgn_t), SUBMSG(pgn_t, dt))
    lid = Atom.LOWER(IDOF(pgn_t, dt))
    return decodable, lid, data_int


def identity_terms(st):
    present = st.has_ident.t
    mfr_none = st.mfr_none.t
    mfr_lower = Atom.LOWER(st.mfr.parts[0].term)
    return present, mfr_none, mfr_lower


def withheld_term(p, st):
    nows = p.ex.ghost.get('now_calls', [])
    if not nows:
        return None
    now = nows[0]
    return z3.And(st.bnm.t, z3.Not(st.has_ident.t), st.started.t > now - 600)


def obligations_c10(task, p, st, add):
    returned, msg, fast = outcome_facts(p, st)
    decodable, lid, data_int = would_be(st)
    pgn_t = st.pgn.t
    perm = st.permitted(pgn_t, lid)
    present, mfr_none, mfr_lower = identity_terms(st)
    if task.claim:
        # address claims: returned iff decodable and not filtered; the source map is updated whenever they decode
        if returned:
            add('returned-claim-is-permitted', z3.Not(st.icf.t), 'an address claim is returned although the configuration filters it', 'claim-filter')
        elif p.kind == 'return' and p.value is None:
            add('permitted-claim-is-returned', z3.Not(z3.And(decodable, z3.Not(st.icf.t))), 'a permitted address claim is dropped', 'claim-filter')
        entry = st.map.entries[0][1]
        updated = st.new_ident is not None and any(x is st.new_ident for _, x in alts(entry))
        kept = any(x is st.ident for _, x in alts(entry))
        decoded_here = st.msg is not None
        add('claim-updates-the-source-map-even-when-filtered', (not decoded_here) or updated or kept,
            'a decoded address claim left no identity in the source map', 'claim-map')
        if p.kind == 'return':
            # PGN 60928 has one definition without match fields: every claim frame decodes, so every path that returns
            # (message or None) must have gone through the decode function and the source-map update
            add('every-claim-is-decoded-whatever-the-filters', True if decoded_here else z3.Or(z3.Not(decodable), KIND(pgn_t) != 1), 'an address claim is dropped before it is decoded: the source map misses it', 'claim-map')
        return
    if fast:
        # frame of a fast packet: must not have been dropped by a filter that an unfiltered decoder would not apply ... and vice versa
        S = st.sets
        dropped_by_number = z3.Or(S['exclude_pgns'].pred(pgn_t), z3.And(S['include_pgns'].n > 0, S['include_pgns_ids'].n == 0, z3.Not(S['include_pgns'].pred(pgn_t))))
        add('reassembly-only-for-pgns-not-dropped-by-number', z3.Not(dropped_by_number), scenario='numeric-prefilter')
        # ... and only frames (never pre-assembled input) of PGNs the database calls fast packets are reassembled
        add('reassembly-only-for-frames-of-fast-packet-pgns', False if task.combined else KIND(pgn_t) == 2,
            'input that is not a frame of a fast-packet PGN is handed to the reassembly', 'fast-decision')
        return
    if returned and not task.combined:
        add('frame-decoded-on-its-own-only-for-single-frame-pgns', KIND(pgn_t) == 1, 'a frame of a fast-packet PGN is decoded as if it were a whole message', 'fast-decision')
    if returned:
        add('returned-message-is-permitted', st.permitted(pgn_t, st.lid(msg)), 'a message is returned although its PGN/id is not permitted by the filter lists', 'filter-sound')
        add('returned-message-is-the-decoded-one', msg is st.msg, scenario='content')
    elif p.kind == 'return' and p.value is None:
        wh = withheld_term(p, st)
        others_ok = z3.And(st.mfr_ok(present, mfr_none, mfr_lower), z3.Not(wh) if wh is not None else z3.BoolVal(True))
        kind_ok = KIND(pgn_t) != 0 if not task.combined else z3.BoolVal(True)
        add('permitted-message-is-not-dropped', z3.Not(z3.And(decodable, perm, others_ok, kind_ok)),
            'a decodable, permitted message is dropped', 'filter-complete')
    # the source map is not written by non-claim traffic
    add('non-claim-traffic-leaves-the-source-map-alone', not st.map.log and not st.map.foreign, f'source map writes: {st.map.log}', 'map-frame')


def obligations_c11(task, p, st, add):
    returned, msg, fast = outcome_facts(p, st)
    present, mfr_none, mfr_lower = identity_terms(st)
    entry = st.map.entries[0][1]
    if task.claim:
        decoded_here = st.msg is not None
        if p.kind == 'return':
            add('every-claim-reaches-the-source-map', True if decoded_here else z3.Or(z3.Not(would_be(st)[0]), KIND(st.pgn.t) != 1), 'an address claim returns without being decoded: the source map keeps a stale identity', 'claim-map')
        if decoded_here:
            decodable, lid, data_int = would_be(st)
            same_name = mk_bool(z3.And(present, st.old_name.t == int_term(data_int)))
            # map'[src] = identity of this NAME: the stored identity is reused iff its NAME equals the claim's 64 bits
            reused = any(x is st.ident for _, x in alts(entry)) and st.new_ident is None
            replaced = st.new_ident is not None and all(x is st.new_ident for _, x in alts(entry) if x is not ABSENT)
            add('claim-stores-the-identity-of-its-NAME', vor(vand(same_name, reused), vand(vnot(same_name), replaced)),
                'after an address claim the source map does not hold the identity of the claimed NAME', 'claim-map')
            if st.new_ident is not None:
                add('new-identity-is-built-from-this-claim', st.new_ident.attrs.get('from_message') is st.msg and veq(st.new_ident.attrs['name'], data_int))
            add('claim-touches-only-its-own-address', not st.map.foreign and all(k is st.src for (op, *ks) in st.map.log for k in ks[:1]), f'{st.map.foreign}', 'claim-map')
            if returned:
                a = [c for c in st.add_data_calls if c[0] is msg]
                add('claim-message-carries-the-claimed-identity', vor(is_obj(a[0][1][4], st.new_ident), is_obj(a[0][1][4], st.ident)) if len(a) == 1 else False)
        return
    if fast:
        c = st.fast_calls[0] if st.fast_calls else None
        add('reassembly-receives-the-current-identity-of-the-source', c is not None and identity_is(c[6], st), scenario='identity')
        wh = withheld_term(p, st)
        if wh is not None:
            add('unknown-source-is-withheld-during-discovery', z3.Not(wh), 'a frame of an unknown source enters reassembly inside the discovery window', 'withhold')
        add('manufacturer-filter-applies', st.mfr_ok(present, mfr_none, mfr_lower), scenario='manufacturer')
        return
    if returned:
        a = [c for c in st.add_data_calls if c[0] is msg]
        add('identity-attached-once', len(a) == 1, f'{len(a)} add_data calls')
        if len(a) == 1:
            args = a[0][1]
            add('message-carries-the-latest-identity-of-its-source', identity_is(args[4], st), 'identity attached is not the source map entry of the source address', 'identity')
            add('addressing-attached-unchanged', vand(veq(args[0], st.src), veq(args[1], st.dst), veq(args[2], st.prio), args[3] is st.ts, args[6] is st.raw))
            add('network-map-flag-passed', args[5] is st.bnm)
        add('claimed-manufacturer-passes-the-lists', st.mfr_ok(present, mfr_none, mfr_lower), 'a message of a source whose claimed manufacturer is filtered out is returned', 'manufacturer')
        wh = withheld_term(p, st)
        if wh is not None:
            add('unknown-source-is-withheld-during-discovery', z3.Not(wh), 'a message of an unknown source is returned inside the discovery window', 'withhold')
        else:
            add('unknown-source-is-withheld-during-discovery', z3.Or(z3.Not(st.bnm.t), st.has_ident.t), scenario='withhold')
    add('non-claim-traffic-leaves-the-source-map-alone', not st.map.log and not st.map.foreign, f'{st.map.log}', 'map-frame')


def is_obj(v, target):
    if target is None:
        return False
    gs = [g for g, x in alts(v) if x is target]
    return mk_bool(z3.Or(*gs)) if gs else False


def identity_is(v, st):
    """The value attached equals map[src] before the call (None if the address never claimed)."""
    ok = []
    for g, x in alts(v):
        if x is st.ident:
            ok.append(z3.And(g, st.has_ident.t))
        elif x is None:
            ok.append(z3.And(g, z3.Not(st.has_ident.t)))
    return mk_bool(z3.Or(*ok)) if ok else False


def obligations_c15(task, p, st, add):
    returned, msg, fast = outcome_facts(p, st)
    lines = st.dump.lines
    S = st.sets
    if not returned:
        add('nothing-dumped-for-suppressed-messages', not lines, f'{len(lines)} lines written although no message is returned', 'dump')
        return
    lid = st.lid(msg)
    match = z3.Or(z3.And(S['dump_include_pgns'].n == 0, S['dump_include_pgns_ids'].n == 0), S['dump_include_pgns'].pred(st.pgn.t), S['dump_include_pgns_ids'].pred(lid))
    should = z3.And(st.dump_on.t, match)
    if lines:
        # the line written is the JSON of the message AS RETURNED: nothing modifies the message after it was rendered
        order = [k for k, o in st.call_order if o is msg]
        if 'to_json' in order:
            i = order.index('to_json')
            add('message-is-not-modified-after-it-was-dumped', not [k for k in order[i + 1:] if k != 'to_json'] and 'add_data' in order[:i] and 'apply_preferred_units' in order[:i],
                f'order of effects on the returned message: {order}', 'dump-order')
        add('dumped-only-when-enabled-and-matching', should, 'a line is dumped for a message that does not match the dump filter', 'dump')
        ok = len(lines) == 1 and isinstance(lines[0], SStr) and len(lines[0].parts) == 2 and lines[0].parts[1] == '\n' and isinstance(lines[0].parts[0], Atom)
        add('one-line-json-plus-newline', ok, f'written: {lines!r}')
    else:
        add('matching-message-is-dumped', z3.Not(should), 'a returned message that matches the dump filter is not written', 'dump')


def obligations_c16(task, p, st, add):
    # the outcome is a function of the configuration, the source map and the input (the filter / identity contract of C10):
    # in particular it does not depend on which PGNs were reported as unsupported earlier
    obligations_c10(task, p, st, add)
    # only PGNs without a decode function are remembered as unsupported (an ignored input of a supported PGN changes nothing)
    for (pg, pc) in st.log_calls:
        add('only-unknown-pgns-are-remembered-as-unsupported', z3.Not(KNOWN(int_term(pg))), 'a PGN that has decode functions is recorded as unsupported', 'ignored-input')
    # frame conditions: which decoder state a call may write
    written = set(st.decoder.attrs) - st.attr_names
    add('no-new-decoder-attributes', not written, f'{sorted(written)}')
    for k in st.attr_names:
        if k in ('source_to_iso_name',):
            continue
        same = st.decoder.attrs[k] is getattr(st, '_orig_' + k, st.decoder.attrs[k])
    if p.kind == 'raise':
        add('exception-leaves-the-source-map-unchanged', (not st.map.log) or task.claim, f'{st.map.log}', 'exception-state')
    if not task.claim:
        add('single-frame-path-writes-no-decoder-state', not st.map.log and not st.map.foreign, scenario='map-frame')


def obligations_c17(task, p, st, add):
    """Call site of add_data: every returned message went through add_data exactly once with the decoder's own
    build_network_map flag (so 'with mapping on every returned message has a hash, with mapping off none' reduces to
    the contract of add_data)."""
    returned, msg, fast = outcome_facts(p, st)
    if not returned:
        return
    a = [c for c in st.add_data_calls if c[0] is msg]
    add('hash-computed-once-per-returned-message', len(a) == 1, f'{len(a)} add_data calls')
    if len(a) == 1:
        add('network-map-flag-passed-unchanged', a[0][1][5] is st.bnm, 'add_data does not receive the decoder\'s build_network_map flag itself: the hash then depends on something else', 'hash-flag')


def obligations_c08(task, p, st, add):
    # the decode function looked up is the generated dispatcher of this PGN and receives the payload integer
    decodable, lid, data_int = would_be(st)
    for (pgn, di) in st.decode_calls:
        add('decode-function-of-this-pgn-gets-the-payload-integer', vand(veq(pgn, st.pgn), veq(di, data_int)), scenario='dispatch')
    add('at-most-one-decode-call', len(st.decode_calls) <= 1)


# ---------------------------------------------------------------------------------------------
# the constructor: filter collections, claim flag, ownership of the arguments
# ---------------------------------------------------------------------------------------------
class InitTask(Task):
    """NMEA2000Decoder.__init__ for small argument shapes (list lengths <= 2, elements symbolic ints / ids, with and
    without the address-claim PGN by number and by id in mixed case).  Loops are unrolled: bounded in the list length."""
    def __init__(self, prop, which, shape):
        self.prop = prop
        self.which = which          # 'exclude' | 'include'
        self.shape = shape          # tuple of element kinds: 'int', 'id', 'claim-number', 'claim-id'
        self.name = f'{prop}:__init__[{which}={",".join(shape) or "empty"}]'

    def run(self, tier):
        out = {'results': [], 'functions': [], 'notes': [], 'bounded': []}
        r = repo()
        info = r.func(DEC + '__init__')
        out['functions'].append(info.describe())
        base = f'{self.prop}/{DEC}__init__[{self.which}:{",".join(self.shape) or "empty"}]'

        def elems(ex):
            xs = []
            for i, k in enumerate(self.shape):
                if k == 'int':
                    xs.append(ex.fresh(f'arg{i}', lo=0, hi=(1 << 18) - 1))
                elif k == 'id':
                    xs.append(SStr([Atom(f'arg{i}')]))
                elif k == 'claim-number':
                    xs.append(CLAIM)
                else:
                    xs.append('IsoAddressClaim')
            return xs

        def run(ex):
            g = ex.ghost
            lst = elems(ex)
            g['lst'] = lst
            g['orig'] = list(lst)
            other = []
            g['other'] = other
            g['mx'] = [SStr([Atom('mfr_excl')])]
            g['mi'] = []
            g['prefs'] = {}
            g['dump'] = [ex.fresh('dump0', lo=0), SStr([Atom('dump1')])]
            g['dump_orig'] = list(g['dump'])
            dec = Obj(r.cls('decoder', 'NMEA2000Decoder'), {})
            g['dec'] = dec
            kw = {'exclude_pgns': lst if self.which == 'exclude' else other, 'include_pgns': lst if self.which == 'include' else other,
                  'exclude_manufacturer_code': g['mx'], 'include_manufacturer_code': g['mi'], 'preferred_units': g['prefs'], 'dump_to_file': None,
                  'dump_pgns': g['dump'], 'build_network_map': ex.fresh('bnm', 'bool')}
            for a in str_axioms():
                ex.assume(a)
            return ex._run_body(info, [], kw, dec)
        try:
            results = explore(r, run, contracts={}, inline={'nmea2000.decoder.NMEA2000Decoder.split_pgn_list', 'decoder.*'})
        except V.Unsupported as u:
            out['error'] = f'__init__: outside the modelled subset: {u}'
            return out
        obs = []
        for pi, p in enumerate(results):
            g = p.ex.ghost
            hyps = list(p.pc)

            def add(name, goal, note=''):
                gl = goal if isinstance(goal, z3.ExprRef) else (z3.BoolVal(goal) if isinstance(goal, bool) else bool_term(goal))
                obs.append(Obligation(f'{base}/{name}/path[{pi}]', hyps, gl, kind='ensures', func=info.fullname, inputs={}, meta={'note': note, 'scenario': 'init', 'prop': self.prop}))
            if p.kind == 'raise':
                add('constructor-accepts-well-formed-lists', False, f'raises {p.exc_name()}')
                continue
            dec = g['dec']
            a = dec.attrs
            lst, orig = g['lst'], g['orig']
            # ownership: arguments are neither stored nor modified
            add('argument-lists-not-modified', len(lst) == len(orig) and all(x is y for x, y in zip(lst, orig)) and g['other'] == [] and len(g['dump']) == 2 and g['mi'] == [] and g['prefs'] == {},
                'the constructor modified one of its argument lists (shared default arguments!)')
            stored = [k for k, v in a.items() if any(v is o for o in (lst, g['other'], g['mx'], g['mi'], g['prefs'], g['dump']))]
            add('argument-objects-not-stored', not stored, f'stored by reference: {stored}')
            ints = [x for x in orig if isinstance(x, int) or (isinstance(x, Sym) and x.ty == 'int')]
            ids = [x for x in orig if isinstance(x, (str, SStr))]
            lows = [x.lower() if isinstance(x, str) else SStr([Atom(x.parts[0].name, True, x.parts[0].term)]) for x in ids]
            pre, preid = ('exclude_pgns', 'exclude_pgns_ids') if self.which == 'exclude' else ('include_pgns', 'include_pgns_ids')
            opp, oppid = ('include_pgns', 'include_pgns_ids') if self.which == 'exclude' else ('exclude_pgns', 'exclude_pgns_ids')
            add('other-lists-empty', a.get(opp) == [] and a.get(oppid) == [])
            # claim flag <=> address claims are not permitted by the user's lists
            has_claim_num = vor(*[veq(x, CLAIM) for x in ints]) if ints else False
            has_claim_id = vor(*[SStr.eq(None, x, CLAIM_ID_LOWER) for x in lows]) if lows else False
            if self.which == 'exclude':
                not_permitted = vor(has_claim_num, has_claim_id)
            else:
                not_permitted = vand(len(orig) > 0, vnot(has_claim_num), vnot(has_claim_id))
            icf = a.get('iso_claim_filter')
            icf_b = icf if isinstance(icf, (bool, Sym)) else p.ex.truth(icf) if icf is not None else False
            add('claim-flag-iff-address-claims-not-permitted', veq(bool(icf_b) if not isinstance(icf_b, Sym) else icf_b, not_permitted),
                f'iso_claim_filter={icf!r}')
            # the number / id collections hold exactly the user's entries (ids lower-cased); the claim is taken out of the exclude lists when flagged
            got_n, got_i = a.get(pre), a.get(preid)
            ok_shape = isinstance(got_n, list) and isinstance(got_i, list)
            add('collections-are-lists', ok_shape)
            if ok_shape:
                def member(x, xs):
                    return vor(*[veq(x, y) if not isinstance(x, (str, SStr)) else SStr.eq(None, x, y) for y in xs]) if xs else False
                for x in ints:
                    keep = vnot(veq(x, CLAIM)) if self.which == 'exclude' else True
                    add('number-kept', vor(vnot(keep), member(x, got_n)))
                for x in got_n:
                    add('no-extra-number', member(x, ints))
                for x in lows:
                    keep = vnot(SStr.eq(None, x, CLAIM_ID_LOWER)) if self.which == 'exclude' else True
                    add('id-kept-lower-cased', vor(vnot(keep), member(x, got_i)))
                for x in got_i:
                    add('no-extra-id', member(x, lows))
                if self.which == 'exclude':
                    add('claim-not-left-in-the-exclude-lists', vand(vnot(member(CLAIM, got_n)), vnot(member(CLAIM_ID_LOWER, got_i))))
            fresh_ok = isinstance(a.get('data'), dict) and a['data'] == {} and isinstance(a.get('source_to_iso_name'), dict) and a['source_to_iso_name'] == {}
            add('per-instance-state-is-fresh', fresh_ok)
        for ob in obs:
            res = discharge(ob, budget(tier))
            dct = result_dict(res, with_size=False)
            dct['function'] = info.fullname
            if res.status == 'refuted':
                dct['reason'] = ob.meta.get('note', '')
                from contracts.decoder_scenarios import replay_for
                dct['replay'] = replay_for(self.prop, 'init', res.model or {})
            out['results'].append(dct)
        return out


class ClaimPgnTask(Task):
    """Facts about PGN 60928 the claim obligations rest on: the generated module classifies it (single frame) and has
    one decode function for it, so `fast_kind(60928) != 0` and every claim payload reaches the decode function."""
    def __init__(self, prop):
        self.prop = prop
        self.name = f'{prop}:claim-pgn-is-known'

    def run(self, tier):
        out = {'results': [], 'functions': [], 'notes': [], 'bounded': []}
        r = repo()
        r.load('pgns')
        info = r.func('pgns.is_fast_pgn_60928')
        ok = False
        note = 'missing'
        if info is not None:
            out['functions'].append(info.describe())
            res = explore(r, lambda ex: ex._run_body(info, [], {}, None))
            ok = len(res) == 1 and res[0].kind == 'return' and res[0].value is False
            note = f'returns {res[0].value if res else None!r}'
        dec = r.func('pgns.decode_pgn_60928')
        obs = [Obligation(f'{self.prop}/pgns.is_fast_pgn_60928/exists-and-returns-False', [], z3.BoolVal(ok), kind='lemma', meta={'note': note}),
               Obligation(f'{self.prop}/pgns.decode_pgn_60928/exists', [], z3.BoolVal(dec is not None), kind='lemma', meta={'note': 'the claim PGN has a decode function'}),
               Obligation(f'{self.prop}/decoder.ISO_CLAIM_PGN/is-60928', [], z3.BoolVal(claim_constant(r) == 60928), kind='lemma', meta={'note': f'{claim_constant(r)!r}'})]
        for ob in obs:
            res = discharge(ob, budget(tier))
            dct = result_dict(res, with_size=False)
            if res.status == 'refuted':
                dct['reason'] = ob.meta.get('note', '')
            out['results'].append(dct)
        return out


def claim_constant(r):
    import ast as _ast
    node = r.load('decoder').assigns.get('ISO_CLAIM_PGN')
    try:
        return _ast.literal_eval(node)
    except Exception:  # noqa
        return None


def init_tasks(prop):
    shapes = [(), ('int',), ('id',), ('claim-number',), ('claim-id',), ('int', 'id'), ('id', 'claim-id'), ('int', 'claim-number'), ('claim-number', 'claim-id'), ('id', 'id'), ('int', 'int')]
    return [InitTask(prop, w, s) for w in ('exclude', 'include') for s in shapes]


class InitPrefsTask(Task):
    """NMEA2000Decoder.__init__ and the preference map: for every argument map (concrete entries in every order, up to
    three, recognised and unrecognised, mixed letter case) each RECOGNISED (quantity, unit) entry is stored under its
    quantity with the unit lower-cased - whatever other entries the map holds (unrecognised entries may be kept or
    dropped: they change nothing either way, C18); the argument itself is not modified."""
    def __init__(self, prop='C18'):
        self.prop = prop
        self.name = f'{prop}:__init__[preferred_units]'

    def run(self, tier):
        import itertools
        from pyvc.symex import EnumVal
        out = {'results': [], 'functions': [], 'notes': [], 'bounded': []}
        r = repo()
        info = r.func(DEC + '__init__')
        out['functions'].append(info.describe())
        rec = [('TEMPERATURE', 'C'), ('TEMPERATURE', 'f'), ('PRESSURE', 'Bar'), ('PRESSURE', 'PSI'), ('ANGLE', 'DEG'), ('SPEED', 'kts')]
        unrec = [('DISTANCE', 'nm'), ('ANGLE', 'grad'), ('TEMPERATURE', 'kelvin'), ('VOLUME', 'gal')]
        maps = [[]]
        for a in rec + unrec:
            maps.append([a])
        for a, b in itertools.permutations(rec[:1] + rec[2:3] + rec[4:] + unrec[:2], 2):
            if a[0] != b[0]:
                maps.append([a, b])
        for trio in ([unrec[0], rec[0], rec[2]], [rec[5], unrec[1], rec[3]], [rec[4], rec[5], unrec[3]], [unrec[1], unrec[0], rec[1]], [rec[0], rec[2], rec[4]]):
            if len({q for q, _ in trio}) == 3:
                maps.append(trio)
        bad = []
        n = 0
        for entries in maps:
            prefs = {}
            for q, u in entries:
                prefs[EnumVal('PhysicalQuantities', q)] = u
            keys0 = list(prefs.items())
            dec = Obj(r.cls('decoder', 'NMEA2000Decoder'), {})
            kw = {'preferred_units': prefs, 'dump_to_file': None}
            try:
                res = explore(r, lambda ex: ex._run_body(info, [], dict(kw), dec), contracts={}, inline={'nmea2000.decoder.NMEA2000Decoder.split_pgn_list', 'decoder.*'})
            except V.Unsupported as u:
                out['error'] = f'__init__: outside the modelled subset: {u}'
                return out
            n += 1
            for p in res:
                if p.kind == 'raise':
                    bad.append(f'{entries}: raises {p.exc_name()}')
                    continue
                stored = dec.attrs.get('preferred_units')
                if not isinstance(stored, dict):
                    bad.append(f'{entries}: preferred_units is {stored!r}')
                    continue
                got = {getattr(k, 'member', k): v for k, v in stored.items()}
                for q, u in entries:
                    if (q, u) in rec and got.get(q) != u.lower():
                        bad.append(f'{entries}: recognised preference {q}={u!r} stored as {got.get(q)!r}')
                if list(prefs.items()) != keys0:
                    bad.append(f'{entries}: the argument map was modified')
        ob = Obligation(f'{self.prop}/{DEC}__init__/every-recognised-preference-is-stored-lower-cased', [], z3.BoolVal(not bad), kind='ensures', func=info.fullname,
                        meta={'note': '; '.join(bad)[:400]})
        res = discharge(ob, budget(tier))
        dct = result_dict(res, with_size=False)
        dct['function'] = info.fullname
        if res.status == 'refuted':
            dct['reason'] = ob.meta['note']
            dct['replay'] = replay_prefs(maps, rec)
        out['results'].append(dct)
        out['notes'].append(f'{n} preference maps (concrete, every order)')
        return out


def replay_prefs(maps, rec):
    from nmea2000.decoder import NMEA2000Decoder
    from nmea2000.consts import PhysicalQuantities as PQ
    for entries in maps:
        prefs = {getattr(PQ, q): u for q, u in entries}
        try:
            d = NMEA2000Decoder(preferred_units=prefs)
        except Exception as e:  # noqa
            return {'confirmed': True, 'inputs': {'preferred_units': entries}, 'observed': f'{type(e).__name__}: {e}'}
        for q, u in entries:
            if (q, u) in rec and d.preferred_units.get(getattr(PQ, q)) != u.lower():
                return {'confirmed': True, 'inputs': {'preferred_units': entries}, 'observed': {k.name: v for k, v in d.preferred_units.items()},
                        'expected': f'{q} -> {u.lower()!r} stored (a recognised preference is honoured whatever else the map holds)', 'how': 'NMEA2000Decoder(preferred_units=...) on the working tree'}
    return {'confirmed': False}



class InitDumpTask(Task):
    """NMEA2000Decoder.__init__ with dumping enabled: the dump file is opened once, for appending text, in a way that stores every
    character written (no lossy error handler, no encoding that cannot represent the JSON text)."""
    def __init__(self, prop='C15'):
        self.prop = prop
        self.name = f'{prop}:__init__[dump_to_file]'

    def run(self, tier):
        out = {'results': [], 'functions': [], 'notes': [], 'bounded': []}
        r = repo()
        info = r.func(DEC + '__init__')
        out['functions'].append(info.describe())
        dec = Obj(r.cls('decoder', 'NMEA2000Decoder'), {})
        holder = {}

        def run(ex):
            holder['ex'] = ex
            return ex._run_body(info, [], {'dump_to_file': 'dumps/out.jsonl', 'dump_pgns': []}, dec)
        try:
            res = explore(r, run, contracts={}, inline={'nmea2000.decoder.NMEA2000Decoder.split_pgn_list', 'decoder.*'})
        except V.Unsupported as u:
            out['error'] = f'__init__: outside the modelled subset: {u}'
            return out
        bad = []
        for p in res:
            if p.kind == 'raise':
                bad.append(f'raises {p.exc_name()}')
                continue
            calls = p.ex.ghost.get('open_calls', [])
            if len(calls) != 1:
                bad.append(f'{len(calls)} open() calls')
                continue
            a, kw = calls[0]
            mode = a[1] if len(a) > 1 else kw.get('mode', 'r')
            enc = (a[3] if len(a) > 3 else kw.get('encoding'))
            errs = (a[4] if len(a) > 4 else kw.get('errors'))
            if a[:1] != ['dumps/out.jsonl']:
                bad.append(f'opens {a[:1]!r}')
            if mode not in ('a', 'at', 'w', 'wt', 'a+', 'w+'):
                bad.append(f'mode {mode!r}')
            if enc is not None and str(enc).lower().replace('_', '-') not in ('utf-8', 'utf8', 'utf-8-sig', 'utf-16', 'utf-32'):
                bad.append(f'encoding {enc!r} cannot store every character of the JSON text')
            if errs not in (None, 'strict'):
                bad.append(f'errors={errs!r} rewrites characters instead of storing them')
            if p.ex.ghost.get('open_calls') and not isinstance(dec.attrs.get('dump_TextIOWrapper'), Opaque):
                bad.append('the opened file is not kept as dump_TextIOWrapper')
        ob = Obligation(f'{self.prop}/{DEC}__init__/dump-file-opened-once-for-faithful-text-append', [], z3.BoolVal(not bad), kind='ensures', func=info.fullname, meta={'note': '; '.join(bad)[:300]})
        rs = discharge(ob, budget(tier))
        dct = result_dict(rs, with_size=False)
        dct['function'] = info.fullname
        if rs.status == 'refuted':
            dct['reason'] = ob.meta['note']
            from contracts.decoder_scenarios import replay_for
            dct['replay'] = replay_for(self.prop, 'dump', {})
        out['results'].append(dct)
        return out
