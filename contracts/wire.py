"""Contracts of the wire-format encoders / decoders (C05c, C06, C07) and the tasks that check them."""
from __future__ import annotations
import time
import z3
from pyvc import values as V
from pyvc.values import Sym, bool_term, vand, vor, vnot, veq, mk_int, mk_bool, ite
from pyvc.gv import GV
from pyvc.sbytes import SBytes
from pyvc.sstr import SStr, Fmt, Atom, sstr_concat
from pyvc.report import Task
from pyvc.tasks import repo, budget, result_dict
from pyvc.solve import Obligation, discharge
from pyvc.symex import explore, built_instance, Obj, Opaque, PyRaise, make_exc, FuncVal
from pyvc.builtins import EncodedStr
from contracts.headers import ExtractHeader, BuildHeader
from contracts.utils_c import Checksum
from spec import specfun as S

ENC = 'encoder.NMEA2000Encoder.'
DEC = 'decoder.NMEA2000Decoder.'


def term(x):
    if isinstance(x, bool):
        return z3.BoolVal(x)
    if isinstance(x, z3.ExprRef):
        return x
    return bool_term(x)


def seq_eq(a, b):
    """Equality of two byte sequences given as lists of items / SBytes."""
    a = list(SBytes.of(a).items) if not isinstance(a, list) else a
    b = list(SBytes.of(b).items) if not isinstance(b, list) else b
    if len(a) != len(b):
        return False
    return vand(*[x == y for x, y in zip(a, b)])


def checksum_contract():
    def call(ex, f, args, kwargs):
        data = args[0]
        items = list(data.items) if isinstance(data, SBytes) else list(data)
        tot = 0
        for b in items[2:19]:
            tot = tot + b
        return tot % 256
    return call


def header_contracts():
    return {'nmea2000.decoder.NMEA2000Decoder._extract_header': ExtractHeader().as_callee(),
            'nmea2000.encoder.NMEA2000Encoder._build_header': BuildHeader().as_callee(),
            'nmea2000.utils.calculate_canbus_checksum': checksum_contract()}


class Msg:
    """A message object with symbolic addressing (the header fields the wire encoders read)."""
    def __init__(self, ex, r):
        self.pgn = ex.fresh('msg.PGN', bits=18)
        self.src = ex.fresh('msg.source', bits=8)
        self.dst = ex.fresh('msg.destination', bits=8)
        self.prio = ex.fresh('msg.priority', bits=3)
        self.obj = Obj(r.cls('message', 'NMEA2000Message'), {'PGN': self.pgn, 'source': self.src, 'destination': self.dst, 'priority': self.prio,
                                                             'id': 'x', 'fields': []})
        self.inputs = {'msg.PGN': self.pgn.t, 'msg.source': self.src.t, 'msg.destination': self.dst.t, 'msg.priority': self.prio.t}

    def can_id(self):
        return S.build(self.pgn, self.src, self.dst, self.prio)


def frames_for(ex, lengths):
    out = []
    for k, n in enumerate(lengths):
        out.append(SBytes([ex.fresh(f'frame{k}[{i}]', bits=8) for i in range(n)]))
    return out


def be32(x):
    return [(x >> 24) & 0xFF, (x >> 16) & 0xFF, (x >> 8) & 0xFF, x & 0xFF]


# ---- specifications of the four packet formats (from the property statement) ---------------------------
def spec_ebyte(can_id, data):
    n = len(data)
    return [0x80 | n] + be32(can_id) + list(data) + [0] * (8 - n)


def spec_usb(can_id, data):
    n = len(data)
    body = [0xAA, 0x55, 0x01, 0x02, 0x01] + be32(can_id)[::-1] + [n] + list(data) + [0] * (8 - n) + [0]
    tot = 0
    for b in body[2:19]:
        tot = tot + b
    return body + [tot % 256]


def hex_tokens(items, spec='02X'):
    return [Fmt(b, spec) if isinstance(b, Sym) else format(b, spec) for b in items]


def spec_yd(can_id, data):
    parts = hex_tokens(be32(can_id)) + [' ']
    for i, b in enumerate(data):
        if i:
            parts.append(' ')
        parts += hex_tokens([b])
    parts.append('\r\n')
    out = ''
    for p in parts:
        out = sstr_concat(out, p if isinstance(p, str) else SStr([p]))
    return out


def spec_actisense(msg, payload):
    n = (msg.src << 12) | (msg.dst << 4) | msg.prio
    out = ''
    for p in [Fmt(n, '05X'), ' ', Fmt(msg.pgn, '05X'), ' '] + hex_tokens(list(payload)):
        out = sstr_concat(out, p if isinstance(p, str) else SStr([p]))
    return out


def sstr_of(v):
    return v.s if isinstance(v, EncodedStr) else v


def str_eq(a, b):
    if isinstance(a, str) and isinstance(b, str):
        return a == b
    return SStr.eq(None, a, b)


class EncoderTask(Task):
    """encode_ebyte / encode_usb / encode_yacht_devices against the packet layouts, for frames of every length 0..8."""
    def __init__(self, fmt, prop='C06'):
        self.fmt = fmt
        self.prop = prop
        self.name = f'{prop}:encode_{fmt}'

    def run(self, tier):
        out = {'results': [], 'functions': [], 'notes': [], 'bounded': []}
        r = repo()
        fname = {'ebyte': 'encode_ebyte', 'usb': 'encode_usb', 'yd': 'encode_yacht_devices', 'actisense': 'encode_actisense'}[self.fmt]
        info = r.func(ENC + fname)
        if info is None:
            out['error'] = f'{fname} not found'
            return out
        out['functions'].append(info.describe())
        base = f'{self.prop}/{ENC}{fname}'
        lengths = list(range(0, 9)) if self.fmt != 'actisense' else [0, 1, 3, 8, 17]

        def run(ex):
            m = Msg(ex, r)
            ex.ghost['m'] = m
            frames = frames_for(ex, lengths)
            ex.ghost['frames'] = frames
            enc = built_instance(ex, r.cls('encoder', 'NMEA2000Encoder'), {'sequence_counter': ex.fresh('seq', bits=3)})
            if self.fmt == 'actisense':
                k = ex.choose(len(lengths), 'payload-length')
                ex.ghost['k'] = k
            return ex._run_body(info, [m.obj], {}, enc)

        def c_encode(ex, f, args, kwargs):
            ex.ghost.setdefault('encode_calls', []).append(args)
            return list(ex.ghost['frames'])

        def c_call_encode(ex, f, args, kwargs):
            ex.ghost.setdefault('encode_calls', []).append(args)
            return ex.ghost['frames'][ex.ghost['k']]
        contracts = header_contracts()
        contracts['nmea2000.encoder.NMEA2000Encoder._encode'] = c_encode
        contracts['nmea2000.encoder.NMEA2000Encoder._call_encode_function'] = c_call_encode
        try:
            results = explore(r, run, contracts=contracts, inline={'nmea2000.encoder.NMEA2000Encoder.bytes_to_hex_string'})
        except V.Unsupported as u:
            out['error'] = f'{fname}: outside the modelled subset: {u}'
            return out
        obs = []
        for pi, p in enumerate(results):
            m = p.ex.ghost['m']
            frames = p.ex.ghost['frames']
            hyps = list(p.pc)
            inputs = dict(m.inputs)
            for k, fr in enumerate(frames):
                for i, b in enumerate(fr.items):
                    inputs[f'frame{k}[{i}]'] = b.t

            def add(name, goal, note=''):
                obs.append(Obligation(f'{base}/{name}/path[{pi}]', hyps, term(goal), kind='ensures', func=info.fullname, inputs=inputs, meta={'note': note, 'fmt': self.fmt}))
            for (oname, cond, pc_snap) in p.ex.obligations:
                obs.append(Obligation(f'{base}/{oname}/path[{pi}]', pc_snap, cond, kind='requires@callsite', inputs=inputs, meta={'fmt': self.fmt}))
            if p.kind == 'raise':
                add('no-exception', False, f'raises {p.exc_name()}')
                continue
            calls = p.ex.ghost.get('encode_calls', [])
            add('encodes-this-message-once', len(calls) == 1 and calls[0][0] is m.obj)
            cid = m.can_id()
            if self.fmt == 'actisense':
                k = p.ex.ghost['k']
                add('actisense-line-is-header-pgn-payload-hex', str_eq(p.value, spec_actisense(m, frames[k])), f'got {p.value!r}')
                continue
            res = p.value
            add('one-packet-per-frame', isinstance(res, list) and len(res) == len(frames))
            if not isinstance(res, list):
                continue
            for k, (pk, fr) in enumerate(zip(res, frames)):
                n = len(fr)
                if self.fmt == 'ebyte':
                    add(f'packet-is-exactly-13-bytes[data_length={n}]', isinstance(pk, (SBytes, bytes)) and len(pk) == 13, f'{len(pk) if hasattr(pk, "__len__") else "?"} bytes')
                    want = spec_ebyte(cid, fr.items)
                    got = list(SBytes.of(pk).items) if isinstance(pk, (SBytes, bytes)) else []
                    add(f'type-byte-id-data[data_length={n}]', seq_eq(got[:5 + n], want[:5 + n]) if len(got) >= 5 + n else False)
                    add(f'zero-padding[data_length={n}]', seq_eq(got, want) if len(got) == 13 else False)
                elif self.fmt == 'usb':
                    add(f'packet-is-exactly-20-bytes[data_length={n}]', isinstance(pk, (SBytes, bytes)) and len(pk) == 20)
                    want = spec_usb(cid, fr.items)
                    got = list(SBytes.of(pk).items) if isinstance(pk, (SBytes, bytes)) else []
                    add(f'header-id-length-data-padding[data_length={n}]', seq_eq(got[:19], want[:19]) if len(got) == 20 else False)
                    add(f'checksum-is-sum-of-bytes-2-to-18[data_length={n}]', (got[19] == want[19]) if len(got) == 20 else False)
                else:
                    add(f'line-is-id-bytes-crlf[data_length={n}]', str_eq(sstr_of(pk), spec_yd(cid, fr.items)) if isinstance(pk, (EncodedStr, bytes)) else False, f'got {pk!r}')
        finish(obs, out, tier, info)
        return out


def finish(obs, out, tier, info, replay=None):
    gave_up = []
    for ob in obs:
        res = discharge(ob, budget(tier))
        dct = result_dict(res, with_size=False)
        dct['function'] = info.fullname if info is not None else ''
        if res.status == 'refuted':
            dct['reason'] = ob.meta.get('note', '')
            from contracts.wire_replay import replay_wire
            dct['replay'] = replay_wire(ob, res.model or {})
        elif res.status != 'discharged':
            gave_up.append(ob)
        out['results'].append(dct)
    # the solvers gave up on some obligation: look for a failing input natively over a boundary grid (bounded; a hit is
    # reported as a violation with that input, no hit leaves the obligation undecided)
    seen = set()
    for ob in gave_up:
        key = (ob.meta.get('fmt'), ob.meta.get('variant'), '/roundtrip[' in ob.name, '/encoder.' in ob.name)
        if key in seen:
            continue
        seen.add(key)
        from contracts.wire_replay import replay_wire, sample_models
        n = 0
        for m in sample_models(ob.meta.get('fmt'), ob.meta.get('variant') or ''):
            n += 1
            rp = replay_wire(ob, m)
            if rp.get('confirmed'):
                out['results'].append({'obligation': ob.name.rsplit('/path[', 1)[0] + '/bounded-fallback', 'kind': 'bounded', 'status': 'refuted', 'backend': 'native-contract',
                                       'seconds': 0.0, 'model': {k: v for k, v in m.items() if not k.startswith(('packet[', 'data['))}, 'replay': rp,
                                       'function': info.fullname if info is not None else '', 'reason': 'the solvers gave up on ' + ob.name + '; failing input found on the boundary grid'})
                break
        out['bounded'].append({'function': info.fullname if info is not None else '', 'kind': 'native contract evaluation on a boundary grid (solver gave up)', 'inputs_tried': n, 'label': 'bounded'})


# ---- decoders ---------------------------------------------------------------------------------------
def c_decode_logger():
    def call(ex, f, args, kwargs):
        a = list(args)
        names = ['pgn', 'priority', 'source_id', 'destination_id', 'timestamp', 'can_data', 'raw_can_data', 'already_combined']
        d = dict(zip(names, a))
        d.update(kwargs)
        d.setdefault('already_combined', False)
        ex.ghost.setdefault('decode_calls', []).append(d)
        return Opaque('decode-result')
    return call


def yd_line(ex, can_id, data, case='X', direction='R'):
    parts = [SStr([Atom('timestamp')]), ' ', direction, ' ', SStr([Fmt(can_id, '08' + case)])]
    for b in data:
        parts += [' ', SStr([Fmt(b, '02' + case)])]
    out = ''
    for p in parts:
        out = sstr_concat(out, p)
    return out


def actisense_line(ex, n, pgn, payload, case='X'):
    sec = ex.fresh('ts.seconds', lo=0)
    ms = ex.fresh('ts.millis', lo=0, hi=999)
    out = ''
    for p in ['A', SStr([Fmt(sec, '')]), '.', SStr([Fmt(ms, '')]), ' ', SStr([Fmt(n, '05' + case)]), ' ', SStr([Fmt(pgn, '05' + case)]), ' '] + \
             [SStr([Fmt(b, '02' + case)]) for b in payload]:
        out = sstr_concat(out, p)
    return out


def basic_line(ex, prio, pgn, src, dst, length, data, z=False):
    ts = SStr([Atom('timestamp', ends='digit')] + (['Z'] if z else []))
    out = ''
    parts = [ts, ',', SStr([Fmt(prio, '')]), ',', SStr([Fmt(pgn, '')]), ',', SStr([Fmt(src, '')]), ',', SStr([Fmt(dst, '')]), ',', SStr([Fmt(length, '')])]
    for b in data:
        parts += [',', SStr([Fmt(b, '02x')])]
    for p in parts:
        out = sstr_concat(out, p)
    return out


class DecoderTask(Task):
    """The five decode_* front ends: each hands _decode exactly (header of the identifier, reversed data bytes)."""
    def __init__(self, fmt, prop='C06'):
        self.fmt = fmt
        self.prop = prop
        self.name = f'{prop}:decode_{fmt}'

    def run(self, tier):
        out = {'results': [], 'functions': [], 'notes': [], 'bounded': []}
        r = repo()
        fname = {'tcp': 'decode_tcp', 'usb': 'decode_usb', 'yd': 'decode_yacht_devices_string', 'actisense': 'decode_actisense_string', 'basic': 'decode_basic_string'}[self.fmt]
        info = r.func(DEC + fname)
        if info is None:
            out['error'] = f'{fname} not found'
            return out
        out['functions'].append(info.describe())
        base = f'{self.prop}/{DEC}{fname}'
        variants = {'tcp': [('len13', None)], 'usb': [('len20', None), ('len19', None), ('len21', None)],
                    'yd': [(f'{n}bytes-{c}-{d}', (n, c, d)) for n in range(0, 9) for (c, d) in (('X', 'R'), ('x', 'T'))] + [('bad-direction', (3, 'X', 'Q'))],
                    'actisense': [(f'{n}bytes-{c}', (n, c)) for n in (1, 3, 8, 17) for c in ('X', 'x')],
                    'basic': [(f'{n}bytes-{"Z" if z else "plain"}-{"combined" if ac else "frames"}', (n, z, ac)) for n in (1, 3, 8) for z in (False, True) for ac in (False, True)]}[self.fmt]
        obs = []
        for vname, vp in variants:
            def run(ex, vp=vp, vname=vname):
                g = ex.ghost
                dec = built_instance(ex, r.cls('decoder', 'NMEA2000Decoder'))
                cid = ex.fresh('can_id', bits=32)
                g['cid'] = cid
                g['inputs'] = {'can_id': cid.t}
                if self.fmt == 'tcp':
                    pk = SBytes([ex.fresh(f'packet[{i}]', bits=8) for i in range(13)])
                    g['pk'] = pk
                    return ex._run_body(info, [pk], {}, dec)
                if self.fmt == 'usb':
                    n = int(vname[3:])
                    pk = SBytes([ex.fresh(f'packet[{i}]', bits=8) for i in range(n)])
                    g['pk'] = pk
                    return ex._run_body(info, [pk], {}, dec)
                if self.fmt == 'yd':
                    n, c, d = vp
                    data = [ex.fresh(f'data[{i}]', bits=8) for i in range(n)]
                    g['data'] = data
                    line = yd_line(ex, cid, data, c, d)
                    g['line'] = line
                    return ex._run_body(info, [line], {}, dec)
                if self.fmt == 'actisense':
                    n, c = vp
                    data = [ex.fresh(f'data[{i}]', bits=8) for i in range(n)]
                    g['data'] = data
                    hn = ex.fresh('header_word', bits=20)
                    pgn = ex.fresh('pgn', bits=20)
                    g['hn'], g['pgn'] = hn, pgn
                    line = actisense_line(ex, hn, pgn, data, c)
                    g['line'] = line
                    return ex._run_body(info, [line], {}, dec)
                n, z, ac = vp
                data = [ex.fresh(f'data[{i}]', bits=8) for i in range(n)]
                g['data'] = data
                g['f'] = {k: ex.fresh(k, lo=0, hi=hi) for k, hi in (('prio', 7), ('pgn', (1 << 18) - 1), ('src', 255), ('dst', 255))}
                g['length'] = ex.fresh('length', lo=0, hi=300)
                line = basic_line(ex, g['f']['prio'], g['f']['pgn'], g['f']['src'], g['f']['dst'], g['length'], data, z)
                g['line'] = line
                return ex._run_body(info, [line, ac], {}, dec)
            contracts = header_contracts()
            contracts['nmea2000.decoder.NMEA2000Decoder._decode'] = c_decode_logger()
            try:
                results = explore(r, run, contracts=contracts)
            except V.Unsupported as u:
                out['error'] = f'{fname}[{vname}]: outside the modelled subset: {u}'
                continue
            for pi, p in enumerate(results):
                g = p.ex.ghost
                hyps = list(p.pc)
                inputs = dict(g.get('inputs', {}))
                if 'hn' in g:
                    inputs['header_word'], inputs['pgn'] = g['hn'].t, g['pgn'].t
                for k2, v2 in (g.get('f') or {}).items():
                    inputs[k2] = v2.t
                if 'length' in g and isinstance(g['length'], Sym):
                    inputs['length'] = g['length'].t
                for key in ('pk', 'data'):
                    if key in g:
                        for i, b in enumerate(g[key].items if isinstance(g[key], SBytes) else g[key]):
                            inputs[f'{"packet" if key == "pk" else "data"}[{i}]'] = b.t

                def add(name, goal, note=''):
                    obs.append(Obligation(f'{base}[{vname}]/{name}/path[{pi}]', hyps, term(goal), kind='ensures', func=info.fullname, inputs=inputs,
                                          meta={'note': note, 'fmt': self.fmt, 'variant': vname}))
                for (oname, cond, pc_snap) in p.ex.obligations:
                    obs.append(Obligation(f'{base}[{vname}]/{oname}/path[{pi}]', pc_snap, cond, kind='requires@callsite', inputs=inputs, meta={'fmt': self.fmt}))
                calls = g.get('decode_calls', [])
                self.check(p, g, calls, add, vname, vp)
        finish(obs, out, tier, info)
        return out

    def check(self, p, g, calls, add, vname, vp):
        def hdr_ok(call, cid):
            pgn, src, dst, prio = S.extract(cid)
            return vand(veq(call['pgn'], pgn), veq(call['source_id'], src), veq(call['destination_id'], dst), veq(call['priority'], prio))
        if self.fmt == 'tcp':
            pk = g['pk'].items
            if p.kind == 'raise':
                add('no-exception', False, f'raises {p.exc_name()}')
                return
            add('exactly-one-decode', len(calls) == 1 and p.value is not None)
            if len(calls) != 1:
                return
            c = calls[0]
            cid = (pk[1] << 24) + (pk[2] << 16) + (pk[3] << 8) + pk[4]
            add('header-is-the-parsed-big-endian-identifier', hdr_ok(c, cid))
            dl = pk[0] & 0x0F
            data = c['can_data']
            n = len(data) if isinstance(data, (SBytes, bytes)) else -1
            add('data-length-from-the-type-byte', vor(dl == n, vand(dl > 8, n == 8)) if n >= 0 else False)
            add('data-bytes-reversed', seq_eq(list(SBytes.of(data).items), list(reversed(pk[5:5 + n]))) if n >= 0 else False)
            add('frame-level-call', c['already_combined'] is False)
            return
        if self.fmt == 'usb':
            pk = g['pk'].items
            n = len(pk)
            bad_hdr = vor(pk[0] != 0xAA, pk[1] != 0x55)
            if p.kind == 'raise':
                add('raises-only-for-a-wrong-header', bad_hdr)
                add('nothing-decoded-on-error', not calls)
                return
            add('wrong-header-raises', vnot(bad_hdr))
            if n != 20:
                add('other-lengths-yield-nothing', p.value is None and not calls)
                return
            tot = 0
            for b in pk[2:19]:
                tot = tot + b
            good = (tot % 256) == pk[19]
            if not calls:
                add('valid-checksum-is-decoded', vnot(good))
                add('returns-nothing', p.value is None)
                return
            add('bad-checksum-is-never-decoded', good)
            add('exactly-one-decode', len(calls) == 1)
            c = calls[0]
            cid = (pk[8] << 24) + (pk[7] << 16) + (pk[6] << 8) + pk[5]
            add('header-is-the-parsed-little-endian-identifier', hdr_ok(c, cid))
            data = c['can_data']
            m = len(data) if isinstance(data, (SBytes, bytes)) else -1
            add('data-length-from-the-length-byte', vor(pk[9] == m, vand(pk[9] > 10, m == 10)) if m >= 0 else False)
            add('data-bytes-reversed', seq_eq(list(SBytes.of(data).items), list(reversed(pk[10:10 + m]))) if m >= 0 else False)
            add('frame-level-call', c['already_combined'] is False)
            return
        if self.fmt == 'yd':
            n, cs, d = vp
            if d not in ('R', 'T') or n == 0:
                add('malformed-line-raises-ValueError', p.kind == 'raise' and p.exc_name() == 'ValueError' and not calls, f'{p.kind} {p.exc_name()}')
                return
            if p.kind == 'raise':
                add('no-exception', False, f'raises {p.exc_name()}')
                return
            add('exactly-one-decode', len(calls) == 1)
            if len(calls) != 1:
                return
            c = calls[0]
            add('header-is-the-parsed-identifier', hdr_ok(c, g['cid']))
            add('data-bytes-reversed', seq_eq(list(SBytes.of(c['can_data']).items), list(reversed(g['data']))) if isinstance(c['can_data'], (SBytes, bytes)) else False)
            add('frame-level-call', c['already_combined'] is False)
            return
        if self.fmt == 'actisense':
            if p.kind == 'raise':
                add('no-exception', False, f'raises {p.exc_name()}')
                return
            add('exactly-one-decode', len(calls) == 1)
            if len(calls) != 1:
                return
            c = calls[0]
            hn = g['hn']
            add('priority-destination-source-from-the-header-word',
                vand(veq(c['priority'], hn & 0xF), veq(c['destination_id'], (hn >> 4) & 0xFF), veq(c['source_id'], (hn >> 12) & 0xFF)))
            add('pgn-from-the-second-token', veq(c['pgn'], g['pgn']))
            add('data-bytes-reversed', seq_eq(list(SBytes.of(c['can_data']).items), list(reversed(g['data']))) if isinstance(c['can_data'], (SBytes, bytes)) else False)
            add('whole-message-call', c['already_combined'] is True)
            return
        # basic
        n, z, ac = vp
        if p.kind == 'raise':
            add('raises-only-when-too-few-fields', n < 1, f'raises {p.exc_name()}')
            return
        add('exactly-one-decode', len(calls) == 1)
        if len(calls) != 1:
            return
        c = calls[0]
        f = g['f']
        add('header-from-the-fields', vand(veq(c['priority'], f['prio']), veq(c['pgn'], f['pgn']), veq(c['source_id'], f['src']), veq(c['destination_id'], f['dst'])))
        data = c['can_data']
        m = len(data) if isinstance(data, (SBytes, bytes)) else -1
        L = g['length']
        add('length-field-selects-the-data-bytes', vor(L == m, vand(L > n, m == n)) if m >= 0 else False)
        add('data-bytes-reversed', seq_eq(list(SBytes.of(data).items), list(reversed(g['data'][:m]))) if m >= 0 else False)
        add('combined-flag-passed-through', c['already_combined'] is ac)


def add_c05_tasks(run):
    from props.C06_extra import WireRoundTrip
    for fmt in ('ebyte', 'usb', 'yd', 'actisense'):
        run.add(WireRoundTrip(fmt, prop='C05'))
