"""Contracts of the wire-format encoders / decoders (C05c, C06, C07)."""


def add_c05_tasks(run):
    pass
