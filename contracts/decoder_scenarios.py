"""Scripted native scenarios for refuted decoder-level obligations (C10, C11, C15, C16): a fixed history of
frames is decoded by a configured decoder and by an unconfigured one; the reference outcome is computed from the
property statements.  Bounded battery - only used to attach a concrete failing input to a refuted obligation."""
from __future__ import annotations
import itertools
import json
import os
import tempfile

CLAIM_A = "2022-09-10T12:10:16.614Z,6,60928,5,255,8,fb,9b,70,22,00,9b,50,c0"      # address 5 (Navico)
CLAIM_B = "2000-09-10T12:10:16.614Z,6,60928,7,255,8,f5,01,c0,2c,ef,aa,46,c0"      # address 7 (other NAME)
HEAT_5 = "2011-11-24-22:42:04.388,2,127250,5,255,8,00,7d,0b,7d,02,00,ff,fc"
HEAT_7 = "2011-11-24-22:42:04.390,2,127250,7,255,8,01,7d,0b,7d,02,00,ff,fc"
RATE_9 = "2011-11-24-22:42:04.395,2,127251,9,255,8,7d,0b,7d,02,00,ff,ff,ff"
PROP_5 = "2011-11-24-22:42:04.400,7,65280,5,255,8,3f,9f,dc,ff,ff,ff,ff,ff"        # furunoHeave
PROP_5b = "2011-11-24-22:42:04.401,7,65280,5,255,8,3b,9f,dc,ff,ff,ff,ff,ff"       # other manufacturer: fallback definition
CONF_5 = "2021-01-30-20:43:21.684,6,126998,5,255,19,07,01,68,65,6C,6C,6F,0c,00,77,00,F3,00,72,00,6C,00,64,00"
CONF_UNI = "2021-01-30-20:43:22.684,6,126998,5,255,21,07,01,68,65,6C,6C,6F,0e,00,2D,4E,87,65,3D,D8,A2,DE,F3,00"   # installation text in UTF-16: CJK, an astral character, o-acute
FAST = ["2022-09-28-11:36:59.668,3,129029,7,255,8,00,2f,e7,95,3d,00,73,d6", "2022-09-28-11:36:59.668,3,129029,7,255,8,01,29,00,da,04,73,db,c9",
        "2022-09-28-11:36:59.668,3,129029,7,255,8,02,e5,05,80,7d,02,28,5f", "2022-09-28-11:36:59.669,3,129029,7,255,8,03,4a,20,f3,c0,ca,b9,01",
        "2022-09-28-11:36:59.669,3,129029,7,255,8,04,00,00,00,00,10,fc,0c", "2022-09-28-11:36:59.669,3,129029,7,255,8,05,4e,00,a0,00,e8,03,00",
        "2022-09-28-11:36:59.670,3,129029,7,255,8,06,00,ff,ff,ff,ff,ff,ff"]

RECLAIM_7 = "2022-09-10T12:10:17.000Z,6,60928,7,255,8,fb,9b,70,22,00,9b,50,c0"    # address 7 re-claims with another NAME in the middle of its fast packet
HISTORY = [(HEAT_5, False), (CLAIM_A, True), (HEAT_5, False), (PROP_5, False), (RATE_9, False), (CLAIM_B, True), (HEAT_7, False)] + [(f, False) for f in FAST[:3]] + \
          [(CLAIM_A, True), (PROP_5b, False), (RECLAIM_7, True)] + [(f, False) for f in FAST[3:]] + [(CONF_5, True), (HEAT_5, False), (CLAIM_B, True), (HEAT_7, False)]


def decode_all(dec, history=HISTORY):
    out = []
    for line, combined in history:
        try:
            m = dec.decode_basic_string(line, combined)
            out.append(m)
        except Exception as e:  # noqa
            out.append(('raise', type(e).__name__))
    return out


def sig(m):
    if m is None or isinstance(m, tuple):
        return m
    iso = m.source_iso_name
    return (m.PGN, m.id, m.source, m.destination, m.priority, tuple((f.id, repr(f.value), repr(f.raw_value)) for f in m.fields),
            None if iso is None else (iso.name, iso.manufacturer_code))


def permitted(cfg, m):
    xn = [x for x in cfg.get('exclude_pgns', []) if isinstance(x, int)]
    xi = [x.lower() for x in cfg.get('exclude_pgns', []) if isinstance(x, str)]
    inn = [x for x in cfg.get('include_pgns', []) if isinstance(x, int)]
    ini = [x.lower() for x in cfg.get('include_pgns', []) if isinstance(x, str)]
    if m.PGN in xn or m.id.lower() in xi:
        return False
    return (not inn and not ini) or m.PGN in inn or m.id.lower() in ini


FILTER_CONFIGS = [
    {'exclude_pgns': [127250]}, {'exclude_pgns': ['vesselHeading']}, {'exclude_pgns': ['VESSELHEADING', 127251]}, {'exclude_pgns': ['furunoHeave']},
    {'include_pgns': [127250]}, {'include_pgns': ['vesselHeading']}, {'include_pgns': ['vesselheading', 127251]}, {'include_pgns': [127251, 'furunoHeave']},
    {'include_pgns': ['gnssPositionData']}, {'include_pgns': [129029, 'vesselHeading']}, {'exclude_pgns': [60928]}, {'exclude_pgns': ['isoAddressClaim']},
    {'include_pgns': ['isoAddressClaim']}, {'include_pgns': ['isoAddressClaim', 127250]}, {'include_pgns': [60928, 'vesselHeading']}, {'exclude_pgns': [129029]},
    {'include_pgns': [65280]}, {'exclude_pgns': [65280]},
]


def check_filters():
    """C10: filtered output == unfiltered output restricted to permitted messages, position by position."""
    from nmea2000.decoder import NMEA2000Decoder
    for cfg in FILTER_CONFIGS:
        base = decode_all(NMEA2000Decoder())
        try:
            got = decode_all(NMEA2000Decoder(**cfg))
        except Exception as e:  # noqa
            return {'config': cfg, 'error': repr(e)}
        for i, (b, g) in enumerate(zip(base, got)):
            want = b if (b is not None and not isinstance(b, tuple) and permitted(cfg, b)) else (b if isinstance(b, tuple) else None)
            if sig(g) != sig(want):
                return {'config': cfg, 'step': i, 'frame': HISTORY[i][0], 'observed': str(sig(g))[:300], 'expected': str(sig(want))[:300],
                        'unfiltered': str(sig(b))[:200]}
        # claims still update the source map: identities attached to later permitted messages are those of the unfiltered run (checked by sig())
    return None


def check_filtered_fast_packets():
    """C10, fast packets of one PGN number with several ids (130820 Fusion, 130816 SonicHub, 126720): a message filtered out by
    id must not disturb the next message of the same stream - also when the sender reuses the sequence counter."""
    from nmea2000.decoder import NMEA2000Decoder
    from spec.canboat import DB, sample_payload
    from props.C04_scenarios import frames_of
    db = DB()
    for pgn in (130820, 130816, 126720):
        defs = [d for d in db.groups.get(pgn, []) if d.match_fields and not d.fallback and d.first_unsupported is None][:4]
        if len(defs) < 2:
            continue
        lines = []
        for rep in range(2):
            for k, d in enumerate(defs):
                p = sample_payload(d, k)
                for fr in frames_of(p, 3 if rep == 0 else (k % 2), 0xFF):       # rep 0: every message with the same counter
                    lines.append((f"2022-09-28-11:36:59.668,3,{pgn},9,255,8," + ','.join(f'{b:02x}' for b in fr), False))
        for cfg in ({'exclude_pgns': [defs[0].id]}, {'exclude_pgns': [defs[1].id.upper()]}, {'include_pgns': [defs[1].id]}, {'include_pgns': [defs[0].id, 127250]},
                    {'exclude_pgns': [defs[0].id, defs[1].id]}):
            base = decode_all(NMEA2000Decoder(), lines)
            got = decode_all(NMEA2000Decoder(**cfg), lines)
            for i, (b, g) in enumerate(zip(base, got)):
                want = b if (b is not None and not isinstance(b, tuple) and permitted(cfg, b)) else (b if isinstance(b, tuple) else None)
                if sig(g) != sig(want):
                    return {'config': cfg, 'step': i, 'frames': [l for l, _ in lines[:i + 1]][-12:], 'observed': str(sig(g))[:300], 'expected': str(sig(want))[:300]}
    return None


def check_hash_presence():
    """C17: with network mapping on every returned message carries a hash (also one of a source that never claimed and is
    returned after the discovery window), equal for equal id + key fields whatever the source; with mapping off none."""
    import datetime
    import hashlib
    from nmea2000.decoder import NMEA2000Decoder
    dec = NMEA2000Decoder(build_network_map=True)
    dec.started_at = dec.started_at - datetime.timedelta(minutes=11)
    out = []
    for line, comb in [(CLAIM_A, True), (HEAT_5, False), (HEAT_7, False), (RATE_9, False), (PROP_5, False)] + [(f, False) for f in FAST]:
        try:
            m = dec.decode_basic_string(line, comb)
        except Exception:  # noqa
            continue
        if m is None:
            continue
        key = m.id + ''.join('_' + str(f.raw_value) for f in m.fields if f.part_of_primary_key)
        want = hashlib.md5(key.encode()).hexdigest()
        if m.hash != want:
            return {'frame': line, 'source': m.source, 'source_identity_known': m.source_iso_name is not None, 'observed': m.hash, 'expected': f'md5({key!r}) = {want}',
                    'history': 'network mapping on, decoder started 11 minutes ago, only address 5 has claimed'}
        out.append(m)
    off = NMEA2000Decoder(build_network_map=False).decode_basic_string(HEAT_5, False)
    if off is not None and off.hash is not None:
        return {'frame': HEAT_5, 'observed': off.hash, 'expected': None, 'history': 'network mapping off'}
    if len(out) < 4:
        return {'observed': f'only {len(out)} messages returned', 'expected': 'the unclaimed sources are returned after the discovery window'}
    return None


def check_ignored_then_supported():
    """C16: an input that is ignored (no definition of its PGN matches it; unknown PGN; undecodable text) never changes what the
    decoder returns later - a supported message of the SAME PGN decodes as on a fresh decoder."""
    from nmea2000.decoder import NMEA2000Decoder
    from spec.canboat import DB, sample_payload
    db = DB()

    def line(pgn, payload):
        return f"2022-09-28-11:36:59.668,3,{pgn},9,255,{len(payload)}," + ','.join(f'{b:02x}' for b in payload)
    for pgn, group in db.multi_groups():
        if any(d.fallback for d in group):
            continue
        good = [d for d in group if d.first_unsupported is None and d.match_fields][:2]
        if not good:
            continue
        # a payload that matches no definition: manufacturer code 0x7FE with the industry code of the first definition
        bogus = bytearray(sample_payload(good[0], 0))
        bogus[0], bogus[1] = 0xFE, (bogus[1] & 0xF8) | 0x07
        if db.dispatch(pgn, lambda o, L: (int.from_bytes(bytes(bogus), 'little') >> o) & ((1 << L) - 1)) is not None:
            continue
        dec = NMEA2000Decoder()
        for noise in (line(pgn, bytes(bogus)), line(131071, bytes(8)), 'garbage,not,a,frame'):
            try:
                dec.decode_basic_string(noise, True)
            except Exception:  # noqa
                pass
        for d in good:
            ln = line(pgn, sample_payload(d, 1))
            try:
                want = sig(NMEA2000Decoder().decode_basic_string(ln, True))
            except Exception:  # noqa
                continue
            try:
                got = sig(dec.decode_basic_string(ln, True))
            except Exception as e:  # noqa
                got = ('raise', type(e).__name__)
            if got != want:
                return {'pgn': pgn, 'ignored_input': line(pgn, bytes(bogus)), 'frame': ln, 'observed': str(got)[:200], 'expected': str(want)[:200],
                        'history': 'a frame of the same PGN that matches no definition, an unknown PGN and an undecodable line were fed (and ignored) before'}
    return None


def check_formats_one_decoder():
    """C07: the same fast-packet message delivered frame by frame and pre-assembled gives the same message - also when ONE
    decoder receives both forms, in either order."""
    from nmea2000.decoder import NMEA2000Decoder
    frames = [bytes(int(x, 16) for x in f.split(',')[6:]) for f in FAST]
    n = frames[0][1]
    payload = (frames[0][2:] + b''.join(fr[1:] for fr in frames[1:]))[:n]
    head = ','.join(FAST[0].split(',')[:5])
    whole = f"{head},{n}," + ','.join(f'{b:02x}' for b in payload)
    ref = sig(NMEA2000Decoder().decode_basic_string(whole, True))
    if ref is None:
        return {'observed': 'the pre-assembled reference message does not decode', 'frame': whole}
    for order in ('whole-then-frames', 'frames-then-whole'):
        dec = NMEA2000Decoder()
        got = []
        steps = [(whole, True)] + [(f, False) for f in FAST] if order == 'whole-then-frames' else [(f, False) for f in FAST] + [(whole, True)]
        for ln, comb in steps * 2:
            try:
                got.append(sig(dec.decode_basic_string(ln, comb)))
            except Exception as e:  # noqa
                got.append(('raise', type(e).__name__))
        want = []
        for ln, comb in steps * 2:
            want.append(ref if (comb or ln == FAST[-1]) else None)
        if got != want:
            k = next(i for i, (a, b) in enumerate(zip(got, want)) if a != b)
            return {'order': order, 'step': k, 'input': (steps * 2)[k][0], 'pre_assembled': (steps * 2)[k][1], 'observed': str(got[k])[:200], 'expected': str(want[k])[:200],
                    'history': 'one decoder receives the same PGN 129029 message pre-assembled and frame by frame'}
    return None


def check_frame_timestamps():
    """C07: the frames of one fast-packet message decode to the same message whatever the timestamps their format attaches:
    frames several seconds apart (a slow bus), canboat 'Z' timestamps, and Yacht Devices time-of-day stamps that cross midnight
    in the middle of the message."""
    from nmea2000.decoder import NMEA2000Decoder
    from contracts.wire_replay import build_id
    frames = [bytes(int(x, 16) for x in f.split(',')[6:]) for f in FAST]
    n = frames[0][1]
    payload = (frames[0][2:] + b''.join(fr[1:] for fr in frames[1:]))[:n]
    head = FAST[0].split(',')[1:5]
    whole = FAST[0].split(',')[0] + ',' + ','.join(head) + f",{n}," + ','.join(f'{b:02x}' for b in payload)
    ref = sig(NMEA2000Decoder().decode_basic_string(whole, True))
    if ref is None:
        return {'observed': 'the pre-assembled reference message does not decode', 'frame': whole}
    prio, pgn, src, dst = (int(x) for x in head)
    cid = build_id(pgn, src, dst, prio)
    deliveries = {}
    for label, stamps in (('canboat, 7 s between frames', [f'2022-09-28-11:36:{10 + 7 * i:02d}.000' for i in range(7)]),
                          ('canboat Z stamps, 7 s between frames', [f'2022-09-28T11:36:{10 + 7 * i:02d}.000Z' for i in range(7)]),
                          ('canboat, frames out of clock order', [f'2022-09-28-11:36:{50 - 7 * i:02d}.000' for i in range(7)])):
        deliveries[label] = [('basic', ','.join([stamps[i]] + FAST[i].split(',')[1:])) for i in range(7)]
    for label, stamps in (('yacht devices across midnight', ['23:59:59.982', '23:59:59.988', '23:59:59.994', '00:00:00.000', '00:00:00.006', '00:00:00.012', '00:00:00.018']),
                          ('yacht devices, 9 s between frames', [f'10:00:{9 * i:02d}.000' for i in range(7)])):
        deliveries[label] = [('yd', f'{stamps[i]} R {cid:08X} ' + ' '.join(f'{b:02X}' for b in frames[i])) for i in range(7)]
    for label, steps in deliveries.items():
        dec = NMEA2000Decoder()
        got = []
        for kind, ln in steps:
            try:
                got.append(sig(dec.decode_basic_string(ln, False) if kind == 'basic' else dec.decode_yacht_devices_string(ln)))
            except Exception as e:  # noqa
                got.append(('raise', type(e).__name__))
        want = [None] * 6 + [ref]
        if got != want:
            k = next(i for i, (a, b) in enumerate(zip(got, want)) if a != b)
            return {'delivery': label, 'step': k, 'input': steps[k][1], 'observed': str(got[k])[:200], 'expected': str(want[k])[:200],
                    'history': 'the seven frames of one PGN 129029 message, only their timestamps differ from the reference delivery'}
    return None


def check_reclaim_same_device():
    """C11: a device that claims again with a changed NAME (only the device instance byte differs) is known by the NEW identity
    from then on - the identity is that of the most recent claim, not of the first one."""
    from nmea2000.decoder import NMEA2000Decoder
    claim2 = CLAIM_A.replace(',22,00,9b,', ',22,0b,9b,')
    name2 = int.from_bytes(bytes(int(x, 16) for x in claim2.split(',')[6:]), 'little')
    for cfg in ({}, {'exclude_pgns': [60928]}, {'build_network_map': True}):
        dec = NMEA2000Decoder(**cfg)
        for line, comb in ((CLAIM_A, True), (HEAT_5, False), (CLAIM_A, True), (claim2, True)):
            dec.decode_basic_string(line, comb)
        m = dec.decode_basic_string(HEAT_5, False)
        got = None if m is None or m.source_iso_name is None else (m.source_iso_name.name, m.source_iso_name.device_instance)
        if got != (name2, 11):
            return {'config': cfg, 'history': [CLAIM_A, HEAT_5, CLAIM_A, claim2, HEAT_5], 'observed': f'identity (NAME, device instance) = {got}', 'expected': f'({name2}, 11): the identity of the latest claim of address 5'}
    return None


def check_identity():
    """C11: identity attached = latest claim of the source address; manufacturer lists; withholding."""
    from nmea2000.decoder import NMEA2000Decoder
    for cfg in ({}, {'exclude_pgns': [60928]}, {'build_network_map': True}, {'exclude_manufacturer_code': ['navico']}, {'include_manufacturer_code': ['NAVICO']},
                {'exclude_manufacturer_code': ['Navico'], 'build_network_map': True}):
        dec = NMEA2000Decoder(**cfg)
        latest = {}
        xm = [x.lower() for x in cfg.get('exclude_manufacturer_code', [])]
        im = [x.lower() for x in cfg.get('include_manufacturer_code', [])]
        ref = NMEA2000Decoder()
        for i, (line, combined) in enumerate(HISTORY):
            try:
                m = dec.decode_basic_string(line, combined)
            except Exception:  # noqa
                continue
            parts = line.split(',')
            pgn, src = int(parts[2]), int(parts[3])
            r = ref.decode_basic_string(line, combined)
            if pgn == 60928 and r is not None:
                latest[src] = (r.source_iso_name.name, r.source_iso_name.manufacturer_code)
            if m is None or m.PGN == 60928:
                if m is None and r is not None and pgn != 60928 and 60928 not in cfg.get('exclude_pgns', []) or False:
                    pass
                continue
            ident = None if m.source_iso_name is None else (m.source_iso_name.name, m.source_iso_name.manufacturer_code)
            if ident != latest.get(m.source):
                return {'config': cfg, 'step': i, 'frame': line, 'observed': f'identity {ident}', 'expected': f'{latest.get(m.source)} (latest claim of address {m.source})'}
            if ident is not None and ident[1] is not None:
                mf = ident[1].lower()
                if mf in xm or (im and mf not in im):
                    return {'config': cfg, 'step': i, 'frame': line, 'observed': f'message of manufacturer {ident[1]} returned', 'expected': 'suppressed by the manufacturer lists'}
            if cfg.get('build_network_map') and ident is None:
                return {'config': cfg, 'step': i, 'frame': line, 'observed': 'message of an unknown source returned during discovery', 'expected': 'withheld'}
    return None


def check_dump():
    from nmea2000.decoder import NMEA2000Decoder
    from nmea2000.consts import PhysicalQuantities as PQ
    for prefs in ({}, {PQ.ANGLE: 'deg', PQ.TEMPERATURE: 'C', PQ.SPEED: 'kts'}):
        for dp in ([], [127250], ['vesselHeading'], ['VesselHeading', 127251], ['furunoheave'], [65280, 'isoAddressClaim']):
            with tempfile.TemporaryDirectory() as td:
                path = os.path.join(td, 'dump.jsonl')
                dec = NMEA2000Decoder(dump_to_file=path, dump_pgns=dp, preferred_units=prefs)
                outs = decode_all(dec, HISTORY * 12 + [(CONF_UNI, True)])           # more than a hundred dumped lines, one with non-ASCII text
                dec.close()
                text = open(path, encoding='utf-8').read()
                dn = [x for x in dp if isinstance(x, int)]
                di = [x.lower() for x in dp if isinstance(x, str)]
                want = [m.to_json() for m in outs if m is not None and not isinstance(m, tuple) and ((not dn and not di) or m.PGN in dn or m.id.lower() in di)]
                if text != ''.join(w + '\n' for w in want):
                    lines = text.split('\n')
                    k = next((i for i, (a, b) in enumerate(zip(lines, want)) if a != b), min(len(lines), len(want)))
                    return {'dump_pgns': dp, 'preferred_units': {q.name: u for q, u in prefs.items()}, 'observed': f'{len(lines) - 1} lines; line {k}: {lines[k][:160] if k < len(lines) else None}',
                            'expected': f'{len(want)} lines, each the JSON of a returned message matching the filter followed by a newline; line {k}: {want[k][:160] if k < len(want) else None}'}
    return None


BATTERY = {'C10': [check_filters, check_filtered_fast_packets], 'C11': [check_identity, check_filters, check_reclaim_same_device], 'C15': [check_dump], 'C16': [check_filters, check_identity, check_filtered_fast_packets, check_ignored_then_supported, check_formats_one_decoder], 'C08': [], 'C17': [check_hash_presence], 'C07': [check_formats_one_decoder, check_frame_timestamps], 'C03': [check_formats_one_decoder], 'C05': [check_identity, check_reclaim_same_device]}


_MEMO = {}


def memo(fn):
    if fn.__name__ not in _MEMO:
        _MEMO[fn.__name__] = fn()
    return _MEMO[fn.__name__]


def replay_for(prop, scenario, model):
    small = {k: v for k, v in model.items() if v not in (0, False)}
    for fn in BATTERY.get(prop, []):
        try:
            f = memo(fn)
        except Exception as e:  # noqa
            import traceback
            return {'confirmed': None, 'note': 'scenario harness error: ' + traceback.format_exc()[-400:], 'solver_model': small}
        if f is not None:
            return {'confirmed': True, 'inputs': f, 'how': f'{fn.__name__}: scripted history through NMEA2000Decoder.decode_basic_string on the working tree, reference outcome from the property statement',
                    'solver_model': small}
    return {'confirmed': None, 'note': 'no scripted history reproduces the refuted obligation', 'solver_model': small}


def fallback_results(prop):
    out = []
    for fn in BATTERY.get(prop, []):
        f = memo(fn)
        if f is not None:
            out.append({'obligation': f'{prop}/decoder.NMEA2000Decoder._decode/bounded-fallback[{fn.__name__}]', 'kind': 'bounded', 'status': 'refuted',
                        'backend': 'native-scenarios', 'seconds': 0.0, 'model': {}, 'replay': {'confirmed': True, 'inputs': f}})
            break
    return out


def check_dispatch():
    """C08 through the decoder: sibling definitions of a multi-definition PGN decoded one after the other on ONE
    decoder must each come back under the definition the database dispatch selects."""
    import sys
    from spec.canboat import DB
    from nmea2000.decoder import NMEA2000Decoder
    db = DB()
    dec = NMEA2000Decoder()
    for pgn, group in db.multi_groups():
        payloads = []
        for d in group:
            if d.fallback:
                continue
            p = 0
            for f in d.match_fields:
                p |= int(f.match) << f.offset_bits
            n = max(8, (max((f.offset_bits + f.L for f in d.match_fields), default=0) + 7) // 8)
            payloads.append((d, p, n))
            # the same message cut short (fewer data bytes than a CAN frame): the missing bits read as 0, never as a match value
            for k in (2, 3, 5, 7):
                if k < n:
                    payloads.append((d, p & ((1 << (8 * k)) - 1), k))
        payloads = payloads[:14]
        for (da, pa, na), (db_, pb, nb) in itertools.permutations(payloads, 2):
            for (d, p, n) in ((da, pa, na), (db_, pb, nb)):
                exp = db.dispatch(pgn, lambda o, L: (p >> o) & ((1 << L) - 1))
                by = p.to_bytes(n, 'little')
                line = f"2020-01-01-00:00:00.000,3,{pgn},1,255,{n}," + ','.join(f'{b:02x}' for b in by)
                try:
                    m = dec.decode_basic_string(line, True)
                    got = None if m is None else m.id
                except Exception as e:  # noqa
                    import traceback
                    tb = traceback.extract_tb(e.__traceback__)
                    sel = [fr.name for fr in tb if fr.name.startswith(f'decode_pgn_{pgn}_')]
                    got = sel[0][len(f'decode_pgn_{pgn}_'):] if sel else ('raise', type(e).__name__)
                if got != (exp.id if exp else None):
                    return {'pgn': pgn, 'payload': by.hex(), 'after_sibling': da.id if d is db_ else None, 'observed': str(got), 'expected': exp.id if exp else None}
    return None


BATTERY['C08'] = [check_dispatch]
