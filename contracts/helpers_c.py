"""Contracts of the field helpers in nmea2000/utils.py that the per-PGN contracts use through abstract terms
(decode_time, decode_date, decode_float, decode_decimal, encode_date, encode_float) and bounded stand-ins for the ones
no solver theory here reaches (decode_string_fix / _lz / _lau: bytes.decode; decode_bit_lookup: data-dependent loop
building text).

Deductive part: the real bodies are executed symbolically with dependency contracts for datetime.date / time /
timedelta (a date is its day number relative to 1970-01-01, a time its h/m/s triple) and struct.pack/unpack (the
IEEE-754 single reading of 32 bits is the uninterpreted function the per-PGN contracts use).

Bounded part (labelled bounded, never counted as proved): the real function against a reference written here from the
field-type description, exhaustively for short inputs and on a seeded random corpus for longer ones."""
from __future__ import annotations
import datetime
import os
import random
import z3
from pyvc import values as V
from pyvc.values import Sym, vand, vor, vnot, veq, mk_int, mk_bool, bool_term, int_term, ite, mk_float
from pyvc.gv import GV
from pyvc.sbytes import SBytes
from pyvc.report import Task
from pyvc.tasks import repo, budget, result_dict, resolve_real
from pyvc.solve import Obligation, discharge
from pyvc.symex import explore, Obj, Opaque, Builtin, PyRaise, make_exc
from pyvc import builtins as B
from pyvc.timeval import TimeVal
from spec import specfun as S

EPOCH = datetime.date(1970, 1, 1)


class DateRec:
    """A datetime.date: day number relative to 1970-01-01 (z3 Int term or Python int)."""
    ALWAYS_TRUE = True        # a Python object of this kind is truthy (no __bool__ / __len__)
    def __init__(self, days):
        self.days = days

    def __repr__(self):
        return f'<date epoch+{self.days}>'

    @staticmethod
    def _delta_days(o):
        if isinstance(o, datetime.timedelta):
            if o.seconds or o.microseconds:
                raise V.Unsupported('date + timedelta with a time part')
            return o.days
        if isinstance(o, TimeVal) and o.kind == 'timedelta':
            d = getattr(o, 'days_term', None)
            if d is None:
                raise V.Unsupported('date + symbolic timedelta not given in whole days')
            return d
        raise V.Unsupported(f'date arithmetic with {o!r}')

    def __add__(self, o):
        return DateRec(self.days + self._delta_days(o))

    def __sub__(self, o):
        if isinstance(o, DateRec):
            return Obj(None, {'days': self.days - o.days}, clsname='timedelta')
        return DateRec(self.days - self._delta_days(o))


def _date(ex, y, m, d):
    if all(isinstance(x, int) for x in (y, m, d)):
        return DateRec((datetime.date(y, m, d) - EPOCH).days)
    raise V.Unsupported('date() with symbolic components')


def _timedelta(ex, *a, **kw):
    from pyvc import timeval as _tv
    r = _tv.timedelta(ex, *a, **kw)
    if isinstance(r, TimeVal) and set(kw) == {'days'} and not a and isinstance(kw['days'], Sym) and kw['days'].ty == 'int':
        r.days_term = kw['days']
    return r


def _time(ex, hour=0, minute=0, second=0, *a, **kw):
    for nm, v, hi in (('hour', hour, 23), ('minute', minute, 59), ('second', second, 59)):
        bad = mk_bool(z3.Or(int_term(v) < 0, int_term(v) > hi)) if isinstance(v, Sym) else not (0 <= v <= hi)
        if bad is True or (bad is not False and ex.truth(bad)):
            raise PyRaise(make_exc('ValueError', f'{nm} must be in 0..{hi}'))
    return Obj(None, {'hour': hour, 'minute': minute, 'second': second}, clsname='time')


IEEE_SINGLE = None


def _struct_pack(ex, fmt, v):
    return ('packed', fmt, v)


def _struct_unpack(ex, fmt, data):
    from contracts.pgns_c import single_value
    if not (isinstance(data, tuple) and data and data[0] == 'packed'):
        raise V.Unsupported('struct.unpack of bytes not produced by struct.pack')
    _, pfmt, v = data
    if pfmt == '<I' and fmt == '<f':
        return (single_value(v),)
    if pfmt == '<f' and fmt == '<I':
        return (mk_int(BITS_OF_SINGLE(V.real_term(v))),)
    raise V.Unsupported(f'struct {pfmt} -> {fmt}')


BITS_OF_SINGLE = z3.Function('bits_of_ieee_single', z3.RealSort(), z3.IntSort())


def _hooks():
    return {'datetime.date': Builtin('date', _date), 'datetime.timedelta': Builtin('timedelta', _timedelta), 'datetime.time': Builtin('time', _time),
            'struct.pack': Builtin('struct.pack', _struct_pack), 'struct.unpack': Builtin('struct.unpack', _struct_unpack)}


class HelperTask(Task):
    """One helper, one input shape.  case: dict(make=fn(ex)->args, want=fn(args, path)->list of (name, goal), native=...)"""
    def __init__(self, prop, func, label, make, check, replay=None):
        self.prop, self.func, self.label, self.make, self.check, self.replay = prop, func, label, make, check, replay
        self.name = f'{prop}:{func}[{label}]'

    def run(self, tier):
        out = {'results': [], 'functions': [], 'notes': [], 'bounded': []}
        r = repo()
        info = r.func(self.func)
        if info is None:
            out['error'] = f'{self.func} not found'
            return out
        out['functions'].append(info.describe())
        base = f'{self.prop}/{self.func}[{self.label}]'
        saved = {k: B.EXT_HOOKS.get(k) for k in _hooks()}
        B.EXT_HOOKS.update(_hooks())
        try:
            def run(ex):
                args = self.make(ex)
                ex.ghost['args'] = args
                return ex._run_body(info, list(args), {}, None)
            try:
                results = explore(r, run, inline={'utils.*', 'nmea2000.utils.decode_int'})
            except V.Unsupported as u:
                out['error'] = f'{self.func}: outside the modelled subset: {u}'
                if self.replay:
                    rp = self.replay({})
                    if rp.get('confirmed'):
                        out['results'].append({'obligation': f'{base}/bounded-fallback', 'kind': 'bounded', 'status': 'refuted', 'backend': 'native-contract', 'seconds': 0.0, 'model': {}, 'replay': rp})
                return out
        finally:
            for k, v in saved.items():
                if v is None:
                    B.EXT_HOOKS.pop(k, None)
                else:
                    B.EXT_HOOKS[k] = v
        obs = []
        for pi, p in enumerate(results):
            args = p.ex.ghost['args']
            inputs = {f'arg{i}': a.t for i, a in enumerate(args) if isinstance(a, Sym)}
            for name, goal, note in self.check(args, p):
                gl = goal if isinstance(goal, z3.ExprRef) else (z3.BoolVal(goal) if isinstance(goal, bool) else bool_term(goal))
                obs.append(Obligation(f'{base}/{name}/path[{pi}]', list(p.pc), gl, kind='ensures', func=info.fullname, inputs=inputs, meta={'note': note}))
        for ob in obs:
            res = discharge(ob, budget(tier))
            dct = result_dict(res, with_size=False)
            dct['function'] = info.fullname
            if res.status == 'refuted':
                dct['reason'] = ob.meta.get('note', '')
                if self.replay:
                    dct['replay'] = self.replay(res.model or {})
            out['results'].append(dct)
        return out


# ---- decode_time ------------------------------------------------------------------------------------------------
def _time_of(v):
    return (v.attrs['hour'], v.attrs['minute'], v.attrs['second']) if isinstance(v, Obj) and v.clsname == 'time' else None


def check_decode_time(kind):
    def check(args, p):
        x = args[0]
        if p.kind == 'raise':
            return [('no-exception', False, f'raises {p.exc_name()}')]
        if kind == 'none':
            return [('absent-stays-absent', p.value is None, f'{p.value!r}')]
        n = x if kind == 'int' else mk_int(V.F_TRUNC(V.float_term(x)))
        t = _time_of(p.value)
        if t is None:
            return [('returns-a-time', False, f'{p.value!r}')]
        inr = vand(n >= 0, n < 86400)
        h, m, s = t
        want = vor(vand(inr, veq(h, n // 3600), veq(m, (n % 3600) // 60), veq(s, n % 60)), vand(vnot(inr), veq(h, 0), veq(m, 0), veq(s, 0)))
        return [('time-of-day-is-h-m-s-of-the-second-count', want, f'{t!r}')]
    return check


def replay_decode_time(model):
    f = resolve_real('utils.decode_time')
    for n in [model.get('arg0', 0), 0, 1, 59, 60, 3599, 3600, 86399, 86400, 43200, 12345, -1]:
        if n is None:
            continue
        for x in (int(n), float(int(n))):
            try:
                got = f(x)
            except Exception as e:  # noqa
                return {'confirmed': True, 'inputs': {'seconds': x}, 'observed': ['raise', type(e).__name__]}
            n2 = int(x)
            want = datetime.time(n2 // 3600, (n2 % 3600) // 60, n2 % 60) if 0 <= n2 < 86400 else datetime.time(0, 0, 0)
            if got != want:
                return {'confirmed': True, 'inputs': {'seconds': x}, 'observed': str(got), 'expected': str(want), 'how': 'nmea2000.utils.decode_time on the working tree'}
    if f(None) is not None:
        return {'confirmed': True, 'inputs': {'seconds': None}, 'observed': str(f(None)), 'expected': None}
    return {'confirmed': False, 'inputs': model}


# ---- decode_date / encode_date ----------------------------------------------------------------------------------
def check_decode_date(kind):
    def check(args, p):
        x = args[0]
        if p.kind == 'raise':
            return [('no-exception', False, f'raises {p.exc_name()}')]
        if kind == 'none':
            return [('absent-stays-absent', p.value is None, f'{p.value!r}')]
        n = x if kind == 'int' else mk_int(V.F_TRUNC(V.float_term(x)))
        ok = isinstance(p.value, DateRec)
        return [('date-is-1970-01-01-plus-the-day-count', veq(p.value.days, n) if ok else False, f'{p.value!r}')]
    return check


def replay_decode_date(model):
    f = resolve_real('utils.decode_date')
    for n in [model.get('arg0', 0), 0, 1, 365, 19000, 65532, 65535, 59, 60, 11016]:
        if n is None:
            continue
        for x in (int(n), float(int(n))):
            try:
                got = f(x)
            except Exception as e:  # noqa
                return {'confirmed': True, 'inputs': {'days': x}, 'observed': ['raise', type(e).__name__]}
            if got != EPOCH + datetime.timedelta(days=int(x)):
                return {'confirmed': True, 'inputs': {'days': x}, 'observed': str(got), 'expected': str(EPOCH + datetime.timedelta(days=int(x))), 'how': 'nmea2000.utils.decode_date on the working tree'}
    if f(None) is not None:
        return {'confirmed': True, 'inputs': {'days': None}, 'observed': str(f(None))}
    return {'confirmed': False, 'inputs': model}


def check_encode_date(kind):
    def check(args, p):
        d, L = args
        if p.kind == 'raise':
            return [('no-exception', False, f'raises {p.exc_name()}')]
        if kind == 'none':
            return [('absent-is-all-ones', veq(p.value, (1 << L) - 1), f'{p.value!r}')]
        return [('day-count-since-1970-01-01', veq(p.value, d.days), f'{p.value!r}')]
    return check


def replay_encode_date(model):
    f = resolve_real('utils.encode_date')
    for n in [0, 1, 365, 19000, 65532, 11016]:
        d = EPOCH + datetime.timedelta(days=n)
        if f(d, 16) != n:
            return {'confirmed': True, 'inputs': {'date': str(d)}, 'observed': f(d, 16), 'expected': n, 'how': 'nmea2000.utils.encode_date on the working tree'}
    for L in (16, 8, 32):
        if f(None, L) != (1 << L) - 1:
            return {'confirmed': True, 'inputs': {'date': None, 'bit_length': L}, 'observed': f(None, L), 'expected': (1 << L) - 1}
    return {'confirmed': False, 'inputs': model}


# ---- decode_float / encode_float --------------------------------------------------------------------------------
def check_decode_float(off, L):
    def check(args, p):
        from contracts.pgns_c import single_value
        d, _, _, mn, mx = args
        n = S.bits(d, off, L)
        if L > 32:
            fits = n <= 0xFFFFFFFF
        else:
            fits = True
        v = single_value(n)
        if p.kind == 'raise':
            return [('raises-only-outside-the-range', vand(fits, vor(v < mn, v > mx)) if p.exc_name() == 'ValueError' else False, f'raises {p.exc_name()}')]
        inr = vnot(vor(v < mn, v > mx))
        return [('value-is-the-ieee-single-of-the-field-bits', vor(vand(fits, inr, veq(p.value, v)), vand(vnot(fits), veq(p.value, 0))), f'{p.value!r}')]
    return check


def replay_float(model):
    import struct
    df, ef = resolve_real('utils.decode_float'), resolve_real('utils.encode_float')
    rnd = random.Random(4)
    for _ in range(3000):
        bits_ = rnd.getrandbits(32)
        want = struct.unpack('<f', struct.pack('<I', bits_))[0]
        if want != want:
            continue
        off = rnd.choice([0, 8, 13])
        try:
            got = df(bits_ << off | rnd.getrandbits(off), off, 32, -3.4e38, 3.4e38)
        except ValueError:
            got = 'ValueError'
        if abs(want) > 3.4e38:
            ok = got == 'ValueError'
        else:
            ok = got == want
        if not ok:
            return {'confirmed': True, 'inputs': {'bits': bits_, 'offset': off}, 'observed': str(got), 'expected': str(want), 'how': 'nmea2000.utils.decode_float on the working tree'}
        if abs(want) <= 3.4e38 and ef(want) != bits_ and not (want == 0):
            return {'confirmed': True, 'inputs': {'value': want}, 'observed': ef(want), 'expected': bits_, 'how': 'nmea2000.utils.encode_float on the working tree'}
    for lo, hi, bits_ in ((0.0, 10.0, struct.unpack('<I', struct.pack('<f', 10.5))[0]), (0.0, 10.0, struct.unpack('<I', struct.pack('<f', -0.5))[0])):
        try:
            df(bits_, 0, 32, lo, hi)
            return {'confirmed': True, 'inputs': {'bits': bits_, 'range': [lo, hi]}, 'observed': 'returned', 'expected': 'ValueError'}
        except ValueError:
            pass
    return {'confirmed': False, 'inputs': model}


def check_encode_float(kind):
    def check(args, p):
        x = args[0]
        if kind == 'none':
            return [('absent-float-is-rejected', p.kind == 'raise' and p.exc_name() == 'ValueError', f'{p.kind} {p.value!r}')]
        if p.kind == 'raise':
            return [('no-exception', False, f'raises {p.exc_name()}')]
        return [('code-is-the-ieee-single-pattern-of-the-value', veq(p.value, mk_int(BITS_OF_SINGLE(V.real_term(x)))), f'{p.value!r}')]
    return check


# ---- decode_decimal ---------------------------------------------------------------------------------------------
def check_decode_decimal(nbytes):
    def check(args, p):
        n = args[0]
        if p.kind == 'raise':
            return [('no-exception', False, f'raises {p.exc_name()}')]
        tot = 0
        for i in range(nbytes):
            b = S.bits(n, 8 * i, 8)
            tot = tot + ((b // 16) * 10 + (b % 16)) * (100 ** i)
        return [('two-bcd-digits-per-byte-little-endian', veq(p.value, tot), f'{p.value!r}')]
    return check


# ---- bounded stand-ins ------------------------------------------------------------------------------------------
def ref_string_fix(raw: bytes) -> str:
    """STRING_FIX: the field bytes as text (undecodable bytes dropped), cut at the first padding character (NUL, U+00FF
    or '@'), surrounding white space removed."""
    text = raw.decode('utf-8', errors='ignore')
    cut = len(text)
    for ch in ('\x00',):
        i = text.find(ch)
        if i >= 0:
            cut = min(cut, i)
    text = text[:cut]
    for ch in ('\xff', '@'):
        i = text.find(ch)
        if i >= 0:
            text = text[:i]
    return text.strip()


def ref_string_lz(raw: bytes) -> str:
    """STRING_LZ: first byte = length, then that many bytes of text (nothing at all = length 0 = empty text)."""
    if not raw:
        return ''
    return raw[1:1 + raw[0]].decode('utf-8', errors='ignore')


def ref_string_lau(raw: bytes):
    """STRING_LAU: byte 0 = total length including the two header bytes, byte 1 = encoding (0 UTF-16, else single byte /
    UTF-8), text = bytes 2..length-1; also reports the field width in bits."""
    if len(raw) < 2:
        return None, 8 * len(raw)
    ln, enc = raw[0], raw[1]
    body = raw[2:ln]
    return body.decode('utf-8' if enc else 'utf-16', errors='ignore'), 8 * ln


def ref_bit_lookup(value: int, table: dict) -> str:
    return ', '.join(table[b] for b in range(value.bit_length()) if (value >> b) & 1 and table.get(b) is not None)


class BoundedHelperTask(Task):
    frame_prop = False

    def __init__(self, prop, which):
        self.prop, self.which = prop, which
        self.name = f'{prop}:bounded[{which}]'

    def run(self, tier):
        import time as _t
        t0 = _t.time()
        out = {'results': [], 'functions': [], 'notes': [], 'bounded': []}
        r = repo()
        info = r.func(('message.' if self.which == 'int_to_bytes' else 'utils.') + self.which)
        if info is not None:
            d = info.describe()
            d['checked'] = 'bounded differential against a reference (not a proof)'
            out['functions'].append(d)
        rnd = random.Random(int(os.environ.get('VERIF_SEED', '0') or 0) + 31)
        big = tier != 'quick'
        try:
            fail, n, bound = getattr(self, 'b_' + self.which)(rnd, big)
        except Exception:  # noqa
            import traceback
            out['results'].append({'obligation': f'{self.prop}/utils.{self.which}/bounded-differential', 'kind': 'bounded', 'status': 'unknown', 'backend': 'native-contract',
                                   'seconds': 0.0, 'reason': 'harness error: ' + traceback.format_exc()[-400:]})
            return out
        ob = f'{self.prop}/utils.{self.which}/bounded-differential'
        if fail:
            out['results'].append({'obligation': ob, 'kind': 'bounded', 'status': 'refuted', 'backend': 'native-contract', 'seconds': round(_t.time() - t0, 3), 'model': {},
                                   'reason': str(fail)[:300], 'replay': {'confirmed': True, 'inputs': fail, 'how': f'nmea2000.utils.{self.which} on the working tree against the reference in contracts/helpers_c.py'}})
        else:
            out['results'].append({'obligation': ob, 'kind': 'bounded', 'status': 'discharged', 'backend': 'native-contract (bounded, not a proof)', 'seconds': round(_t.time() - t0, 3)})
        out['bounded'].append({'function': f'nmea2000.{"message" if self.which == "int_to_bytes" else "utils"}.{self.which}', 'kind': 'bounded differential against a reference', 'bound': bound, 'cases': n, 'label': 'bounded'})
        return out

    @staticmethod
    def _texts(rnd, big):
        alphabet = [0x00, 0xFF, 0x40, 0x20, 0x41, 0x42, 0x7A, 0x30, 0x09, 0x0A, 0xC3, 0xBF, 0xA9, 0xE2, 0x82, 0xAC, 0x80, 0xFE]
        for n in (1, 2):
            import itertools
            for t in itertools.product(alphabet, repeat=n):
                yield bytes(t)
        for _ in range(20000 if big else 3000):
            n = rnd.choice([1, 2, 3, 4, 5, 8, 16, 20, 32])
            yield bytes(rnd.choice(alphabet) if rnd.random() < 0.7 else rnd.getrandbits(8) for _ in range(n))

    def b_decode_string_fix(self, rnd, big):
        f = resolve_real('utils.decode_string_fix')
        n = 0
        for raw in self._texts(rnd, big):
            for off in (0, 8, 13):
                n += 1
                d = (int.from_bytes(raw, 'little') << off) | rnd.getrandbits(off) | (rnd.getrandbits(16) << (off + 8 * len(raw)))
                got = f(d, off, 8 * len(raw))
                want = ref_string_fix(raw)
                if got != want:
                    return {'field_bytes': raw.hex(), 'bit_offset': off, 'observed': repr(got), 'expected': repr(want)}, n, ''
        return None, n, 'all strings of 1-2 bytes over an 18-byte alphabet (padding, ASCII, UTF-8 fragments); seeded random strings up to 32 bytes; offsets 0, 8, 13'

    def b_decode_string_lz(self, rnd, big):
        f = resolve_real('utils.decode_string_lz')
        n = 0
        for raw in self._texts(rnd, big):
            for ln in (0, 1, len(raw), len(raw) + 1, 2):
                pkt = bytes([ln]) + raw
                if pkt[-1] == 0 and any(pkt):
                    continue            # a field whose last byte is 0 is indistinguishable from a shorter one in the integer
                for off in (0, 8, 11):
                    n += 1
                    d = (int.from_bytes(pkt, 'little') << off) | rnd.getrandbits(off)
                    try:
                        got = f(d, off)
                    except Exception as e:  # noqa
                        got = ('raise', type(e).__name__)
                    want = ref_string_lz(pkt)
                    if got != want:
                        return {'field_bytes': pkt.hex(), 'bit_offset': off, 'observed': repr(got), 'expected': repr(want)}, n, ''
        return None, n, 'length byte 0, 1, 2, len, len+1 in front of the string corpus; offsets 0, 8, 11'

    def b_decode_string_lau(self, rnd, big):
        f = resolve_real('utils.decode_string_lau')
        n = 0
        for raw in self._texts(rnd, big):
            for enc in (0, 1):
                for ln in (2, 2 + len(raw), 1 + len(raw), 3):
                    pkt = bytes([ln, enc]) + raw
                    for off in (0, 8):
                        n += 1
                        d = (int.from_bytes(pkt, 'little') << off) | rnd.getrandbits(off)
                        # the library sees the integer: trailing zero bytes of the field are not observable, one zero byte is appended
                        v = int.from_bytes(pkt, 'little')
                        seen = v.to_bytes((v.bit_length() + 7) // 8 + 1, 'little')
                        try:
                            got = f(d, off)
                        except Exception as e:  # noqa
                            got = ('raise', type(e).__name__)
                        want = ref_string_lau(seen)
                        if got != want:
                            return {'field_bytes': pkt.hex(), 'bit_offset': off, 'observed': repr(got), 'expected': repr(want)}, n, ''
        return None, n, 'length/encoding headers in front of the string corpus (UTF-8 and UTF-16 readings); offsets 0, 8'

    def b_int_to_bytes(self, rnd, big):
        """message.int_to_bytes (value of BINARY fields): big-endian bytes, one more than needed when the bit length is a
        multiple of 8, at least one byte."""
        f = resolve_real('message.int_to_bytes')
        n = 0
        vals = list(range(0, 70000 if big else 5000)) + [1 << k for k in range(0, 300, 7)] + [(1 << k) - 1 for k in range(1, 300, 5)] + [rnd.getrandbits(rnd.choice([8, 16, 64, 200])) for _ in range(3000)]
        for v in vals:
            n += 1
            want = v.to_bytes(max(1, v.bit_length() // 8 + 1), 'big')
            got = f(v)
            if got != want or not isinstance(got, bytes):
                return {'value': v, 'observed': repr(got), 'expected': repr(want)}, n, ''
        return None, n, 'all values below 5000 (70000 thorough), powers of two and all-ones up to 300 bits, 3000 random values'

    def b_decode_bit_lookup(self, rnd, big):
        f = resolve_real('utils.decode_bit_lookup')
        table = {0: 'zero', 1: 'one', 2: 'two', 4: 'four', 7: 'seven', 15: 'fifteen', 31: 'thirty-one'}
        n = 0
        vals = list(range(1 << 16 if big else 1 << 12)) + [rnd.getrandbits(64) for _ in range(5000)] + [0, (1 << 64) - 1]
        for v in vals:
            n += 1
            got, want = f(v, table), ref_bit_lookup(v, table)
            if got != want:
                return {'value': v, 'observed': repr(got), 'expected': repr(want)}, n, ''
        from props.C01 import db
        for name, tb in list(db().bitlookups.items()):
            for _ in range(40):
                v = rnd.getrandbits(rnd.choice([8, 16, 32]))
                n += 1
                if f(v, tb) != ref_bit_lookup(v, tb):
                    return {'table': name, 'value': v, 'observed': repr(f(v, tb)), 'expected': repr(ref_bit_lookup(v, tb))}, n, ''
        return None, n, 'all values below 2^12 (2^16 thorough) and 5000 random 64-bit values over a 7-entry table; every database bit table on 40 random values'


def decode_helper_tasks(prop):
    def sym_time(kind):
        def make(ex):
            if kind == 'none':
                return [None]
            return [ex.fresh('seconds', lo=-(1 << 40), hi=1 << 40) if kind == 'int' else ex.fresh('seconds', 'float')]
        return make

    def sym_date(kind):
        def make(ex):
            if kind == 'none':
                return [None]
            return [ex.fresh('days', lo=0, hi=65535) if kind == 'int' else ex.fresh('days', 'float')]
        return make
    ts = []
    for kind in ('none', 'int', 'float'):
        ts.append(HelperTask(prop, 'utils.decode_time', kind, sym_time(kind), check_decode_time(kind), replay_decode_time))
        ts.append(HelperTask(prop, 'utils.decode_date', kind, sym_date(kind), check_decode_date(kind), replay_decode_date))
    for off, L in ((0, 32), (8, 32), (13, 32), (0, 64)):
        ts.append(HelperTask(prop, 'utils.decode_float', f'offset={off},bits={L}',
                             lambda ex, off=off, L=L: [ex.fresh('data_raw', lo=0), off, L, ex.fresh('min_value', 'float'), ex.fresh('max_value', 'float')],
                             check_decode_float(off, L), replay_float))
    for nb in (1, 2):
        ts.append(HelperTask(prop, 'utils.decode_decimal', f'bytes={nb}', lambda ex, nb=nb: [ex.fresh('number_int', lo=0, hi=(1 << (8 * nb)) - 1)], check_decode_decimal(nb)))
    for which in ('decode_string_fix', 'decode_string_lz', 'decode_string_lau', 'decode_bit_lookup', 'int_to_bytes'):
        ts.append(BoundedHelperTask(prop, which))
    return ts


def encode_helper_tasks(prop):
    ts = []
    ts.append(HelperTask(prop, 'utils.encode_date', 'none', lambda ex: [None, ex.fresh('bit_length', lo=1, hi=64)], check_encode_date('none'), replay_encode_date))
    ts.append(HelperTask(prop, 'utils.encode_date', 'date', lambda ex: [DateRec(ex.fresh('days', lo=0, hi=65535)), 16], check_encode_date('date'), replay_encode_date))
    ts.append(HelperTask(prop, 'utils.encode_float', 'none', lambda ex: [None], check_encode_float('none'), replay_float))
    ts.append(HelperTask(prop, 'utils.encode_float', 'float', lambda ex: [ex.fresh('value', 'float')], check_encode_float('float'), replay_float))
    return ts


# ---- lookup_encode_<TABLE> -----------------------------------------------------------------------------------------
class LookupEncodeTask(Task):
    """The generated name -> code functions of a chunk of lookup tables against the database enumeration: every name of the
    table gives a code the database lists under that name, an absent value and a text that is no name of the table are
    rejected (never given a code).  The name is concrete per case (the table is finite), the foreign text is symbolic."""
    def __init__(self, prop, tables):
        self.prop, self.tables = prop, tables
        self.name = f'{prop}:lookup_encode[{tables[0]}..{tables[-1]}]'

    def run(self, tier):
        from spec.canboat import DB
        from pyvc.sstr import SStr, Atom, str_const
        out = {'results': [], 'functions': [], 'notes': [], 'bounded': []}
        r = repo()
        db = _db()
        for tname in self.tables:
            fn = f'pgns.lookup_encode_{tname}'
            info = r.func(fn)
            base = f'{self.prop}/{fn}'
            if info is None:
                out['results'].append({'obligation': f'{base}/exists', 'kind': 'ensures', 'status': 'refuted', 'backend': 'frontend', 'seconds': 0.0,
                                       'reason': 'no generated function', 'replay': {'confirmed': True, 'observed': f'no {fn}'}})
                continue
            out['functions'].append(info.describe())
            table = db.lookups[tname]
            cases = [('absent', None, None)] + [(f'name[{code}]', name, code) for code, name in sorted(table.items())] + [('foreign-text', 'FOREIGN', None)]
            obs = []
            for label, value, code in cases:
                def run(ex, value=value):
                    if value == 'FOREIGN':
                        a = SStr([Atom('value')])
                        for nm in set(table.values()):
                            e = ex.equals(nm, a)
                            ex.assume(z3.BoolVal(not e) if isinstance(e, bool) else z3.Not(bool_term(e)))
                        value = a
                    return ex._run_body(info, [value], {}, None)
                try:
                    results = explore(r, run)
                except V.Unsupported as u:
                    out['error'] = f'{fn}[{label}]: outside the modelled subset: {u}'
                    rp = replay_lookup_encode(tname, None if value is None else value)
                    if rp.get('confirmed'):
                        out['results'].append({'obligation': f'{base}[{label}]/bounded-fallback', 'kind': 'bounded', 'status': 'refuted', 'backend': 'native-contract', 'seconds': 0.0, 'model': {}, 'replay': rp})
                    break
                for pi, p in enumerate(results):
                    if code is None:
                        goal = p.kind == 'raise'
                        note = f'{"an absent value" if value is None else "a text that is not a name of the table"} is given the code {p.value!r} instead of being rejected'
                        nm = 'rejected'
                    else:
                        v = p.value if p.kind == 'return' else None
                        goal = p.kind == 'return' and isinstance(v, int) and not isinstance(v, bool) and table.get(v) == value
                        note = f'name {value!r} (code {code}) gives {v!r}' if p.kind == 'return' else f'name {value!r} raises {p.exc_name()}'
                        nm = 'gives-a-code-of-that-name'
                    obs.append((Obligation(f'{base}[{label}]/{nm}/path[{pi}]', list(p.pc), z3.BoolVal(bool(goal)), kind='ensures', func=info.fullname, inputs={}, meta={'note': note}), tname, value))
            for ob, tn, value in obs:
                res = discharge(ob, budget(tier))
                dct = result_dict(res, with_size=False)
                dct['function'] = info.fullname
                if res.status == 'refuted':
                    dct['reason'] = ob.meta.get('note', '')
                    dct['replay'] = replay_lookup_encode(tn, value)
                out['results'].append(dct)
        return out


_DB = []


def _db():
    if not _DB:
        from spec.canboat import DB
        _DB.append(DB())
    return _DB[0]


def replay_lookup_encode(tname, value):
    import nmea2000.pgns as P
    table = _db().lookups[tname]
    fn = getattr(P, f'lookup_encode_{tname}', None)
    tries = [value] if value != 'FOREIGN' else ['', ' ', 'no such name', '\x00', 'None', 0, 3, True]
    for v in tries:
        try:
            got = ('return', fn(v))
        except Exception as e:  # noqa
            got = ('raise', type(e).__name__)
        want_ok = (got[0] == 'return' and table.get(got[1]) == v) if (isinstance(v, str) and v in table.values()) else got[0] == 'raise'
        if not want_ok:
            return {'confirmed': True, 'inputs': {'table': tname, 'value': repr(v)}, 'observed': list(got),
                    'expected': 'a code the database lists under that name' if isinstance(v, str) and v in table.values() else 'an exception (no code)',
                    'how': f'nmea2000.pgns.lookup_encode_{tname}(value) on the working tree'}
    return {'confirmed': False, 'inputs': {'table': tname, 'value': repr(value)}}


def lookup_encode_tasks(prop, per=24):
    names = sorted(_db().lookups)
    return [LookupEncodeTask(prop, names[i:i + per]) for i in range(0, len(names), per)]
