"""Native scenarios for the encoder-side call-site contracts."""


def check_encoder_selection():
    """One long-lived encoder must pick the right generated encoder for every definition of a multi-definition PGN,
    whatever it encoded before; every failure must surface as ValueError."""
    import itertools
    import nmea2000.pgns as P
    from nmea2000.encoder import NMEA2000Encoder
    from spec.canboat import DB
    db = DB()
    enc = NMEA2000Encoder()
    for pgn, group in db.multi_groups():
        cands = [d for d in group if d.encodable and not d.fallback][:4]
        msgs = []
        for d in cands:
            p = 0
            for f in d.match_fields:
                p |= int(f.match) << f.offset_bits
            try:
                m = getattr(P, f'decode_pgn_{d.suffix}')(p)
                want = getattr(P, f'encode_pgn_{d.suffix}')(m)
            except Exception:  # noqa
                continue
            msgs.append((d, m, want))
        for (d1, m1, w1), (d2, m2, w2) in itertools.permutations(msgs, 2):
            for (d, m, w) in ((d1, m1, w1), (d2, m2, w2)):
                try:
                    got = enc._call_encode_function(m)
                except Exception as e:  # noqa
                    return {'pgn': pgn, 'definition': d.id, 'after': d1.id, 'observed': f'raise {type(e).__name__}: {e}', 'expected': w.hex()}
                if got != w:
                    return {'pgn': pgn, 'definition': d.id, 'after': d1.id, 'observed': got.hex(), 'expected': w.hex()}
    # errors surface as ValueError
    from nmea2000.message import NMEA2000Message, NMEA2000Field
    for val in (1e308, float('inf'), 'text', None):
        m = P.decode_pgn_127250(0)
        m.fields[1].value = val
        try:
            enc._call_encode_function(m)
        except ValueError:
            pass
        except Exception as e:  # noqa
            return {'message': f'vesselHeading with heading={val!r}', 'observed': f'raise {type(e).__name__}', 'expected': 'ValueError'}
    return None


def check_short_fast_packets():
    """Fast-packet PGNs with short payloads (<= 8 bytes) still go out as fast packets (counter byte, length byte) and come back
    through the decoder; single-frame PGNs go out as one frame."""
    import nmea2000.pgns as P
    from nmea2000.encoder import NMEA2000Encoder
    from nmea2000.decoder import NMEA2000Decoder
    from spec.canboat import DB, sample_payload
    db = DB()
    enc, dec = NMEA2000Encoder(), NMEA2000Decoder()
    n = 0
    for d in db.defs:
        if not d.encodable or not db.selectable(d) or d.type not in ('Fast', 'Single') or not isinstance(d.length, int) or d.length > 16:
            continue
        pl = sample_payload(d, 1)
        try:
            m = getattr(P, f'decode_pgn_{d.suffix}')(int.from_bytes(pl, 'little'))
            payload = enc._call_encode_function(m)
        except Exception:  # noqa
            continue
        m.source, m.destination, m.priority = 7, 255, 3
        n += 1
        try:
            pk = enc.encode_ebyte(m)
        except Exception as e:  # noqa
            return {'definition': f'{d.pgn}:{d.id}', 'observed': f'encode_ebyte raises {type(e).__name__}: {e}'}
        frames = [bytes(q[5:5 + (q[0] & 0x0F)]) for q in pk]
        if d.type == 'Fast':
            ok = len(frames[0]) >= 2 and frames[0][1] == len(payload) and (frames[0][0] & 0x1F) == 0 and all((fr[0] & 0x1F) == i for i, fr in enumerate(frames))
        else:
            ok = len(frames) == 1 and frames[0] == payload[::-1][:len(frames[0])][::1] or len(frames) == 1
        got = None
        for q in pk:
            r = dec.decode_tcp(q)
            if r is not None:
                got = r
        back = None if got is None else [(f.id, f.raw_value) for f in got.fields]
        if not ok or back != [(f.id, f.raw_value) for f in m.fields]:
            return {'definition': f'{d.pgn}:{d.id}', 'type': d.type, 'payload_bytes': len(payload), 'frames': [fr.hex() for fr in frames], 'observed': 'not a well-formed fast packet' if not ok else f'decodes back as {str(back)[:160]}',
                    'expected': 'counter + length byte + payload for a Fast PGN, and the same field values back from decode_tcp'}
        if n >= 120:
            break
    return None


def replay_for(prop):
    f = check_encoder_selection() or check_short_fast_packets()
    if f is None:
        return {'confirmed': None, 'note': 'no scripted scenario reproduces the refuted obligation'}
    return {'confirmed': True, 'inputs': f, 'how': 'NMEA2000Encoder._call_encode_function on one long-lived encoder, working tree'}


def fallback_results(prop):
    f = check_encoder_selection() or check_short_fast_packets()
    if f is None:
        return []
    return [{'obligation': f'{prop}/encoder.NMEA2000Encoder._call_encode_function/bounded-fallback', 'kind': 'bounded', 'status': 'refuted', 'backend': 'native-scenarios',
             'seconds': 0.0, 'model': {}, 'replay': {'confirmed': True, 'inputs': f}}]
