"""Native scenarios for the encoder-side call-site contracts."""


def check_encoder_selection():
    """One long-lived encoder must pick the right generated encoder for every definition of a multi-definition PGN,
    whatever it encoded before; every failure must surface as ValueError."""
    import itertools
    import nmea2000.pgns as P
    from nmea2000.encoder import NMEA2000Encoder
    from spec.canboat import DB
    db = DB()
    enc = NMEA2000Encoder()
    for pgn, group in db.multi_groups():
        cands = [d for d in group if d.encodable and not d.fallback][:4]
        msgs = []
        for d in cands:
            p = 0
            for f in d.match_fields:
                p |= int(f.match) << f.offset_bits
            try:
                m = getattr(P, f'decode_pgn_{d.suffix}')(p)
                want = getattr(P, f'encode_pgn_{d.suffix}')(m)
            except Exception:  # noqa
                continue
            msgs.append((d, m, want))
        for (d1, m1, w1), (d2, m2, w2) in itertools.permutations(msgs, 2):
            for (d, m, w) in ((d1, m1, w1), (d2, m2, w2)):
                try:
                    got = enc._call_encode_function(m)
                except Exception as e:  # noqa
                    return {'pgn': pgn, 'definition': d.id, 'after': d1.id, 'observed': f'raise {type(e).__name__}: {e}', 'expected': w.hex()}
                if got != w:
                    return {'pgn': pgn, 'definition': d.id, 'after': d1.id, 'observed': got.hex(), 'expected': w.hex()}
    # errors surface as ValueError
    from nmea2000.message import NMEA2000Message, NMEA2000Field
    for val in (1e308, float('inf'), 'text', None):
        m = P.decode_pgn_127250(0)
        m.fields[1].value = val
        try:
            enc._call_encode_function(m)
        except ValueError:
            pass
        except Exception as e:  # noqa
            return {'message': f'vesselHeading with heading={val!r}', 'observed': f'raise {type(e).__name__}', 'expected': 'ValueError'}
    return None


def replay_for(prop):
    f = check_encoder_selection()
    if f is None:
        return {'confirmed': None, 'note': 'no scripted scenario reproduces the refuted obligation'}
    return {'confirmed': True, 'inputs': f, 'how': 'NMEA2000Encoder._call_encode_function on one long-lived encoder, working tree'}


def fallback_results(prop):
    f = check_encoder_selection()
    if f is None:
        return []
    return [{'obligation': f'{prop}/encoder.NMEA2000Encoder._call_encode_function/bounded-fallback', 'kind': 'bounded', 'status': 'refuted', 'backend': 'native-scenarios',
             'seconds': 0.0, 'model': {}, 'replay': {'confirmed': True, 'inputs': f}}]
