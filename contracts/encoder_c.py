"""Contracts of NMEA2000Encoder._call_encode_function and _encode (C02, C03, C08 encode side, C09, C19)."""
from __future__ import annotations
import z3
from pyvc import values as V
from pyvc.values import Sym, vand, vor, vnot, veq, mk_bool, bool_term, int_term
from pyvc.gv import GV
from pyvc.sbytes import SBytes
from pyvc.sstr import SStr, Fmt, Atom
from pyvc.report import Task
from pyvc.tasks import repo, budget, result_dict
from pyvc.solve import Obligation, discharge
from pyvc.symex import explore, built_instance, Obj, Opaque, PyRaise, make_exc

ENC = 'encoder.NMEA2000Encoder.'
HAS_PLAIN = z3.Function('has_encode_pgn', z3.IntSort(), z3.BoolSort())            # encode_pgn_<PGN> exists
HAS_BYID = z3.Function('has_encode_pgn_id', z3.IntSort(), Atom.S, z3.BoolSort())   # encode_pgn_<PGN>_<id> exists
EXCS = ['ValueError', 'AssertionError', 'Exception', 'OverflowError', 'TypeError', 'KeyError']


class GenEncoder:
    ALWAYS_TRUE = True        # a Python object of this kind is truthy (no __bool__ / __len__)
    def __init__(self, which, st):
        self.which = which
        self.st = st

    def sym_call(self, ex, args, kwargs):
        self.st['calls'].append((self.which, args[0]))
        c = ex.choose(len(EXCS) + 1, 'generated-encoder')
        if c < len(EXCS):
            raise PyRaise(make_exc(EXCS[c], 'raised inside the generated encoder'))
        return self.st['payload']


class CallEncodeTask(Task):
    def __init__(self, prop):
        self.prop = prop
        self.name = f'{prop}:_call_encode_function'

    def run(self, tier):
        out = {'results': [], 'functions': [], 'notes': [], 'bounded': []}
        r = repo()
        info = r.func(ENC + '_call_encode_function')
        out['functions'].append(info.describe())
        base = f'{self.prop}/{ENC}_call_encode_function'

        def run(ex):
            g = ex.ghost
            st = {'calls': [], 'payload': SBytes([ex.fresh(f'payload[{i}]', bits=8) for i in range(8)])}
            g['st'] = st
            pgn = ex.fresh('PGN', bits=18)
            mid = SStr([Atom('message.id')])
            msg = Obj(r.cls('message', 'NMEA2000Message'), {'PGN': pgn, 'id': mid, 'fields': Opaque('fields')})
            g['msg'], g['pgn'], g['mid'] = msg, pgn, mid
            enc = built_instance(ex, r.cls('encoder', 'NMEA2000Encoder'), {'sequence_counter': ex.fresh('seq', bits=3)})
            g['enc'] = enc
            g['enc_attrs'] = dict(enc.attrs)

            def globals_get(ex, name):
                if isinstance(name, SStr) and name.parts and name.parts[0] == 'encode_pgn_':
                    rest = name.parts[1:]
                    if len(rest) == 1 and isinstance(rest[0], Fmt):
                        if ex.branch(HAS_PLAIN(int_term(rest[0].value))):
                            return (GenEncoder(('plain', rest[0].value), st),)
                        return (None,)
                    if len(rest) == 3 and isinstance(rest[0], Fmt) and rest[1] == '_' and isinstance(rest[2], Atom):
                        if ex.branch(HAS_BYID(int_term(rest[0].value), rest[2].z3())):
                            return (GenEncoder(('by-id', rest[0].value, rest[2]), st),)
                        return (None,)
                return None
            ex.hooks['globals_get'] = globals_get
            return ex._run_body(info, [msg], {}, enc)
        try:
            results = explore(r, run, inline={'encoder.*'}, hooks={})
        except V.Unsupported as u:
            out['error'] = f'_call_encode_function: outside the modelled subset: {u}'
            from contracts.encoder_scenarios import fallback_results
            out['results'].extend(fallback_results(self.prop))
            return out
        obs = []
        for pi, p in enumerate(results):
            g = p.ex.ghost
            st = g['st']
            hyps = list(p.pc)
            pt = int_term(g['pgn'])
            idt = g['mid'].parts[0].z3()

            def add(name, goal, note=''):
                gl = goal if isinstance(goal, z3.ExprRef) else (z3.BoolVal(goal) if isinstance(goal, bool) else bool_term(goal))
                obs.append(Obligation(f'{base}/{name}/path[{pi}]', hyps, gl, kind='ensures', func=info.fullname, inputs={'PGN': g['pgn'].t}, meta={'note': note, 'prop': self.prop}))
            add('encoder-object-state-untouched', dict(g['enc'].attrs) == g['enc_attrs'] or all(g['enc'].attrs.get(k) is v for k, v in g['enc_attrs'].items()) and set(g['enc'].attrs) == set(g['enc_attrs']),
                f'encoder attributes: {sorted(g["enc"].attrs)}')
            if p.kind == 'raise':
                add('every-error-surfaces-as-ValueError', p.exc_name() == 'ValueError', f'raises {p.exc_name()}')
                if not st['calls']:
                    add('unknown-definition-only', z3.And(z3.Not(HAS_PLAIN(pt)), z3.Not(HAS_BYID(pt, idt))), 'raises although an encode function exists')
                continue
            add('exactly-one-generated-encoder-called', len(st['calls']) == 1)
            if len(st['calls']) == 1:
                which, arg = st['calls'][0]
                add('called-with-this-message', arg is g['msg'])
                if which[0] == 'plain':
                    add('selected-by-pgn', veq(which[1], g['pgn']))
                else:
                    add('selected-by-pgn-and-id-only-without-a-plain-function', vand(veq(which[1], g['pgn']), mk_bool(which[2].z3() == idt), mk_bool(z3.Not(HAS_PLAIN(pt)))))
            add('returns-the-generated-payload', p.value is st['payload'])
        for ob in obs:
            res = discharge(ob, budget(tier))
            dct = result_dict(res, with_size=False)
            dct['function'] = info.fullname
            if res.status == 'refuted':
                dct['reason'] = ob.meta.get('note', '')
                from contracts.encoder_scenarios import replay_for
                dct['replay'] = replay_for(self.prop)
            out['results'].append(dct)
        return out


class EncodeTask(Task):
    """_encode: range checks, payload through _call_encode_function, fast packets iff the PGN is a fast PGN."""
    def __init__(self, prop, payload_len=9):
        self.prop = prop
        self.payload_len = payload_len
        self.name = f'{prop}:_encode' + (f'[payload={payload_len}]' if payload_len != 9 else '')

    def run(self, tier):
        out = {'results': [], 'functions': [], 'notes': [], 'bounded': []}
        r = repo()
        info = r.func(ENC + '_encode')
        out['functions'].append(info.describe())
        base = f'{self.prop}/{ENC}_encode' + (f'[payload_bytes={self.payload_len}]' if self.payload_len != 9 else '')
        KIND = z3.Function('fast_kind', z3.IntSort(), z3.IntSort())

        def run(ex):
            g = ex.ghost
            g['calls'] = {'cef': [], 'fast': []}
            f = {k: ex.fresh(k, lo=-5, hi=hi) for k, hi in (('priority', 12), ('source', 300), ('PGN', (1 << 18) + 5))}
            f['destination'] = ex.fresh('destination', bits=8)
            g['f'] = f
            msg = Obj(r.cls('message', 'NMEA2000Message'), dict(f, id='x', fields=Opaque('fields')))
            g['msg'] = msg
            enc = built_instance(ex, r.cls('encoder', 'NMEA2000Encoder'), {'sequence_counter': ex.fresh('seq', bits=3)})
            g['payload'] = SBytes([ex.fresh(f'payload[{i}]', bits=8) for i in range(self.payload_len)])
            g['frames'] = [Opaque('frame0'), Opaque('frame1')]
            return ex._run_body(info, [msg], {}, enc)

        def cef(ex, f, args, kwargs):
            ex.ghost['calls']['cef'].append(args[0])
            if ex.choose(2, 'cef') == 0:
                raise PyRaise(make_exc('ValueError', 'unencodable'))
            return ex.ghost['payload']

        def is_fast(ex, f, args, kwargs):
            k = KIND(int_term(args[0]))
            ex.assume(z3.And(k >= 0, k <= 2))
            ex.ghost['kind'] = k
            return GV.make([(k == 0, None), (k == 1, False), (k == 2, True)])

        def fast(ex, f, args, kwargs):
            ex.ghost['calls']['fast'].append(list(args))
            return ex.ghost['frames']
        try:
            results = explore(r, run, contracts={'nmea2000.encoder.NMEA2000Encoder._call_encode_function': cef, 'nmea2000.decoder.NMEA2000Decoder._isFastPGN': is_fast,
                                                 'nmea2000.encoder.NMEA2000Encoder._encode_fast_message': fast}, inline={'encoder.*'})
        except V.Unsupported as u:
            out['error'] = f'_encode: outside the modelled subset: {u}'
            return out
        obs = []
        for pi, p in enumerate(results):
            g = p.ex.ghost
            f = g['f']
            hyps = list(p.pc)

            def add(name, goal, note=''):
                gl = goal if isinstance(goal, z3.ExprRef) else (z3.BoolVal(goal) if isinstance(goal, bool) else bool_term(goal))
                obs.append(Obligation(f'{base}/{name}/path[{pi}]', hyps, gl, kind='ensures', func=info.fullname, inputs={k: v.t for k, v in f.items()}, meta={'note': note, 'prop': self.prop}))
            in_range = vand(f['priority'] >= 0, f['priority'] <= 7, f['source'] >= 0, f['source'] <= 255, f['PGN'] >= 0, f['PGN'] <= 0x3FFFF)
            if p.kind == 'raise':
                add('errors-are-ValueError', p.exc_name() == 'ValueError', f'raises {p.exc_name()}')
                if not g['calls']['cef']:
                    add('rejects-only-out-of-range-headers', vnot(in_range))
                continue
            add('header-fields-in-range', in_range)
            add('payload-encoded-once-from-this-message', len(g['calls']['cef']) == 1 and g['calls']['cef'][0] is g['msg'])
            k = g.get('kind')
            if g['calls']['fast']:
                a = g['calls']['fast'][0]
                add('fast-packet-only-for-fast-pgns', k == 2 if k is not None else False)
                add('segmentation-receives-header-and-payload', vand(veq(a[0], f['PGN']), veq(a[1], f['priority']), veq(a[2], f['source']), veq(a[3], f['destination']), a[4] is g['payload']))
                add('returns-the-segments', p.value is g['frames'])
            else:
                add('single-frame-only-for-non-fast-pgns', k != 2 if k is not None else False)
                add('returns-the-payload-as-one-frame', isinstance(p.value, list) and len(p.value) == 1 and p.value[0] is g['payload'])
        for ob in obs:
            res = discharge(ob, budget(tier))
            dct = result_dict(res, with_size=False)
            dct['function'] = info.fullname
            if res.status == 'refuted':
                dct['reason'] = ob.meta.get('note', '')
                from contracts.encoder_scenarios import replay_for
                dct['replay'] = replay_for(self.prop)
            out['results'].append(dct)
        return out


class IsFastTask(Task):
    """The generated is_fast_pgn_<PGN> functions return True iff the database type of the PGN is Fast."""
    name = 'C03:is_fast_pgn_*'

    def run(self, tier):
        from props.C01 import db
        out = {'results': [], 'functions': [], 'notes': [], 'bounded': []}
        r = repo()
        r.load('pgns')
        obs = []
        for pgn, group in db().groups.items():
            info = r.func(f'pgns.is_fast_pgn_{pgn}')
            want = {'Fast': True, 'Single': False}.get(group[0].type)
            if info is None:
                obs.append(Obligation(f'C03/pgns.is_fast_pgn_{pgn}/exists', [], z3.BoolVal(False), kind='ensures', meta={'note': 'missing'}))
                continue
            res = explore(r, lambda ex, info=info: ex._run_body(info, [], {}, None))
            if want is None:
                ok = len(res) == 1 and res[0].kind == 'raise'      # database types other than Fast/Single are unsupported by construction
            else:
                ok = len(res) == 1 and res[0].kind == 'return' and res[0].value is want
            obs.append(Obligation(f'C03/pgns.is_fast_pgn_{pgn}/equals-database-type', [], z3.BoolVal(ok), kind='ensures',
                                  meta={'note': f'database type {group[0].type}, function gives {res[0].value if res else None!r}'}))
        for ob in obs:
            res = discharge(ob, budget(tier))
            dct = result_dict(res, with_size=False)
            if res.status == 'refuted':
                dct['reason'] = ob.meta.get('note', '')
                dct['replay'] = {'confirmed': True, 'observed': ob.meta.get('note', '')}
            out['results'].append(dct)
        return out
