"""Native replay of refuted wire-format obligations: build a concrete message / packet from the solver's model,
run the real encoder or decoder and compare with the packet layout of the property statement."""
from __future__ import annotations


def be32(x):
    return list(int(x).to_bytes(4, 'big'))


def native_spec(fmt, cid, data):
    n = len(data)
    if fmt == 'ebyte':
        return bytes([0x80 | n] + be32(cid) + list(data) + [0] * (8 - n))
    if fmt == 'usb':
        body = [0xAA, 0x55, 1, 2, 1] + be32(cid)[::-1] + [n] + list(data) + [0] * (8 - n) + [0]
        return bytes(body + [sum(body[2:19]) & 0xFF])
    if fmt == 'yd':
        return (bytes(be32(cid)).hex().upper() + ' ' + ' '.join(f'{b:02X}' for b in data) + '\r\n').encode()
    raise ValueError(fmt)


def build_id(pgn, src, dst, prio):
    pf = (pgn >> 8) & 0xFF
    ps = dst if pf < 240 else pgn & 0xFF
    return ((prio & 7) << 26) | (((pgn >> 16) & 3) << 24) | (pf << 16) | (ps << 8) | (src & 0xFF)


def extract(cid):
    src = cid & 0xFF
    ps = (cid >> 8) & 0xFF
    pf = (cid >> 16) & 0xFF
    dp = (cid >> 24) & 3
    prio = (cid >> 26) & 7
    if pf < 240:
        return (dp << 16) | (pf << 8), src, ps, prio
    return (dp << 16) | (pf << 8) | ps, src, 255, prio


def replay_wire(ob, model):
    import nmea2000.encoder as E
    import nmea2000.decoder as D
    fmt = ob.meta.get('fmt')
    name = ob.name
    try:
        if '/roundtrip[' in name:
            return replay_roundtrip(name.split('/roundtrip[')[1].split(']')[0], model, E, D)
        if '/encoder.' in name:
            return replay_encoder(fmt, model, E)
        rp = replay_decoder(fmt, ob.meta.get('variant', ''), model, D)
        if '/no-exception' in name and isinstance(rp, dict) and not rp.get('confirmed'):
            # the obligation says: this front end does not raise on this input
            out_ = (rp.get('observed') or {}).get('outcome') or []
            if out_ and out_[0] == 'raise':
                rp = dict(rp, confirmed=True, expected='no exception (the line is decoded, or ignored)')
        return rp
    except Exception as e:  # noqa
        import traceback
        return {'confirmed': None, 'note': 'replay harness error: ' + traceback.format_exc()[-400:]}


def replay_encoder(fmt, m, E):
    from nmea2000.message import NMEA2000Message
    pgn, src, dst, prio = m.get('msg.PGN', 0), m.get('msg.source', 0), m.get('msg.destination', 0), m.get('msg.priority', 0)
    frames = {}
    for k, v in m.items():
        if k.startswith('frame'):
            fi, bi = k[5:].split('[')
            frames.setdefault(int(fi), {})[int(bi[:-1])] = v
    lens = list(range(0, 9)) if fmt != 'actisense' else [0, 1, 3, 8, 17]
    fl = [bytes(frames.get(k, {}).get(i, 0) for i in range(n)) for k, n in enumerate(lens)]
    enc = E.NMEA2000Encoder()
    msg = NMEA2000Message(PGN=pgn, id='x', source=src, destination=dst, priority=prio)
    bad = []
    # the encoder has a history: it first sends messages that differ from the counterexample in one header field each
    for (p2, s2, d2, r2) in ((pgn, src, dst, (prio + 1) % 8), (pgn, src, (dst + 1) % 256, prio), (pgn, (src + 1) % 256, dst, prio), (pgn ^ 0x100, src, dst, prio)):
        try:
            enc._call_encode_function = lambda mm: b'\x01\x02\x03'
            enc._encode = lambda mm: [b'\x01\x02\x03']
            m2 = NMEA2000Message(PGN=p2, id='x', source=s2, destination=d2, priority=r2)
            getattr(enc, {'ebyte': 'encode_ebyte', 'usb': 'encode_usb', 'yd': 'encode_yacht_devices', 'actisense': 'encode_actisense'}[fmt])(m2)
        except Exception:  # noqa
            pass
    if fmt == 'actisense':
        for fr in fl:
            enc._call_encode_function = lambda mm, fr=fr: fr
            got = enc.encode_actisense(msg)
            n = (src << 12) | (dst << 4) | prio
            want = f'{n:05X} {pgn:05X} {fr.hex().upper()}'
            if got != want:
                bad.append({'payload': fr.hex(), 'got': got, 'want': want})
    else:
        enc._encode = lambda mm: list(fl)
        got = getattr(enc, {'ebyte': 'encode_ebyte', 'usb': 'encode_usb', 'yd': 'encode_yacht_devices'}[fmt])(msg)
        cid = build_id(pgn, src, dst, prio)
        for fr, g in zip(fl, got):
            want = native_spec(fmt, cid, fr)
            if bytes(g) != want:
                bad.append({'frame_data': fr.hex(), 'got': bytes(g).hex() if fmt != 'yd' else repr(bytes(g)), 'want': want.hex() if fmt != 'yd' else repr(want)})
    return {'confirmed': bool(bad), 'inputs': {'PGN': pgn, 'source': src, 'destination': dst, 'priority': prio, 'frames': [f.hex() for f in fl]},
            'observed': bad[:3], 'expected': 'the packet layout of the property statement',
            'how': f'NMEA2000Encoder.encode_* ({fmt}) on the working tree with _encode stubbed to return the frames'}


def replay_decoder(fmt, variant, m, D):
    """The counterexample through the real front end of a new decoder; if that agrees with the specification, the same input
    once more through the same decoder (a decoder with a history: the property holds for every history)."""
    dec = D.NMEA2000Decoder()
    rp = _replay_decoder_once(fmt, variant, m, dec)
    if not rp.get('confirmed'):
        rp2 = _replay_decoder_once(fmt, variant, m, dec)
        if rp2.get('confirmed'):
            rp2['how'] += '; second delivery of the same input to the same decoder (the first one behaved as specified)'
            return rp2
    return rp


def _replay_decoder_once(fmt, variant, m, dec):
    calls = []

    def fake(pgn, priority, source_id, destination_id, timestamp, can_data, raw_can_data, already_combined=False):
        calls.append((pgn, priority, source_id, destination_id, bytes(can_data), already_combined))
        return 'decoded'
    dec._decode = fake

    def arr(prefix, n):
        return bytes(int(m.get(f'{prefix}[{i}]', 0)) & 0xFF for i in range(n))
    exp = None
    try:
        if fmt == 'tcp':
            pk = arr('packet', 13)
            r = dec.decode_tcp(pk)
            cid = int.from_bytes(pk[1:5], 'big')
            n = min(pk[0] & 0xF, 8)
            exp = [extract(cid)[0], extract(cid)[3], extract(cid)[1], extract(cid)[2], pk[5:5 + n][::-1], False]
            inp = {'packet': pk.hex()}
        elif fmt == 'usb':
            n = int(variant[3:] or 20)
            pk = arr('packet', n)
            inp = {'packet': pk.hex()}
            r = dec.decode_usb(pk)
            if n == 20 and pk[0] == 0xAA and pk[1] == 0x55 and (sum(pk[2:19]) & 0xFF) == pk[19]:
                cid = int.from_bytes(pk[5:9], 'little')
                k = min(pk[9], 10)
                exp = [extract(cid)[0], extract(cid)[3], extract(cid)[1], extract(cid)[2], pk[10:10 + k][::-1], False]
        elif fmt == 'yd':
            parts = variant.split('-')
            n = int(parts[0].replace('bytes', '')) if parts[0].endswith('bytes') else 3
            case, d = (parts[1], parts[2]) if len(parts) == 3 else ('X', 'Q')
            data = arr('data', n)
            cid = int(m.get('can_id', 0))
            line = '12:00:00.000 ' + d + ' ' + format(cid, '08' + case) + ''.join(' ' + format(b, '02' + case) for b in data)
            inp = {'line': line}
            r = dec.decode_yacht_devices_string(line)
            exp = [extract(cid)[0], extract(cid)[3], extract(cid)[1], extract(cid)[2], data[::-1], False]
        elif fmt == 'actisense':
            n = int(variant.split('bytes')[0])
            case = variant.split('-')[1]
            data = arr('data', n)
            hn, pgn = int(m.get('header_word', 0)), int(m.get('pgn', 0))
            line = f'A{int(m.get("ts.seconds", 1))}.{int(m.get("ts.millis", 0))} ' + format(hn, '05' + case) + ' ' + format(pgn, '05' + case) + ' ' + ''.join(format(b, '02' + case) for b in data)
            inp = {'line': line}
            r = dec.decode_actisense_string(line)
            exp = [pgn, hn & 0xF, (hn >> 12) & 0xFF, (hn >> 4) & 0xFF, data[::-1], True]
        else:
            ps = variant.split('-')
            n = int(ps[0].replace('bytes', ''))
            z, ac = ps[1] == 'Z', ps[2] == 'combined'
            data = arr('data', n)
            L = int(m.get('length', n))
            f = {k: int(m.get(k, 0)) for k in ('prio', 'pgn', 'src', 'dst')}
            ts = '2020-01-01T00:00:00.000Z' if z else '2020-01-01-00:00:00.000'
            line = ','.join([ts, str(f['prio']), str(f['pgn']), str(f['src']), str(f['dst']), str(L)] + [format(b, '02x') for b in data])
            inp = {'line': line, 'already_combined': ac}
            r = dec.decode_basic_string(line, ac)
            exp = [f['pgn'], f['prio'], f['src'], f['dst'], data[:L][::-1], ac]
        got = ['return', r]
    except Exception as e:  # noqa
        got = ['raise', type(e).__name__, str(e)[:100]]
    observed = {'outcome': got[:2] if got[0] == 'raise' else ['return', None if got[1] is None else 'message'], 'decode_calls': [list(c[:4]) + [c[4].hex(), c[5]] for c in calls]}
    if exp is None:
        bad = bool(calls)
    else:
        bad = not (len(calls) == 1 and list(calls[0]) == exp)
    return {'confirmed': bad, 'inputs': inp, 'observed': observed, 'expected': None if exp is None else exp[:4] + [exp[4].hex(), exp[5]],
            'how': f'NMEA2000Decoder.decode_* ({fmt}) on the working tree with _decode stubbed to record its arguments'}



def replay_roundtrip(fmt, m, E, D):
    """The real encoder of a format, then the real decoder of the same format, with _encode / _decode stubbed to hand over /
    record the frame: header and data must come back.  Tried for the counterexample's header and for a boundary grid."""
    from nmea2000.message import NMEA2000Message
    en, dn = {'ebyte': ('encode_ebyte', 'decode_tcp'), 'usb': ('encode_usb', 'decode_usb'), 'yd': ('encode_yacht_devices', 'decode_yacht_devices_string'),
              'actisense': ('encode_actisense', 'decode_actisense_string')}[fmt]
    grid = [(int(m.get('msg.PGN', 59904)), int(m.get('msg.source', 1)), int(m.get('msg.destination', 255)), int(m.get('msg.priority', 3)))]
    grid += [(p, s_, d, pr) for p in (59904, 127250, 126720, 0x1EF00) for s_ in (0, 1, 35, 255) for d in (0, 5, 15, 16, 255) for pr in (0, 3, 7)]
    # two passes: a new encoder and decoder for every header, then one encoder and one decoder for the whole grid (the
    # property holds for an object with any history of earlier calls)
    shared = {}
    for (pgn, src, dst, prio), fresh_objects in [(h, True) for h in grid] + [(h, False) for h in grid]:
        pdu1 = ((pgn >> 8) & 0xFF) < 240
        if not pdu1:
            dst = 255
        else:
            pgn &= 0x3FF00
        for n in (8, 3, 1):
            data = bytes((17 * i + 3) & 0xFF for i in range(n))
            msg = NMEA2000Message(PGN=pgn, id='x', source=src, destination=dst, priority=prio)
            if fresh_objects or not shared:
                enc, dec = E.NMEA2000Encoder(), D.NMEA2000Decoder()
                if not fresh_objects:
                    shared['objects'] = (enc, dec)
            else:
                enc, dec = shared['objects']
            enc._encode = lambda mm, data=data: [data]
            enc._call_encode_function = lambda mm, data=data: data[::-1]
            calls = []
            dec._decode = lambda pgn_, prio_, src_, dst_, ts, can, raw, comb=False: calls.append((pgn_, prio_, src_, dst_, bytes(can)))
            try:
                pk = getattr(enc, en)(msg)
                pk = pk if isinstance(pk, list) else [pk]
                for q in pk:
                    arg = q
                    if fmt == 'yd':
                        arg = '00:00:00.000 R ' + bytes(q).decode().strip()
                    elif fmt == 'actisense':
                        arg = 'A000000.000 ' + q.strip()
                    getattr(dec, dn)(arg)
            except Exception as e:  # noqa
                return {'confirmed': True, 'inputs': {'format': fmt, 'pgn': pgn, 'source': src, 'destination': dst, 'priority': prio, 'data': data.hex()},
                        'observed': f'{type(e).__name__}: {e}', 'how': f'{en} then {dn} on the working tree' + ('' if fresh_objects else ' (one encoder and one decoder reused over the header grid)')}
            want = (pgn, prio, src, dst, data[::-1] if fmt != 'actisense' else data[::-1])
            if len(calls) != 1 or calls[0][:4] != want[:4]:
                return {'confirmed': True, 'inputs': {'format': fmt, 'pgn': pgn, 'source': src, 'destination': dst, 'priority': prio, 'data': data.hex(), 'packets': [bytes(q).hex() if isinstance(q, (bytes, bytearray)) else q for q in pk]},
                        'observed': [list(c[:4]) for c in calls], 'expected': list(want[:4]), 'how': f'{en} then {dn} on the working tree (frame handed over by stubs of _encode / _decode)' + ('' if fresh_objects else '; one encoder and one decoder reused over the header grid')}
    return {'confirmed': False, 'inputs': {k: v for k, v in m.items() if k.startswith('msg.')}}


def sample_models(fmt, variant):
    """Boundary grid of counterexample-shaped inputs for the native search after a solver gave up (bounded)."""
    out = []
    for pgn in (59904, 60928, 126208, 126720, 127250, 130306, 0x1FF1A, 0x1EF00, 0x0EA00, 0x3FFFF):
        for src in (0, 1, 35, 255):
            for dst in (0, 5, 16, 255):
                for prio in (0, 3, 7):
                    pdu1 = ((pgn >> 8) & 0xFF) < 240
                    p2 = (pgn & 0x3FF00) if pdu1 else pgn
                    cid = build_id(p2, src, dst, prio)
                    data = bytes((17 * i + 3 + src) & 0xFF for i in range(24))
                    m = {'header_word': (src << 12) | (dst << 4) | prio, 'pgn': p2, 'can_id': cid, 'prio': prio, 'src': src, 'dst': dst, 'length': 8,
                         'msg.PGN': p2, 'msg.source': src, 'msg.destination': dst, 'msg.priority': prio, 'ts.seconds': 12, 'ts.millis': 5}
                    for i, b in enumerate(data):
                        m[f'data[{i}]'] = b
                    if fmt == 'tcp':
                        pk = bytes([0x88]) + cid.to_bytes(4, 'big') + data[:8]
                    elif fmt == 'usb':
                        body = bytes([0xAA, 0x55, 1, 1, 1]) + cid.to_bytes(4, 'little') + bytes([8]) + data[:8] + b'\x00'
                        pk = body + bytes([sum(body[2:19]) & 0xFF])
                    else:
                        pk = b''
                    for i, b in enumerate(pk):
                        m[f'packet[{i}]'] = b
                    out.append(m)
    return out
