"""Harness, dependency contracts and tasks for nmea2000/ioclient.py (C12, C13, C14, C19, C20)."""
from __future__ import annotations
import time
import z3
from pyvc import values as V
from pyvc.values import Sym, bool_term, vand, vor, vnot, veq, mk_int, mk_bool
from pyvc.gv import GV
from pyvc.sbytes import SBytes
from pyvc.sstr import SStr, Atom
from pyvc.report import Task
from pyvc.tasks import repo, budget, result_dict
from pyvc.solve import Obligation, discharge
from pyvc.symex import explore, Obj, Opaque, PyRaise, make_exc, EnumVal, Coroutine, FuncVal, BoundBuiltin, PathAbort
from pyvc import aio
from pyvc.aio import Aw, SymEnum, STATE_MEMBERS, World, TaskObj, LockObj, QueueObj, WriterObj, ReaderObj, state_code

IO = 'ioclient.'
CLOSED, CONNECTED, DISCONNECTED = 2, 1, 0


class Callback:
    ALWAYS_TRUE = True        # a Python object of this kind is truthy (no __bool__ / __len__)
    def __init__(self, which):
        self.which = which

    def sym_call(self, ex, args, kwargs):
        return Aw('callback', which=self.which, arg=args[0] if args else None)


class Client:
    """A gateway client object in an arbitrary state (the fields the coroutines under contract read or write)."""
    def __init__(self, ex, r, cls='EByteNmea2000Gateway', state=None, gw_type=None):
        self.ex = ex
        self.world = World(ex)
        self.state0 = SymEnum('State', STATE_MEMBERS, z3.Int('state0'))
        ex.assume(z3.And(self.state0.term >= 0, self.state0.term <= 2))
        if state is not None:
            ex.assume(self.state0.term == state)
        self.writer = WriterObj(self.world, 'writer')
        self.reader = ReaderObj(self.world, 'reader')
        self.has_writer = z3.Bool('has_writer')
        self.has_rcb = z3.Bool('has_receive_callback')
        self.has_scb = z3.Bool('has_status_callback')
        self.rcb = Callback('receive')
        self.scb = Callback('status')
        self.lock = LockObj(self.world, 'connect_lock')
        self.queue = QueueObj(self.world)
        self.recv_task = TaskObj(None, self.world, 'old_receive_task')
        self.has_recv_task = z3.Bool('has_receive_task')
        self.pq_task = TaskObj(None, self.world, 'process_queue_task')
        self.decoder = Obj(r.cls('decoder', 'NMEA2000Decoder'), {})
        self.encoder = Obj(r.cls('encoder', 'NMEA2000Encoder'), {})
        # the object is built by the real constructor of the class (so the harness follows the code), then the fields the
        # coroutines read are replaced by symbolic ones
        def plain(ex2, ci, args, kwargs):
            return Obj(ci, {})
        saved = dict(ex.contracts)
        ex.contracts['nmea2000.decoder.NMEA2000Decoder'] = plain
        ex.contracts['nmea2000.encoder.NMEA2000Encoder'] = plain
        aio.install(ex)
        ci = r.cls('ioclient', cls)
        old_inline = set(ex.inline)
        ex.inline.add('ioclient.*')
        try:
            self.obj = ex.instantiate(ci, ['/dev/ttyX'] if cls == 'WaveShareNmea2000Gateway' else ['h', 1], {})
        finally:
            ex.contracts.clear()
            ex.contracts.update(saved)
            ex.inline.clear()
            ex.inline.update(old_inline)
        self.world.events.clear()
        built = self.obj.attrs
        self.lock = built.get('lock') if isinstance(built.get('lock'), LockObj) else self.lock
        self.lock.name = 'connect_lock'
        self.queue = built.get('queue') if isinstance(built.get('queue'), QueueObj) else self.queue
        self.decoder = built.get('decoder', self.decoder)
        self.encoder = built.get('encoder', self.encoder)
        self.pq_task = built.get('_process_queue_task') if isinstance(built.get('_process_queue_task'), TaskObj) else self.pq_task
        self.locks = [v for v in built.values() if isinstance(v, LockObj)]
        over = {'_state': self.state0, 'reader': self.reader,
                'writer': GV.make([(self.has_writer, self.writer), (z3.Not(self.has_writer), None)]),
                'receive_callback': GV.make([(self.has_rcb, self.rcb), (z3.Not(self.has_rcb), None)]),
                'status_callback': GV.make([(self.has_scb, self.scb), (z3.Not(self.has_scb), None)]),
                '_receive_task': GV.make([(self.has_recv_task, self.recv_task), (z3.Not(self.has_recv_task), None)]),
                'seed_network_map': Sym(z3.Bool('seed_network_map'), 'bool')}
        built.update(over)
        # any other attribute that some method other than the constructor assigns is state with a history: its value at the
        # start of a call is unknown, of the kind the constructor gives it
        for a in sorted(assigned_outside_constructor(r, ci)):
            if a in over or a not in built:
                continue
            v0 = built[a]
            if isinstance(v0, (bytes, bytearray, SBytes)):
                built[a] = ABuf(ex, tag=a, mutable=not isinstance(v0, bytes))
            elif isinstance(v0, bool):
                built[a] = Sym(z3.Bool(f'{a}0'), 'bool')
            elif isinstance(v0, int):
                built[a] = ex.fresh(f'{a}0')
            elif isinstance(v0, str):
                built[a] = SStr([Atom(f'{a}0')])
            elif isinstance(v0, (dict, list, set)):
                from pyvc.abssets import HavocState
                built[a] = HavocState(f'{cls}.{a}')
            elif v0 is None:
                # None at construction: the annotation of the attribute says what it holds later
                ann = constructor_annotation(r, ci, a)
                isnone = z3.Bool(f'{a}0_is_None')
                if 'float' in ann:
                    built[a] = GV.make([(isnone, None), (z3.Not(isnone), ex.fresh(f'{a}0', 'float'))])
                elif 'int' in ann:
                    built[a] = GV.make([(isnone, None), (z3.Not(isnone), ex.fresh(f'{a}0'))])
                elif 'bool' in ann:
                    built[a] = GV.make([(isnone, None), (z3.Not(isnone), Sym(z3.Bool(f'{a}0'), 'bool'))])
                else:
                    built[a] = Opaque(f'{cls}.{a}')
        self.attr0 = dict(built)
        self.g1 = []          # (description, z3 Bool): obligations "CLOSED is never left" raised at writes of _state
        self.lock.held_by_other = z3.Bool('connect_lock_held_by_another_task')
        self.world.client_obj = self.obj
        self.inputs = {'state0': self.state0.term, 'has_writer': self.has_writer, 'has_receive_callback': self.has_rcb, 'has_status_callback': self.has_scb,
                       'has_receive_task': self.has_recv_task, 'connect_lock_held_by_another_task': self.lock.held_by_other}

    def state(self):
        return self.obj.attrs['_state']

    def setattr_hook(self, ex, obj, name, v):
        if obj is self.obj and name == '_state':
            old = state_code(obj.attrs['_state'])
            new = state_code(v)
            self.world.event('state', v)
            ex.oblige('closed-is-final: a write of the connection state never leaves CLOSED', z3.Implies(old == CLOSED, new == CLOSED))
        return None

    def getattr_hook(self, ex, obj, name):
        if obj is self.obj and name == '_state':
            self.world.event('read_state', obj.attrs['_state'])
        return None

    def interfere(self, ex):
        """Other tasks ran: the connection state may have changed - but, by every task's guarantee, never out of CLOSED."""
        old = state_code(self.obj.attrs['_state'])
        n = len(self.world.of('suspend'))
        new = z3.Int(f'state_after_suspension!{n}')
        ex.assume(z3.And(new >= 0, new <= 2, z3.Implies(old == CLOSED, new == CLOSED)))
        self.obj.attrs['_state'] = SymEnum('State', STATE_MEMBERS, new)
        if getattr(self, 'links_may_change', False) and not self.lock.held_by_me:
            # another task may have reconnected meanwhile: connect() replaces reader and writer (it needs the connect lock,
            # which this task does not hold here)
            if ex.choose(2, 'link-replaced-by-a-reconnect') == 1:
                nw = WriterObj(self.world, f'writer-after-reconnect#{n}')
                self.obj.attrs['writer'] = nw
                self.obj.attrs['reader'] = ReaderObj(self.world, f'reader-after-reconnect#{n}')
                self.world.event('link-replaced', nw)


from pyvc.symex import assigned_outside_constructor


def constructor_annotation(r, ci, attr):
    """Source text of the annotation of `self.<attr>: T = ...` in the constructor of the class or of a base ('' if none)."""
    import ast
    seen, todo = set(), [ci]
    while todo:
        c = todo.pop()
        if c is None or c.name in seen:
            continue
        seen.add(c.name)
        m = c.methods.get('__init__')
        if m is not None:
            for n in ast.walk(m.node):
                if isinstance(n, ast.AnnAssign) and isinstance(n.target, ast.Attribute) and isinstance(n.target.value, ast.Name) and n.target.value.id == 'self' and n.target.attr == attr:
                    return ast.unparse(n.annotation)
        for b in c.bases:
            try:
                todo.append(r.cls(c.module, b))
            except Exception:  # noqa
                pass
    return ''


def default_await(client, reads=None, allow_cancel=True):
    """Await policy built from the dependency contracts (assumed; see DESIGN Appendix B)."""
    def on_await(ex, w, a):
        k = a.kind

        def suspend():
            held = [v for v in client.obj.attrs.values() if isinstance(v, LockObj) and v.held_by_me]
            w.event('suspend', k, held)
            client.interfere(ex)
        if k == 'callback':
            w.event('callback', a.info['which'], a.info['arg'], client.obj.attrs['_state'])
            suspend()
            c = ex.choose(4 if allow_cancel else 3, 'callback-outcome')
            if c == 1:
                raise PyRaise(make_exc('RuntimeError', 'raised by the user callback'))
            if c == 2 and allow_cancel:
                raise PyRaise(make_exc('CancelledError'))
            if c >= 2:
                # user code may raise anything: here an exception without arguments (a bare `assert`, `raise KeyError`)
                raise PyRaise(make_exc('AssertionError'))
            return None
        if k == 'queue.put':
            w.event('put', a.info['item'])      # unbounded queue: put never suspends
            return None
        if k == 'queue.get':
            suspend()
            if allow_cancel and ex.choose(2, 'get-outcome') == 1:
                raise PyRaise(make_exc('CancelledError'))
            item = Opaque(f'queued-item#{len(w.of("get"))}')
            w.event('get', item)
            return item
        if k == 'sleep':
            suspend()
            if allow_cancel and ex.choose(2, 'sleep-outcome') == 1:
                raise PyRaise(make_exc('CancelledError'))
            return None
        if k == 'drain':
            c = ex.choose(3, 'drain-outcome')
            if c == 0:
                suspend()
                return None
            if c == 1:
                w.event('drain-no-suspend')
                return None
            suspend()
            w.event('fault', 'drain')
            raise PyRaise(make_exc('ConnectionResetError', 'write failed'))
        if k == 'open_connection':
            suspend()
            if ex.choose(2, 'connect-outcome') == 1:
                raise PyRaise(make_exc('OSError', 'connection refused'))
            rd, wr = ReaderObj(w, 'new_reader'), WriterObj(w, 'new_writer')
            w.event('connected', rd, wr)
            return (rd, wr)
        if k == 'read':
            if reads is None:
                raise V.Unsupported('read without a read model')
            return reads(ex, w, a, suspend)
        if k == 'wait_closed':
            # StreamWriter.wait_closed(): waits for the transport to close and re-raises the error the connection was lost
            # with, if any (dependency contract)
            suspend()
            c2 = ex.choose(3 if allow_cancel else 2, 'wait-closed-outcome')
            if c2 == 1:
                w.event('wait-closed-raised')
                raise PyRaise(make_exc('ConnectionResetError', 'the error the old connection was lost with'))
            if c2 == 2:
                raise PyRaise(make_exc('CancelledError'))
            return None
        raise V.Unsupported(f'await of {a!r}')
    return on_await


def run_method(r, cls, method, make, contracts=None, inline=None, extra_hooks=None, one_iteration=False):
    info = r.func(f'{IO}{cls}.{method}') or r.find_method(r.cls('ioclient', cls), method)
    holder = {}

    def run(ex):
        aio.install(ex)
        st = make(ex)
        ex.ghost['st'] = st
        ex.hooks['setattr'] = st['client'].setattr_hook
        ex.hooks['getattr'] = st['client'].getattr_hook
        if one_iteration:
            def while_hook(ex, s, fr, n):
                if n >= 1:
                    st['loop_continues'] = True
                    return 'stop'
                return None
            ex.hooks['while'] = while_hook
        if extra_hooks:
            ex.hooks.update(extra_hooks(st))
        ex.contracts.update(st.get('contracts', {}))
        return ex._run_body(info, st.get('args', []), {}, st['client'].obj)
    results = explore(r, run, contracts=dict(contracts or {}), inline=set(inline or ()) | {'ioclient.*'})
    return info, results


class MethodTask(Task):
    """Base: explore one coroutine of a client class and turn paths into obligations via self.check(p, st, add)."""
    cls = 'AsyncIOClient'
    method = ''
    one_iteration = False

    def __init__(self, prop, variant=None):
        self.prop = prop
        self.variant = variant
        self.name = f'{prop}:{self.cls}.{self.method}' + (f'[{variant}]' if variant is not None else '')

    def make(self, ex, r):
        raise NotImplementedError

    def check(self, p, st, add):
        raise NotImplementedError

    def scenario(self):
        return self.method

    def run(self, tier):
        out = {'results': [], 'functions': [], 'notes': [], 'bounded': []}
        r = repo()
        t0 = time.time()
        try:
            info, results = run_method(r, self.cls, self.method, lambda ex: self.make(ex, r), one_iteration=self.one_iteration,
                                       extra_hooks=getattr(self, 'hooks', None))
        except V.Unsupported as u:
            out['error'] = f'{self.cls}.{self.method}: outside the modelled subset: {u}'
            from contracts.ioclient_scenarios import fallback_results
            out['results'].extend(fallback_results(self.prop, self.scenario()))
            return out
        d = info.describe()
        d['paths'] = len(results)
        d['symex_seconds'] = round(time.time() - t0, 2)
        out['functions'].append(d)
        base = f'{self.prop}/{IO}{self.cls}.{self.method}' + (f'[{self.variant}]' if self.variant is not None else '')
        obs = []
        for pi, p in enumerate(results):
            st = p.ex.ghost['st']
            c = st['client']
            out['notes'].extend(p.ex.dropped)
            hyps = list(p.pc)

            def add(name, goal, note='', scenario=None):
                gl = goal if isinstance(goal, z3.ExprRef) else (z3.BoolVal(goal) if isinstance(goal, bool) else bool_term(goal))
                hy = hyps
                if name == 'pending-bytes-stay-bounded':
                    hy = [h for h in hyps if not z3.is_quantifier(h)]      # only the length arithmetic is needed (keeps a refutation decidable)
                obs.append(Obligation(f'{base}/{name}/path[{pi}]', hy, gl, kind='guarantee@await' if 'closed-is-final' in name else 'ensures', func=info.fullname,
                                      inputs=c.inputs, meta={'note': note, 'scenario': scenario or self.scenario(), 'prop': self.prop}))
            for (oname, cond, pc_snap) in p.ex.obligations:
                if self.wants(oname):
                    obs.append(Obligation(f'{base}/{oname}/path[{pi}]', pc_snap, cond, kind='guarantee@await', func=info.fullname, inputs=c.inputs,
                                          meta={'note': 'the connection state is written although it may be CLOSED', 'scenario': 'close-during-' + self.method, 'prop': self.prop}))
            if not getattr(self, 'only_g1', False):
                self.check(p, st, add)
            if st.get('custom_wait') is not None and not getattr(self, '_wait_done', False):
                self._wait_done = True
                wt = st['custom_wait']
                for o2 in verify_wait(r, wt.info, lambda ex: Client(ex, r).obj, f'{base}/wait[{wt.info.qualname}]'):
                    o2.meta['scenario'] = 'wait:' + f'{wt.info.module}.{wt.info.qualname}'
                    o2.meta['prop'] = self.prop
                    obs.append(o2)
        for ob in obs:
            res = discharge(ob, budget(tier))
            if res.status == 'unknown' and any(z3.is_quantifier(h) for h in ob.hyps):
                # quantified buffer axioms keep z3 from building a counter-model: look for one without them; it is only
                # reported if the scripted replay confirms it on the real code (dropping hypotheses can only add models)
                weak = Obligation(ob.name, [h for h in ob.hyps if not z3.is_quantifier(h)], ob.goal, kind=ob.kind, func=ob.func, inputs=ob.inputs, meta=ob.meta)
                r2 = discharge(weak, min(budget(tier), 20))
                if r2.status == 'refuted':
                    res = r2
                    res.ob = ob
                    res.reason = 'counterexample found after dropping the quantified buffer axioms'
            dct = result_dict(res, with_size=False)
            dct['function'] = info.fullname
            if res.status == 'refuted':
                dct['reason'] = ob.meta.get('note', '')
                from contracts.ioclient_scenarios import replay_for
                sc = ob.meta.get('scenario') or ''
                if sc.startswith('wait:'):
                    dct['replay'] = replay_wait(sc[5:], (res.model or {}).get('attempt_number', 1), 0.5, 10)
                else:
                    dct['replay'] = replay_for(self.prop, sc or None, res.model or {})
            out['results'].append(dct)
        return out

    def wants(self, oname):
        return self.prop in ('C14',) or 'closed-is-final' not in oname


# ---------------------------------------------------------------------------------------------
# C14: _update_state, close
# ---------------------------------------------------------------------------------------------
class UpdateStateTask(MethodTask):
    method = '_update_state'

    def make(self, ex, r):
        c = Client(ex, r)
        new = SymEnum('State', STATE_MEMBERS, z3.Int('new_state'))
        ex.assume(z3.And(new.term >= 0, new.term <= 2))
        c.inputs['new_state'] = new.term
        c.world.on_await = default_await(c)
        return {'client': c, 'args': [new], 'new': new}

    def wants(self, oname):
        return False          # _update_state writes unconditionally: its callers carry the closed-is-final obligation

    def check(self, p, st, add):
        c, w, new = st['client'], st['client'].world, st['new']
        same = c.state0.term == new.term
        writes = w.of('state')
        cbs = [e for e in w.of('callback') if e[1] == 'status']
        add('no-notification-without-a-state-change', z3.Implies(same, z3.BoolVal(not writes and not cbs)), f'{len(cbs)} notifications for an unchanged state', 'status-trace')
        add('state-change-is-stored', z3.Implies(z3.Not(same), z3.BoolVal(len(writes) == 1 and state_code(writes[0][1]) is not None)) if True else True)
        if writes:
            add('stored-state-is-the-requested-one', state_code(writes[0][1]) == new.term)
        add('one-notification-per-change-when-a-callback-is-registered', z3.Implies(z3.And(z3.Not(same), c.has_scb), z3.BoolVal(len(cbs) == 1)), f'{len(cbs)} notifications', 'status-trace')
        add('no-notification-without-a-callback', z3.Implies(z3.Not(c.has_scb), z3.BoolVal(not cbs)))
        if cbs:
            # notified with the new state, after the assignment (the state the callback observes is the new one)
            add('notification-carries-the-new-state', z3.And(state_code(cbs[0][2]) == new.term, state_code(cbs[0][3]) == new.term), scenario='status-trace')
            order = [e[0] for e in w.events if e[0] in ('state', 'callback')]
            add('assignment-before-notification', order[:2] == ['state', 'callback'])
        if p.kind == 'raise':
            add('callback-exceptions-do-not-propagate', p.exc_name() == 'CancelledError', f'raises {p.exc_name()}', 'status-callback-raises')


class CloseTask(MethodTask):
    method = 'close'

    def make(self, ex, r):
        c = Client(ex, r)
        c.world.on_await = default_await(c, allow_cancel=False)
        return {'client': c, 'args': []}

    def check(self, p, st, add):
        c, w = st['client'], st['client'].world
        if p.kind == 'raise':
            add('close-does-not-raise', False, f'raises {p.exc_name()}')
            return
        add('state-is-CLOSED-on-return', state_code(c.state()) == CLOSED, scenario='close')
        # "once close() has been called the state is CLOSED forever": the state is written before close() suspends for the first
        # time - otherwise a connect in flight, a send or a fault handler running meanwhile still sees a live client
        first_susp = next((i for i, e in enumerate(w.events) if e[0] == 'suspend'), None)
        first_closed = next((i for i, e in enumerate(w.events) if e[0] == 'state'), None)
        if first_susp is not None:
            ok = first_closed is not None and first_closed < first_susp
            add('CLOSED-is-set-before-close-first-suspends', z3.Or(c.state0.term == CLOSED, z3.BoolVal(ok)),
                'close() awaits (callback / sleep / cancellation) while the state is not yet CLOSED', 'close-sets-closed-late')
        closes = w.of('writer.close')
        add('link-shut-when-a-writer-exists', z3.Implies(c.has_writer, z3.BoolVal(len(closes) == 1 and closes[0][1] is c.writer)), f'{len(closes)} writer.close calls', 'close')
        add('no-writer-no-close', z3.Implies(z3.Not(c.has_writer), z3.BoolVal(not closes)))
        cancels = [e[1] for e in w.of('cancel')]
        rt_done = c.recv_task.done_term if c.recv_task.done_term is not None else z3.BoolVal(True)
        add('receive-task-cancelled-unless-finished', z3.Implies(z3.And(c.has_recv_task, z3.Not(rt_done)), z3.BoolVal(c.recv_task in cancels)), scenario='close')
        pq_done = c.pq_task.done_term if c.pq_task.done_term is not None else z3.BoolVal(True)
        add('consumer-task-cancelled-unless-finished', z3.Implies(z3.Not(pq_done), z3.BoolVal(c.pq_task in cancels)), scenario='close')
        add('close-spawns-nothing', not w.of('spawn') and not w.of('connected'))


def fault_handling(task, p, c, w, add, scenario):
    """After a fault: unless the client is CLOSED, the state becomes DISCONNECTED (notified if it changed) and exactly one
    connect task is spawned; a CLOSED client stays silent."""
    if p.kind == 'raise' and p.exc_name() == 'CancelledError':
        return          # the task itself was cancelled while handling the fault: not a case of the property
    spawns = w.of('spawn')
    states = w.of('state')
    # the state the handler looked at (its last read of the state before deciding)
    idx = max([i for i, e in enumerate(w.events) if e[0] == 'fault'] + [0])
    reads = [e for e in w.events[idx:] if e[0] == 'read_state']
    if not reads:
        add('fault-handler-looks-at-the-state', False, 'no fault handling reached', scenario)
        return
    seen = state_code(reads[0][1])
    sp_ok = len(spawns) == 1 and isinstance(spawns[0][1].coro, Coroutine) and spawns[0][1].coro.info.qualname.endswith('.connect')
    if spawns:
        add('reconnect-is-one-connect-task', sp_ok, f'{len(spawns)} tasks spawned', scenario)
        add('reconnect-only-when-not-CLOSED', seen != CLOSED, scenario=scenario)
        later = [e for e in w.events[idx:] if e[0] == 'state']
        add('fault-leads-to-DISCONNECTED', z3.Or(seen == DISCONNECTED, z3.BoolVal(bool(later) and True)) if not later else state_code(later[0][1]) == DISCONNECTED, scenario=scenario)
        if later:
            cbs = [e for e in w.events[idx:] if e[0] == 'callback' and e[1] == 'status']
            add('DISCONNECTED-is-reported-when-a-status-callback-is-registered', z3.Implies(c.has_scb, z3.BoolVal(len(cbs) >= 1)), scenario=scenario)
    else:
        add('no-reconnect-only-when-CLOSED', seen == CLOSED, 'a fault neither reconnects nor is the client closed', scenario)
        add('closed-client-stays-silent', not [e for e in w.events[idx:] if e[0] == 'state'])


# ---------------------------------------------------------------------------------------------
# C19 / C13 / C14: send
# ---------------------------------------------------------------------------------------------
ENCODERS = {'EByteNmea2000Gateway': 'encode_ebyte', 'YachtDevicesNmea2000Gateway': 'encode_yacht_devices', 'WaveShareNmea2000Gateway': 'encode_usb', 'ActisenseNmea2000Gateway': None}


class SendTask(MethodTask):
    method = 'send'

    def __init__(self, prop, cls):
        self.cls = cls
        super().__init__(prop, None)
        self.name = f'{prop}:{cls}.send'

    def make(self, ex, r):
        gw = {'ActisenseNmea2000Gateway': 'ACTISENSE', 'YachtDevicesNmea2000Gateway': 'YACHT_DEVICES'}.get(self.cls)
        c = Client(ex, r, self.cls, gw_type=gw)
        c.links_may_change = True
        c.world.on_await = default_await(c)
        packets = [Opaque('packet0'), Opaque('packet1'), Opaque('packet2')]
        msg = Opaque('message')
        st = {'client': c, 'args': [msg], 'packets': packets, 'msg': msg, 'encode_calls': []}

        def enc(ex, f, args, kwargs):
            st['encode_calls'].append(args)
            if ex.choose(2, 'encoder-outcome') == 1:
                st['enc_raised'] = True
                raise PyRaise(make_exc('ValueError', 'unencodable message'))
            # the encoder returns one packet per frame: one, two or three packets here (bounded in the packet count;
            # the loop body is the same for every packet)
            k = 1 + ex.choose(3, 'packet-count')
            st['packets'] = packets[:k]
            return list(packets[:k])
        st['contracts'] = {f'nmea2000.encoder.NMEA2000Encoder.{m}': enc for m in ('encode_ebyte', 'encode_usb', 'encode_yacht_devices', 'encode_actisense')}
        return st

    def scenario(self):
        return 'send'

    def check(self, p, st, add):
        c, w = st['client'], st['client'].world
        writes = w.of('write')
        spawns = w.of('spawn')
        states = w.of('state')
        if p.kind == 'raise':
            add('send-raises-only-on-cancellation', p.exc_name() == 'CancelledError', f'raises {p.exc_name()}')
        unencodable = (not st['encode_calls']) or (len(writes) == 0 and not any(e[0] == 'suspend' and e[1] == 'drain' for e in w.events) and not w.of('drain-no-suspend'))
        enc_failed = self.cls == 'ActisenseNmea2000Gateway' or (st['encode_calls'] and not writes and not w.of('drain-no-suspend') and not [e for e in w.events if e[0] == 'suspend' and e[1] == 'drain'])
        # which packets were written, to which writer, in which order
        add('writes-are-the-encoder-packets-in-order', all(e[2] is st['packets'][i] for i, e in enumerate(writes)) and len(writes) <= len(st['packets']), f'{len(writes)} writes', 'send')
        # every packet goes to the link that is current when it is written (a reconnect by another task may replace the
        # writer at any suspension; a writer looked up earlier is an abandoned connection)
        def cur_is(e):
            cur = e[3] if len(e) > 3 else None
            if isinstance(cur, GV):
                return any(x is e[1] for _, x in cur.alts)
            return cur is e[1]
        add('writes-go-to-the-current-connection-writer', all(cur_is(e) for e in writes),
            'a packet is written to a writer that is no longer the connection of the client (looked up before a suspension)', 'stale-writer')
        # contiguity: between the first and the last write of this message no other task may write to the link
        for i, e in enumerate(w.events):
            if e[0] == 'suspend' and e[1] == 'drain':
                before = [x for x in w.events[:i] if x[0] == 'write']
                if 0 < len(before) < len(st['packets']):
                    add('packets-of-one-message-are-contiguous: the link is held across the suspension in drain()', bool(e[2]),
                        'send() suspends in drain() between two packets of one message without holding a lock: a concurrent send() can interleave its packets', 'concurrent-send')
        # guarantee every sender gives to the others: the link is written only while holding the send lock, and the lock is
        # held from the first to the last packet - then no two messages can interleave, whatever their packet counts
        held, lock_of_write, released_between, gap = [], [], False, False
        for e in w.events:
            if e[0] == 'acquire':
                held.append(e[1])
            elif e[0] == 'release':
                if e[1] in held:
                    held.remove(e[1])
                if lock_of_write and e[1] is c.obj.attrs.get('_send_lock'):
                    gap = True
            elif e[0] == 'write':
                if gap:
                    released_between = True        # a packet written after the lock was let go in the middle of the message
                lock_of_write.append(list(held))
        send_lock = c.obj.attrs.get('_send_lock')
        add('every-write-holds-the-send-lock', all(any(l is send_lock for l in ls) for ls in lock_of_write) and send_lock is not None,
            'send() writes a packet to the link without holding the lock the other senders hold: its packet can land between two packets of a message being sent', 'concurrent-send')
        add('send-lock-held-from-first-to-last-packet', not released_between, 'the send lock is released between two packets of one message', 'concurrent-send')
        # whatever happens (failing write, cancellation), send() does not leave the link locked: later senders must get through
        add('send-lock-released-on-every-exit', send_lock is None or not send_lock.held_by_me,
            'send() ends while still holding the send lock: every later send() on the (re)connected link blocks for ever', 'send-after-fault')
        enc_raised = st.get('enc_raised', False)
        if self.cls == 'ActisenseNmea2000Gateway' or enc_raised:
            what = 'format-without-an-encoder' if self.cls == 'ActisenseNmea2000Gateway' else 'unencodable-message'
            add(f'{what}-writes-nothing-and-changes-nothing', not writes and not states and not spawns and p.kind == 'return',
                f'{len(writes)} writes, {len(states)} state changes, {len(spawns)} tasks spawned, outcome {p.kind} {p.exc_name() or ""}', 'unsendable')
            return
        fault = bool(w.of('fault')) or (not writes and st['encode_calls'] and p.kind == 'return')      # failing drain, or no writer at all
        if fault:
            fault_handling(self, p, c, w, add, 'write-failure')
        elif p.kind == 'return':
            add('all-packets-written', len(writes) == len(st['packets']), f'{len(writes)} of {len(st["packets"])} packets written', 'send')
            add('successful-send-changes-nothing-else', not states and not spawns)


# ---------------------------------------------------------------------------------------------
# C13 / C14: _receive_loop (one iteration), connect (one attempt)
# ---------------------------------------------------------------------------------------------
class ReceiveLoopTask(MethodTask):
    method = '_receive_loop'
    one_iteration = True

    def make(self, ex, r):
        c = Client(ex, r)
        c.world.on_await = default_await(c)
        st = {'client': c, 'args': []}

        def impl(ex, f, args, kwargs):
            # contract of _receive_impl (checked per client class): it suspends at least once or raises
            return Aw('receive_impl')
        base_await = c.world.on_await

        def on_await(ex, w, a):
            if a.kind == 'receive_impl':
                w.event('suspend', 'receive_impl', [])
                c.interfere(ex)
                k = ex.choose(6, 'receive-impl-outcome')
                if k == 2:
                    raise PyRaise(make_exc('CancelledError'))
                if k != 0:
                    # a read can fail with more than OSError: end of stream (IncompleteReadError / ConnectionError), an over-long
                    # line (readline raises ValueError), a gateway that refuses service (the EByte client raises Exception)
                    w.event('fault', 'read')
                    kind = {1: 'ConnectionResetError', 3: 'IncompleteReadError', 4: 'ValueError', 5: 'Exception'}[k]
                    raise PyRaise(make_exc(kind, 'read failed / end of stream / over-long line / gateway busy'))
                return None
            return base_await(ex, w, a)
        c.world.on_await = on_await
        st['contracts'] = {f'nmea2000.ioclient.{cls}._receive_impl': impl for cls in ('AsyncIOClient', 'EByteNmea2000Gateway', 'TextNmea2000Gateway', 'WaveShareNmea2000Gateway')}
        return st

    def scenario(self):
        return 'eof'

    def check(self, p, st, add):
        c, w = st['client'], st['client'].world
        # frame: connect() owns the reference to the running receive task (it cancels what it finds there before it starts a
        # new loop); the loop itself never writes it
        add('receive-loop-leaves-the-task-reference-alone', c.obj.attrs.get('_receive_task') is c.attr0.get('_receive_task'),
            'the receive loop overwrites self._receive_task: a loop that ends late clears the reference to its successor, which is then never cancelled (two receive paths)')
        if p.kind == 'raise':
            add('receive-loop-ends-only-by-cancellation', p.exc_name() == 'CancelledError', f'raises {p.exc_name()}')
            return
        impl_calls = [e for e in w.events if e[0] == 'suspend' and e[1] == 'receive_impl']
        if w.of('fault'):
            fault_handling(self, p, c, w, add, 'eof')
            return
        if st.get('loop_continues'):
            add('loop-continues-only-while-not-CLOSED', True)
            add('no-side-effects-per-iteration', not w.of('state') and not w.of('spawn'))
        else:
            # the loop ended without a fault: only because the client is CLOSED
            add('loop-exits-only-when-CLOSED', state_code(c.state()) == CLOSED)
            add('exit-is-silent', not w.of('state') and not w.of('spawn'))


class RetryAttempt:
    """tenacity's `for attempt in AsyncRetrying(...)` / `with attempt:` protocol (dependency contract):
    the body is run; an Exception inside `with attempt:` ends this attempt and schedules another one after
    wait(attempt_number) seconds (stop_never: for ever); normal completion ends the loop."""
    ALWAYS_TRUE = True        # a Python object of this kind is truthy (no __bool__ / __len__)
    pass


def connect_hooks(st):
    c = st['client']

    def async_for(ex, node, fr):
        it = ex.concretize(ex.eval(node.iter, fr))
        if not isinstance(it, dict) or it.get('kind') != 'AsyncRetrying':
            raise V.Unsupported(f'async for over {it!r}')
        st['retrying'] = it
        attempt = Obj(None, {}, clsname='AttemptManager')
        ex.assign(node.target, attempt, fr)
        st['attempts'] = st.get('attempts', 0) + 1
        # the body is one attempt: the first one, or any later one - which starts after a retry wait during which the other
        # coroutines ran (close() may have set CLOSED); the loop carries no other state from attempt to attempt
        if ex.choose(2, 'first-attempt-or-a-retry') == 1:
            c.world.event('suspend', 'retry-wait', [v for v in c.obj.attrs.values() if isinstance(v, LockObj) and v.held_by_me])
            c.interfere(ex)
            st['is_retry'] = True
        ex.exec_block(node.body, fr)
        st['attempt_completed'] = st.get('attempt_outcome') != 'retry'

    def with_(ex, node, fr):
        cm = ex.concretize(ex.eval(node.items[0].context_expr, fr))
        if not (isinstance(cm, Obj) and cm.clsname == 'AttemptManager'):
            raise V.Unsupported(f'with {cm!r}')
        try:
            ex.exec_block(node.body, fr)
            st['attempt_outcome'] = 'success'
        except PyRaise as pr:
            from pyvc.symex import exc_isinstance
            if exc_isinstance(pr.exc.clsname, 'Exception'):
                st['attempt_outcome'] = 'retry'
                st['retry_exc'] = pr.exc.clsname
                c.world.event('retry-scheduled', pr.exc.clsname)
                return
            raise
    return {'async_for': async_for, 'with': with_}


def retrying_builtin(ex, **kw):
    return {'kind': 'AsyncRetrying', 'kw': kw}


from pyvc import builtins as _B
_B.EXT_HOOKS['tenacity.asyncio.AsyncRetrying'] = aio.Builtin('AsyncRetrying', retrying_builtin)
_B.EXT_HOOKS['tenacity.stop_never'] = Opaque('stop_never')
_B.EXT_HOOKS['tenacity.wait_exponential'] = aio.Builtin('wait_exponential', lambda ex, **kw: {'kind': 'wait_exponential', 'kw': kw})
_B.EXT_HOOKS['tenacity.retry_if_exception_type'] = aio.Builtin('retry_if_exception_type', lambda ex, *a: {'kind': 'retry_if_exception_type', 'types': a})


class ConnectTask(MethodTask):
    method = 'connect'

    def __init__(self, prop, cls='EByteNmea2000Gateway'):
        self.cls = cls
        super().__init__(prop, None)
        self.name = f'{prop}:{cls}.connect'
        self.hooks = connect_hooks

    def make(self, ex, r):
        c = Client(ex, r, self.cls)
        c.world.on_await = default_await(c, allow_cancel=False)
        st = {'client': c, 'args': []}

        def connect_impl(ex, f, args, kwargs):
            return Aw('connect_impl')
        base_await = c.world.on_await

        def on_await(ex, w, a):
            if a.kind == 'connect_impl':
                w.event('suspend', 'connect_impl', [v for v in c.obj.attrs.values() if isinstance(v, LockObj) and v.held_by_me])
                w.event('connect-attempt', c.obj.attrs['_state'])
                c.interfere(ex)
                if ex.choose(2, 'connect-impl-outcome') == 1:
                    w.event('connect-refused')
                    raise PyRaise(make_exc('OSError', 'connection refused'))
                nw, nr = WriterObj(w, 'new_writer'), ReaderObj(w, 'new_reader')
                c.obj.attrs['writer'] = nw
                c.obj.attrs['reader'] = nr
                st['new_writer'] = nw
                w.event('connected', nr, nw)
                return None
            return base_await(ex, w, a)
        c.world.on_await = on_await
        st['contracts'] = {f'nmea2000.ioclient.{cls}._connect_impl': connect_impl for cls in ('AsyncIOClient', 'EByteNmea2000Gateway', 'TextNmea2000Gateway', 'WaveShareNmea2000Gateway')}
        return st

    def scenario(self):
        return 'close-during-connect'

    def check(self, p, st, add):
        c, w = st['client'], st['client'].world
        if p.kind == 'raise':
            add('connect-does-not-raise', False, f'raises {p.exc_name()}')
            return
        attempts = w.of('connect-attempt')
        # no connection attempt is started once the client is CLOSED
        for i, a in enumerate(attempts):
            add('no-connection-attempt-when-CLOSED', state_code(a[1]) != CLOSED, 'a transport connection is opened although the client is CLOSED', 'close-during-connect')
        if st.get('retrying') is not None:
            kw = st['retrying']['kw']
            add('retries-forever', isinstance(kw.get('stop'), Opaque) and kw['stop'].name == 'stop_never', f'stop={kw.get("stop")!r}', 'retry')
            rt = kw.get('retry')
            add('retries-on-every-Exception', isinstance(rt, dict) and rt.get('kind') == 'retry_if_exception_type' and len(rt['types']) == 1 and getattr(rt['types'][0], 'name', '') == 'Exception', scenario='retry')
            wt = kw.get('wait')
            st['wait'] = wt
            ok_wait = isinstance(wt, dict) and wt.get('kind') == 'wait_exponential' and isinstance(wt['kw'].get('multiplier'), (int, float)) and wt['kw']['multiplier'] > 0 \
                and isinstance(wt['kw'].get('max'), (int, float)) and 0 < wt['kw']['max'] <= 10 and set(wt['kw']) <= {'multiplier', 'max', 'min', 'exp_base'}
            if isinstance(wt, dict):
                add('back-off-is-tenacity-wait_exponential-with-positive-multiplier-and-cap-10', ok_wait, f'wait={wt!r}', 'retry')
            elif isinstance(wt, FuncVal):
                st.setdefault('custom_wait', wt)
            else:
                add('back-off-function-is-under-contract', False, f'wait={wt!r}: an unknown wait callable', 'retry')
        if st.get('attempt_outcome') == 'retry':
            # "reports CONNECTED once the gateway accepts again": an attempt may fail only because the transport refused
            add('attempt-fails-only-when-the-transport-refuses', bool(w.of('connect-refused')),
                'a connection attempt fails before / without asking the transport (an exception of the client\'s own making): the client can stay DISCONNECTED although the gateway accepts', 'reconnect-after-reset')
            add('failed-attempt-is-retried', len(w.of('retry-scheduled')) == 1)
            add('failed-attempt-starts-no-receive-path', not w.of('spawn'))
            return
        connected = w.of('connected')
        if connected:
            spawns = [e[1] for e in w.of('spawn')]
            loops = [t for t in spawns if isinstance(t.coro, Coroutine) and t.coro.info.qualname.endswith('._receive_loop')]
            states = w.of('state')
            if loops or states:
                add('success-reports-CONNECTED', bool(states) and state_code(states[-1][1]) == CONNECTED or not states, scenario='connect')
                add('exactly-one-new-receive-path', len(loops) == 1, f'{len(loops)} receive loops started', 'connect')
                cancels = [e[1] for e in w.of('cancel')]
                rt_done = c.recv_task.done_term if c.recv_task.done_term is not None else z3.BoolVal(True)
                add('previous-receive-path-cancelled-unless-finished', z3.Implies(z3.And(c.has_recv_task, z3.Not(rt_done)), z3.BoolVal(c.recv_task in cancels)), scenario='connect')
                add('connect-runs-under-the-connect-lock', any(e[0] == 'acquire' and e[1] is c.lock for e in w.events), scenario='connect')
                # a fault of the new receive path asks for a reconnect, and connect() declines while the connect lock is taken:
                # once the new receive path exists, connect() must not suspend with the lock still held
                if loops:
                    i0 = next(i for i, e in enumerate(w.events) if e[0] == 'spawn' and e[1] is loops[0])
                    late = [e[1] for e in w.events[i0 + 1:] if e[0] == 'suspend' and any(l is c.lock for l in e[2])]
                    add('no-suspension-under-the-connect-lock-once-the-receive-path-runs', not late,
                        f'connect() suspends at {late} holding the connect lock after it started the receive loop: a fault of that loop then asks for a reconnect that is declined, and nobody retries', 'fault-before-connected-reported')
            else:
                # connected but nothing started: only allowed because the client was closed meanwhile - and then the new link must be shut
                closes = w.of('writer.close')
                add('link-opened-after-close-is-shut', len(closes) == 1 and closes[0][1] is st.get('new_writer'), 'a connection opened while the client was being closed is left open', 'close-during-connect')
        else:
            # no attempt at all: CLOSED, already connected, or another connect holds the lock
            add('returns-without-connecting-only-when-closed-connected-or-in-progress', z3.Or(state_code(c.state()) == CLOSED, state_code(c.state()) == CONNECTED, c.lock.held_by_other,
                                                                                              c.state0.term == CLOSED, c.state0.term == CONNECTED), scenario='connect')


WAIT_CONTRACTS_CHECKED = set()


# ---------------------------------------------------------------------------------------------
# C12 / C13 / C20: the receive paths and the consumer loop
# ---------------------------------------------------------------------------------------------
from pyvc.abuf import ABuf, same_bytes, TextOf


class Line:
    """A non-empty line returned by readline() (content opaque)."""
    ALWAYS_TRUE = True        # a Python object of this kind is truthy (no __bool__ / __len__)
    def __init__(self, n):
        self.n = n

    def sym_method(self, ex, name):
        if name == 'hex':
            return BoundBuiltin('bytes.hex', lambda ex, me: SStr([Atom('hex-of-line')]), self)
        if name == 'decode':
            def decode(ex, me, *a, **k):
                from pyvc.abuf import strict_decode_may_fail
                strict_decode_may_fail(ex, me, a, k)
                return TextOf(me)
            return BoundBuiltin('bytes.decode', decode, self)
        return None


def make_reads(st, kind):
    """Dependency contract of StreamReader (assumed): data is delivered in stream order whatever the segmentation;
    at end of stream readexactly raises IncompleteReadError and readline/read return b'' - all without suspending."""
    def reads(ex, w, a, suspend):
        how = a.info['how']
        c = ex.choose(4, 'read-outcome')
        if c == 3:
            suspend()
            w.event('fault', 'read')
            raise PyRaise(make_exc('ConnectionResetError', 'read failed'))
        if c == 2:
            w.event('eof')
            if how == 'readexactly':
                raise PyRaise(make_exc('IncompleteReadError', 'end of stream'))
            return b''
        if c == 0:
            suspend()
        if how == 'readexactly':
            n = a.info['args'][0]
            data = SBytes([ex.fresh(f'rx[{i}]', bits=8) for i in range(n)])
        elif how == 'readline':
            # a line: at least one byte, content unknown (at end of stream the last line may lack its terminator)
            data = ABuf(ex, tag='line', mutable=False)
            ex.assume(data.n >= 1)
        else:
            limit = a.info['args'][0]
            limit = V.int_term(limit) if isinstance(limit, Sym) else limit
            data = ABuf(ex, tag='rx', mutable=False)
            ex.assume(z3.And(data.n >= 1, data.n <= limit))
        w.event('data', data)
        st['data'] = data
        return data
    return reads


class ReceiveImplTask(MethodTask):
    method = '_receive_impl'
    one_iteration = True

    def __init__(self, prop, cls, later_iteration=False):
        self.cls = cls
        self.later_iteration = later_iteration
        super().__init__(prop, 'later-iteration' if later_iteration else None)
        self.name = f'{prop}:{cls}._receive_impl' + ('[later-iteration]' if later_iteration else '')

    def make(self, ex, r):
        gw = {'ActisenseNmea2000Gateway': 'ACTISENSE', 'YachtDevicesNmea2000Gateway': 'YACHT_DEVICES'}.get(self.cls)
        c = Client(ex, r, self.cls, gw_type=gw)
        st = {'client': c, 'args': [], 'decode_calls': []}
        c.world.on_await = default_await(c, reads=make_reads(st, self.cls))
        if self.cls == 'WaveShareNmea2000Gateway':
            buf = ABuf(ex, tag='buffer')
            ex.assume(buf.n <= 120)
            st['buf0'] = (buf.fn, buf.n)
            c.obj.attrs['_buffer'] = buf
            st['buf'] = buf

        def dec(ex, f, args, kwargs):
            st['decode_calls'].append(args[0])
            k = ex.choose(5, 'decoder-outcome')
            if k in (0, 3, 4):
                # a packet can be undecodable in many ways: a field out of range (ValueError), a truncated payload (IndexError),
                # an unsupported PGN type or a broken header (Exception)
                raise PyRaise(make_exc({0: 'ValueError', 3: 'IndexError', 4: 'Exception'}[k], 'undecodable packet'))
            if k == 1:
                return None
            m = Opaque(f'message#{len(st["decode_calls"])}')
            st.setdefault('messages', []).append(m)
            return m
        st['contracts'] = {f'nmea2000.decoder.NMEA2000Decoder.{m}': dec for m in ('decode_tcp', 'decode_usb', 'decode_actisense_string', 'decode_yacht_devices_string')}
        return st

    def hooks(self, st):
        if self.cls != 'WaveShareNmea2000Gateway':
            return {}

        def while_hook(ex, s, fr, n):
            if n >= 1:
                st['loop_continues'] = True
                return 'stop'
            # the iteration that is checked is the first one of the scan loop or any later one: by the loop's own contract
            # (checked below for every iteration) the buffer of a later iteration is a suffix of the buffer the loop started with
            if self.later_iteration:
                buf = st['client'].obj.attrs.get('_buffer')
                if isinstance(buf, ABuf):
                    k = ex.fresh('bytes_consumed_by_earlier_iterations', lo=0)
                    ex.assume(k.t <= buf.n)
                    nb = buf.slice(ex, k.t, None, tag='buffer')
                    nb.mutable = True
                    st['client'].obj.attrs['_buffer'] = nb
                    st['buf'] = nb
                    st['later_iteration'] = True
            return None
        return {'while': while_hook}

    def scenario(self):
        return 'eof' if self.prop == 'C13' else None

    def check(self, p, st, add):
        c, w = st['client'], st['client'].world
        puts = w.of('put')
        msgs = st.get('messages', [])
        suspended = any(e[0] == 'suspend' for e in w.events)
        if self.prop in ('C12', 'C20', 'C06'):
            add('queued-messages-are-exactly-the-decoded-ones-in-order', len(puts) == len(msgs) and all(a[1] is b for a, b in zip(puts, msgs)), f'{len(puts)} queued, {len(msgs)} decoded')
            add('receive-path-changes-no-connection-state', not w.of('state') and not w.of('spawn'))
            if p.kind == 'raise':
                add('only-transport-faults-escape', bool(w.of('fault')) or bool(w.of('eof')) or p.exc_name() == 'CancelledError' or self.sorry(p, st),
                    f'raises {p.exc_name()} although the transport did not fail (a decode error escaped?)')
            for d in st['decode_calls']:
                pass
        if self.prop == 'C13':
            # (v) no stall: a call that returns normally has suspended or has consumed at least one byte of the stream
            if p.kind == 'return':
                add('returns-only-after-suspending-or-consuming-input', suspended or bool(w.of('data')), 'returns at end of stream without yielding: the receive loop spins', 'eof')
            if w.of('eof'):
                add('end-of-stream-raises', p.kind == 'raise' and p.exc_name() != 'CancelledError', f'outcome {p.kind}', 'eof')
        if self.cls == 'WaveShareNmea2000Gateway' and self.prop in ('C12', 'C20', 'C06') and 'data' in st:
            self.check_serial(p, st, add)
        elif self.prop in ('C12', 'C06') and 'data' in st and p.kind == 'return':
            add('one-packet-decoded-per-call', len(st['decode_calls']) == 1)
            if st['decode_calls']:
                d = st['decode_calls'][0]
                ok = d is st['data'] or (isinstance(d, TextOf) and d.buf is st['data'])
                add('decoder-receives-the-packet-read', ok, f'decoder argument {d!r}')
                if self.cls == 'EByteNmea2000Gateway':
                    # fixed framing: every packet of this gateway is 13 bytes, however the transport cuts the stream into reads
                    ln = d.n == 13 if isinstance(d, ABuf) else (len(d) == 13 if isinstance(d, (SBytes, bytes, bytearray)) else False)
                    add('decoder-receives-exactly-13-bytes', ln, 'a read that returns fewer than 13 bytes is handed to the decoder: the stream loses its 13-byte alignment', 'segmented-reads')

    def sorry(self, p, st):
        return self.cls == 'EByteNmea2000Gateway' and p.exc_name() == 'Exception'

    def check_serial(self, p, st, add):
        """One iteration of the scan loop from an arbitrary buffer: a step of the framing specification."""
        c = st['client']
        buf = c.obj.attrs.get('_buffer')
        if not isinstance(buf, ABuf) or not hasattr(st['buf'], 'last_find') and not hasattr(buf, 'last_find'):
            if p.kind == 'return':
                add('scan-looks-for-the-start-marker', False, 'no marker search')
            return
        src = st['buf'] if hasattr(st['buf'], 'last_find') else buf
        s, F, n, marker = src.last_find
        add('marker-is-AA-55', marker == (0xAA, 0x55))
        i = z3.Int('i!g')
        pair = lambda j: z3.And(F(j) == 0xAA, F(j + 1) == 0x55)
        calls = st['decode_calls']
        if p.kind == 'raise':
            return
        n2, G = buf.n, buf.fn
        if calls:
            pk = calls[0]
            ok = isinstance(pk, ABuf)
            add('decoded-window-is-20-bytes-at-the-first-marker', z3.And(pk.n == 20, s >= 0, s + 20 <= n, same_bytes(pk.fn, 0, F, s, 20)) if ok else False,
                'the packet handed to decode_usb is not the 20-byte window at the first AA 55', 'split-marker')
            add('at-most-one-packet-per-iteration', len(calls) == 1)
            # the buffer continues right after the packet
            add('buffer-continues-after-the-packet', z3.And(n2 == n - (s + 20), same_bytes(G, 0, F, s + 20, n2)), 'bytes lost or kept wrongly after cutting a packet', 'split-marker')
            add('loop-continues-after-a-packet', bool(st.get('loop_continues')))
        else:
            add('no-packet-cut-only-if-no-complete-window', z3.Or(s == -1, s + 20 > n))
            # what is kept: a suffix buffer[k:] such that no marker starts in the dropped prefix and a trailing AA is not dropped
            k = n - n2
            add('pending-bytes-are-a-suffix-of-the-stream', z3.And(k >= 0, k <= n, same_bytes(G, 0, F, k, n2)), 'the pending buffer is not a suffix of the received bytes', 'split-marker')
            add('no-start-marker-is-dropped', z3.ForAll([i], z3.Implies(z3.And(i >= 0, i < k, i + 1 < n), z3.Not(pair(i)))), 'a start marker is discarded with the noise', 'split-marker')
            add('a-trailing-AA-is-kept', z3.Not(z3.And(k == n, n >= 1, F(n - 1) == 0xAA)), 'the first half of a start marker at the end of a read is discarded', 'split-marker')
            add('pending-bytes-stay-bounded', n2 <= 120, 'the bytes held back between reads are not bounded', 'bound')


class ProcessQueueTask(MethodTask):
    method = '_process_queue'
    one_iteration = True

    def make(self, ex, r):
        c = Client(ex, r)
        c.world.on_await = default_await(c)
        return {'client': c, 'args': []}

    def scenario(self):
        return None

    def check(self, p, st, add):
        c, w = st['client'], st['client'].world
        gets = w.of('get')
        cbs = [e for e in w.of('callback') if e[1] == 'receive']
        add('consumer-spawns-nothing: callbacks are awaited one at a time', not w.of('spawn'), 'the callback is started as a separate task (deliveries may overlap / reorder)')
        # every item taken off the queue in this iteration (one, or a batch) reaches the callback exactly once, in queue order,
        # whatever the earlier callback invocations of the iteration did - unless the consumer is being cancelled
        cancelled = p.kind == 'raise' and p.exc_name() == 'CancelledError'
        if gets and not cancelled:
            same = len(cbs) == len(gets) and all(cb[2] is g[1] for cb, g in zip(cbs, gets))
            add('callback-gets-exactly-the-dequeued-items-once-in-order', z3.Implies(c.has_rcb, z3.BoolVal(same)),
                f'{len(gets)} item(s) dequeued, {len(cbs)} callback invocation(s)' + ('' if len(cbs) == len(gets) else ': an item is dropped or repeated (after a callback raised?)'), 'callback-raises')
            add('no-callback-no-invocation', z3.Implies(z3.Not(c.has_rcb), z3.BoolVal(not cbs)))
            if p.kind == 'return':
                add('items-marked-done', len(w.of('task_done')) == len(gets), f'{len(w.of("task_done"))} task_done for {len(gets)} items')
        if p.kind == 'raise':
            add('consumer-ends-only-by-cancellation', p.exc_name() == 'CancelledError', f'consumer loop dies with {p.exc_name()}: later messages are never delivered')
        add('consumer-writes-no-connection-state', not w.of('state'))
        # the receive loop is the only producer: an item the consumer puts back would overtake / fall behind the others
        add('consumer-never-puts-items-on-the-queue', not w.of('put'), f'{len(w.of("put"))} item(s) put (back) on the receive queue by the consumer: the FIFO order is no longer the wire order', 'callback-window')


# ---------------------------------------------------------------------------------------------
# C13 (iii): the delay between connection attempts
# ---------------------------------------------------------------------------------------------
class WaitTask(Task):
    """The wait callable handed to AsyncRetrying: for every attempt number >= 1 it returns, without raising, a delay d
    with 0 < d <= 10 that does not decrease with the attempt number.  For tenacity's wait_exponential the body is read
    from the installed tenacity source (dependency, verified rather than assumed)."""
    def __init__(self, prop, which='tenacity', multiplier=0.5, maximum=10):
        self.prop = prop
        self.which = which
        self.multiplier = multiplier
        self.maximum = maximum
        self.name = f'{prop}:wait[{which}]'

    def run(self, tier):
        from pyvc.frontend import Module, FuncInfo
        out = {'results': [], 'functions': [], 'notes': [], 'bounded': []}
        r = repo()
        if self.which == 'tenacity':
            import tenacity.wait as tw
            mod = Module('tenacity_wait', tw.__file__)
            r.modules['tenacity_wait'] = mod
            ci = mod.classes['wait_exponential']
            info = ci.methods['__call__']
            d = info.describe()
            d['function'] = 'tenacity.wait.wait_exponential.__call__'
            d['file'] = tw.__file__
            out['functions'].append(d)
            self_obj = lambda ex: Obj(ci, {'multiplier': self.multiplier, 'max': float(self.maximum), 'min': 0, 'exp_base': 2})
            fname = 'tenacity.wait.wait_exponential.__call__'
        else:
            info = r.func(self.which)
            out['functions'].append(info.describe())
            self_obj = lambda ex: Client(ex, r).obj
            fname = info.fullname
        obs = verify_wait(r, info, self_obj, f'{self.prop}/{fname}')
        for ob in obs:
            res = discharge(ob, budget(tier))
            dct = result_dict(res, with_size=False)
            dct['function'] = fname
            if res.status == 'refuted':
                dct['reason'] = ob.meta.get('note', '')
                dct['replay'] = replay_wait(self.which, (res.model or {}).get('attempt_number', 1), self.multiplier, self.maximum)
            out['results'].append(dct)
        return out


def verify_wait(r, info, self_obj, base):
    def run(ex):
        aio.install(ex)
        a = ex.fresh('attempt_number', lo=1)
        ex.ghost['a'] = a
        k = z3.Int('k!p')
        # facts about 2**k (the uninterpreted pow2): positive, doubles at each step (used at the two points evaluated)
        for kk in (a.t - 1, a.t):
            ex.assume(V.POW2(kk) >= 1)
        ex.assume(V.POW2(a.t) == 2 * V.POW2(a.t - 1))
        ex.assume(z3.Implies(a.t - 1 >= 5, V.POW2(a.t - 1) >= 32))
        outs = []
        for n in (a, a + 1):
            rs = Obj(None, {'attempt_number': n}, clsname='RetryCallState')
            so = self_obj(ex)
            try:
                outs.append(('return', ex._run_body(info, [rs], {}, so)))
            except PyRaise as pr:
                outs.append(('raise', pr.exc.clsname))
        return outs
    obs = []
    try:
        results = explore(r, run, inline={'*'})
    except V.Unsupported as u:
        obs.append(Obligation(f'{base}/within-the-modelled-subset', [], z3.BoolVal(False), kind='ensures', meta={'note': f'outside the modelled subset: {u}'}))
        return obs
    for pi, p in enumerate(results):
        a = p.ex.ghost['a']
        hyps = list(p.pc)
        inputs = {'attempt_number': a.t}
        (k1, d1), (k2, d2) = p.value
        obs.append(Obligation(f'{base}/never-raises/path[{pi}]', hyps, z3.BoolVal(k1 == 'return' and k2 == 'return'), kind='ensures', inputs=inputs,
                              meta={'note': f'the wait function raises {d1 if k1 == "raise" else d2} for some attempt number'}))
        if k1 != 'return' or k2 != 'return':
            continue
        t1, t2 = V.real_term(d1), V.real_term(d2)
        obs.append(Obligation(f'{base}/delay-is-positive-and-capped-at-10/path[{pi}]', hyps, z3.And(t1 > 0, t1 <= 10), kind='ensures', inputs=inputs, float_model='R',
                              meta={'note': 'delay outside (0, 10]'}))
        obs.append(Obligation(f'{base}/delay-never-shrinks/path[{pi}]', hyps, t1 <= t2, kind='ensures', inputs=inputs, float_model='R', meta={'note': 'delay decreases with the attempt number'}))
    return obs


def replay_wait(which, attempt, multiplier, maximum):
    class RS:
        pass
    rs = RS()
    rs.attempt_number = int(attempt)
    try:
        if which == 'tenacity':
            import tenacity
            d = tenacity.wait_exponential(multiplier=multiplier, max=maximum)(rs)
        else:
            import asyncio
            import nmea2000.ioclient as IO

            async def mk():
                c = IO.EByteNmea2000Gateway('h', 1)
                fn = getattr(c, which.split('.')[-1])
                try:
                    return fn(rs)
                finally:
                    await c.close()
            d = asyncio.run(mk())
    except Exception as e:  # noqa
        return {'confirmed': True, 'inputs': {'attempt_number': int(attempt)}, 'observed': ['raise', type(e).__name__, str(e)[:80]], 'expected': 'a delay in (0, 10]'}
    return {'confirmed': not (0 < d <= 10), 'inputs': {'attempt_number': int(attempt)}, 'observed': d, 'expected': 'a delay in (0, 10]'}


class BoundedScenarioTask(Task):
    """Bounded stand-in: scripted schedules on the real client over in-memory transports (never counted as proved)."""
    def __init__(self, prop, names):
        self.prop = prop
        self.names = names
        self.name = f'{prop}:bounded-scenarios[{",".join(names)}]'

    def run(self, tier):
        import contracts.ioclient_scenarios as S
        out = {'results': [], 'functions': [], 'notes': [], 'bounded': []}
        for n in self.names:
            t0 = time.time()
            f = S.memo(getattr(S, n))
            out['bounded'].append({'kind': 'scripted schedule on the real client class (bounded stand-in)', 'scenario': n, 'label': 'bounded', 'seconds': round(time.time() - t0, 2),
                                   'doc': (getattr(S, n).__doc__ or '').strip()[:200]})
            if f is not None:
                out['results'].append({'obligation': f'{self.prop}/ioclient/bounded-scenario[{n}]', 'kind': 'bounded', 'status': 'refuted', 'backend': 'native-scenarios', 'seconds': 0.0,
                                       'model': {}, 'replay': {'confirmed': True, 'inputs': f, 'how': f'{n}: real client over in-memory transports'}})
            else:
                out['results'].append({'obligation': f'{self.prop}/ioclient/bounded-scenario[{n}]', 'kind': 'bounded', 'status': 'discharged',
                                       'backend': 'native-scenarios (bounded, not a proof)', 'seconds': round(time.time() - t0, 2)})
        return out


# ---------------------------------------------------------------------------------------------
# structural guarantees every coroutine relies on
# ---------------------------------------------------------------------------------------------
def lock_identity_lemmas(prop):
    """The mutual-exclusion arguments (send lock: contiguity, connect lock: one attempt) rest on every task using the SAME
    lock object for the life of the client: attributes initialised with asyncio.Lock() in a constructor are assigned
    nowhere else (syntactic scan of nmea2000/ioclient.py)."""
    import ast as _ast

    def build(tier):
        r = repo()
        mod = r.load('ioclient')
        locks = set()
        sites = []
        for cname, ci in mod.classes.items():
            for mname, fi in ci.methods.items():
                for n in _ast.walk(fi.node):
                    tg = []
                    if isinstance(n, _ast.Assign):
                        tg, val = n.targets, n.value
                    elif isinstance(n, (_ast.AnnAssign, _ast.AugAssign)):
                        tg, val = [n.target], n.value
                    elif isinstance(n, _ast.Delete):
                        tg, val = n.targets, None
                    for t in tg:
                        for el in (t.elts if isinstance(t, (_ast.Tuple, _ast.List)) else [t]):
                            if isinstance(el, _ast.Attribute) and isinstance(el.value, _ast.Name) and el.value.id == 'self':
                                is_lock = val is not None and isinstance(val, _ast.Call) and _ast.unparse(val.func) in ('asyncio.Lock', 'Lock')
                                if is_lock and mname == '__init__':
                                    locks.add(el.attr)
                                sites.append((cname, mname, el.attr, is_lock, n.lineno))
        out = []
        out.append(Obligation(f'{prop}/ioclient/send-lock-is-created-in-the-constructor', [], z3.BoolVal('_send_lock' in locks), kind='frame', meta={'note': f'lock attributes: {sorted(locks)}'}))
        bad = [f'{c}.{m} line {ln}: self.{a} reassigned' for (c, m, a, is_lock, ln) in sites if a in locks and m != '__init__']
        out.append(Obligation(f'{prop}/ioclient/lock-objects-are-never-replaced', [], z3.BoolVal(not bad), kind='frame', meta={'note': '; '.join(bad)[:300]}))
        return out
    return build


class ConnectImplTask(MethodTask):
    """_connect_impl of a client class: the new link replaces reader and writer; the serial client also starts from an
    EMPTY reassembly buffer (bytes of the previous session must not be glued to the new stream)."""
    method = '_connect_impl'

    def __init__(self, prop, cls):
        self.cls = cls
        super().__init__(prop, None)
        self.name = f'{prop}:{cls}._connect_impl'

    def make(self, ex, r):
        gw = {'ActisenseNmea2000Gateway': 'ACTISENSE', 'YachtDevicesNmea2000Gateway': 'YACHT_DEVICES'}.get(self.cls)
        c = Client(ex, r, self.cls, gw_type=gw)
        c.world.on_await = default_await(c, allow_cancel=False)
        st = {'client': c, 'args': []}
        if self.cls == 'WaveShareNmea2000Gateway':
            old = ABuf(ex, tag='stale-buffer')
            ex.assume(old.n <= 120)
            c.obj.attrs['_buffer'] = GV.make([(z3.Bool('first_connect'), None), (z3.Not(z3.Bool('first_connect')), old)])
            st['old_buffer'] = old
        return st

    def scenario(self):
        return 'reconnect-mid-packet'

    def check(self, p, st, add):
        c, w = st['client'], st['client'].world
        conn = w.of('connected')
        if p.kind == 'raise':
            add('raises-only-when-the-transport-fails', not conn or bool(w.of('fault')), f'raises {p.exc_name()} although the transport opened and no write failed')
            return
        add('one-transport-opened', len(conn) == 1, f'{len(conn)} connections opened')
        if len(conn) == 1:
            add('reader-and-writer-are-the-new-link', c.obj.attrs.get('reader') is conn[0][1] and c.obj.attrs.get('writer') is conn[0][2])
        if self.cls == 'WaveShareNmea2000Gateway':
            b = c.obj.attrs.get('_buffer')
            empty = isinstance(b, (bytearray, bytes, SBytes)) and len(b) == 0
            add('serial-session-starts-with-an-empty-buffer', empty and b is not st['old_buffer'],
                f'after _connect_impl the pending buffer is {b!r}: bytes received before the reconnect are glued to the new stream', 'reconnect-mid-packet')
