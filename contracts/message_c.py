"""Contracts of nmea2000/message.py functions."""
import z3
from pyvc.verify import FunctionSpec, Return, Raise
from pyvc.values import vand, vor, vnot, mk_bool
from pyvc.symex import Obj
from pyvc.sstr import SStr, Atom
from pyvc.tasks import repo


class GetFieldById(FunctionSpec):
    """get_field_by_id returns the first field whose id equals the argument, else raises ValueError.
    Checked for field lists of a concrete length n (the generator is unrolled): n = 0..6."""
    func = 'message.NMEA2000Message.get_field_by_id'
    prop = 'C09'

    def __init__(self, n=3):
        self.n = n if not isinstance(n, bool) else (4 if n else 0)

    def param_names(self):
        return ['this', 'id']

    def make_inputs(self, ex):
        r = repo()
        fields = [Obj(r.cls('message', 'NMEA2000Field'), {'id': SStr([Atom(f'field_id_{i}')])}) for i in range(self.n)]
        msg = Obj(r.cls('message', 'NMEA2000Message'), {'PGN': 1, 'id': 'x', 'fields': fields})
        return {'this': msg, 'id': SStr([Atom('wanted_id')])}

    def call_args(self, inp):
        return [inp['id']], {}

    def outcome(self, **inp):
        msg, wanted = inp['this'], inp['id']
        alts = []
        prev = []
        for f in msg.attrs['fields']:
            eq = SStr.eq(None, f.attrs['id'], wanted)
            alts.append(Return(f, guard=vand(eq, *[vnot(p) for p in prev])))
            prev.append(eq)
        alts.append(Raise('ValueError', guard=vand(*[vnot(p) for p in prev]) if prev else True))
        return alts


def c_get_field_by_id(ex, f, args, kwargs):
    """Call-site contract for messages whose field ids are concrete strings: logs the requested id."""
    msg = f.bound
    wanted = args[0]
    ex.ghost.setdefault('get_field_calls', []).append(wanted)
    for fo in msg.attrs.get('fields', []):
        if fo.attrs.get('id') == wanted:
            return fo
    from pyvc.symex import PyRaise, make_exc
    raise PyRaise(make_exc('ValueError', f'Field with id {wanted!r} is missing'))
