"""Contracts of nmea2000/message.py functions."""
import z3
from pyvc.verify import FunctionSpec, Return, Raise
from pyvc.values import vand, vor, vnot, mk_bool
from pyvc.symex import Obj
from pyvc.sstr import SStr, Atom
from pyvc.tasks import repo


class GetFieldById(FunctionSpec):
    """get_field_by_id returns the first field whose id equals the argument, else raises ValueError.
    Checked for field lists of a concrete length n (the generator is unrolled): n = 0..6."""
    func = 'message.NMEA2000Message.get_field_by_id'
    prop = 'C09'

    def __init__(self, n=3):
        self.n = n if not isinstance(n, bool) else (4 if n else 0)

    def param_names(self):
        return ['this', 'id']

    def make_inputs(self, ex):
        r = repo()
        fields = [Obj(r.cls('message', 'NMEA2000Field'), {'id': SStr([Atom(f'field_id_{i}')])}) for i in range(self.n)]
        msg = Obj(r.cls('message', 'NMEA2000Message'), {'PGN': 1, 'id': 'x', 'fields': fields})
        return {'this': msg, 'id': SStr([Atom('wanted_id')])}

    def call_args(self, inp):
        return [inp['id']], {}

    def outcome(self, **inp):
        msg, wanted = inp['this'], inp['id']
        alts = []
        prev = []
        for f in msg.attrs['fields']:
            eq = SStr.eq(None, f.attrs['id'], wanted)
            alts.append(Return(f, guard=vand(eq, *[vnot(p) for p in prev])))
            prev.append(eq)
        alts.append(Raise('ValueError', guard=vand(*[vnot(p) for p in prev]) if prev else True))
        return alts


def c_get_field_by_id(ex, f, args, kwargs):
    """Call-site contract for messages whose field ids are concrete strings: logs the requested id."""
    msg = f.bound
    wanted = args[0]
    ex.ghost.setdefault('get_field_calls', []).append(wanted)
    for fo in msg.attrs.get('fields', []):
        if fo.attrs.get('id') == wanted:
            return fo
    from pyvc.symex import PyRaise, make_exc
    raise PyRaise(make_exc('ValueError', f'Field with id {wanted!r} is missing'))


from pyvc.report import Task


class GetFieldDbTask(Task):
    """get_field_by_id over the id universe of the database: for every encodable definition and every field id the
    generated encoder asks for, the real function returns that field when it is present and raises ValueError when
    exactly that field is missing (all ids concrete: complete for the finite set of id lists the database defines)."""
    def __init__(self, prop, defs):
        self.prop = prop
        self.defs = defs
        self.name = f'{prop}:get_field_by_id[{defs[0].suffix}..{defs[-1].suffix}]'

    def run(self, tier):
        from pyvc.symex import explore
        from pyvc.solve import Obligation, discharge
        from pyvc.tasks import budget, result_dict
        from pyvc import values as V
        out = {'results': [], 'functions': [], 'notes': [], 'bounded': []}
        r = repo()
        info = r.func('message.NMEA2000Message.get_field_by_id')
        out['functions'].append(info.describe())
        fcls, mcls = r.cls('message', 'NMEA2000Field'), r.cls('message', 'NMEA2000Message')
        for d in self.defs:
            ids = [f.expected_id for f in d.fields]
            bad = []
            for i, wanted in enumerate(ids):
                for missing in (False, True):
                    objs = [Obj(fcls, {'id': x, 'value': 0, 'raw_value': 0}) for x in ids]
                    target = objs[ids.index(wanted)]
                    present = [o for j, o in enumerate(objs) if not (missing and ids[j] == wanted)]
                    msg = Obj(mcls, {'PGN': d.pgn, 'id': d.id, 'fields': present})
                    try:
                        res = explore(r, lambda ex: ex._run_body(info, [wanted], {}, msg))
                    except V.Unsupported as u:
                        bad.append(f'{wanted}: outside the modelled subset: {u}')
                        continue
                    if missing:
                        ok = len(res) == 1 and res[0].kind == 'raise' and res[0].exc_name() == 'ValueError'
                        if not ok:
                            bad.append(f'{wanted} missing: {[(p.kind, getattr(p.value, "attrs", {}).get("id") if p.kind == "return" else p.exc_name()) for p in res]} instead of ValueError')
                    else:
                        ok = len(res) == 1 and res[0].kind == 'return' and res[0].value is target
                        if not ok:
                            bad.append(f'{wanted} present: not returned')
            ob = Obligation(f'{self.prop}/message.NMEA2000Message.get_field_by_id[{d.suffix}]/present-field-returned-missing-field-raises', [], z3.BoolVal(not bad), kind='ensures',
                            func=info.fullname, meta={'note': '; '.join(bad)[:300]})
            res = discharge(ob, budget(tier))
            dct = result_dict(res, with_size=False)
            dct['function'] = info.fullname
            if res.status == 'refuted':
                dct['reason'] = ob.meta['note']
                dct['replay'] = replay_missing(d)
            out['results'].append(dct)
        return out


def replay_missing(d):
    from nmea2000.message import NMEA2000Message, NMEA2000Field
    ids = [f.expected_id for f in d.fields]
    for wanted in ids:
        fs = [NMEA2000Field(id=x) for x in ids if x != wanted]
        m = NMEA2000Message(PGN=d.pgn, id=d.id, fields=fs)
        try:
            got = m.get_field_by_id(wanted)
        except ValueError:
            continue
        except Exception as e:  # noqa
            return {'confirmed': True, 'inputs': {'definition': d.id, 'field_ids': [f.id for f in fs], 'wanted': wanted}, 'observed': f'{type(e).__name__}', 'expected': 'ValueError'}
        return {'confirmed': True, 'inputs': {'definition': d.id, 'field_ids': [f.id for f in fs], 'wanted': wanted}, 'observed': f'returned field {got.id!r}', 'expected': 'ValueError (the field is missing)',
                'how': 'NMEA2000Message.get_field_by_id on the working tree'}
    return {'confirmed': False}
