"""Contracts of the CAN identifier functions (C05)."""
from pyvc.verify import FunctionSpec, Return, Raise
from pyvc.values import vand
from spec import specfun as S


class ExtractHeader(FunctionSpec):
    func = 'decoder.NMEA2000Decoder._extract_header'
    prop = 'C05'

    def param_names(self):
        return ['frame_id_int']

    def make_inputs(self, ex):
        return {'frame_id_int': ex.fresh('frame_id_int', bits=32)}

    def pre(self, frame_id_int):
        return vand(frame_id_int >= 0, frame_id_int < (1 << 32))

    def outcome(self, frame_id_int):
        return [Return(S.extract(frame_id_int))]

    def native_inputs(self, model):
        return {'frame_id_int': model['frame_id_int']}


class BuildHeader(FunctionSpec):
    func = 'encoder.NMEA2000Encoder._build_header'
    prop = 'C05'

    def param_names(self):
        return ['pgn_id', 'source', 'dest', 'priority']

    def make_inputs(self, ex):
        return {'pgn_id': ex.fresh('pgn_id', bits=18), 'source': ex.fresh('source', bits=8),
                'dest': ex.fresh('dest', bits=8), 'priority': ex.fresh('priority', bits=3)}

    def pre(self, pgn_id, source, dest, priority):
        return vand(pgn_id >= 0, pgn_id < (1 << 18), source >= 0, source <= 255, dest >= 0, dest <= 255,
                    priority >= 0, priority <= 7)

    def outcome(self, pgn_id, source, dest, priority):
        return [Return(S.build(pgn_id, source, dest, priority))]
