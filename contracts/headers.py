"""Contracts of the CAN identifier functions (C05)."""
from pyvc.verify import FunctionSpec, Return, Raise
from pyvc.values import vand
from spec import specfun as S


class ExtractHeader(FunctionSpec):
    func = 'decoder.NMEA2000Decoder._extract_header'
    prop = 'C05'

    def param_names(self):
        return ['frame_id_int']

    def make_inputs(self, ex):
        return {'frame_id_int': ex.fresh('frame_id_int', bits=32)}

    def pre(self, frame_id_int):
        return vand(frame_id_int >= 0, frame_id_int < (1 << 32))

    def outcome(self, frame_id_int):
        return [Return(S.extract(frame_id_int))]

    def native_inputs(self, model):
        return {'frame_id_int': model['frame_id_int']}

    def native_samples(self, tier):
        import random
        rnd = random.Random(5)
        for dp in range(4):
            for pf in (0, 1, 0xEA, 0xEE, 0xEF, 0xF0, 0xF1, 0xFF):
                for ps in (0, 1, 0x23, 0xFF):
                    for prio, src in ((0, 0), (7, 255), (3, 35)):
                        yield {'frame_id_int': (prio << 26) | (dp << 24) | (pf << 16) | (ps << 8) | src}
        for _ in range(20000 if tier == 'quick' else 400000):
            yield {'frame_id_int': rnd.getrandbits(29)}


class BuildHeader(FunctionSpec):
    func = 'encoder.NMEA2000Encoder._build_header'
    prop = 'C05'

    def param_names(self):
        return ['pgn_id', 'source', 'dest', 'priority']

    def make_inputs(self, ex):
        return {'pgn_id': ex.fresh('pgn_id', bits=18), 'source': ex.fresh('source', bits=8),
                'dest': ex.fresh('dest', bits=8), 'priority': ex.fresh('priority', bits=3)}

    def pre(self, pgn_id, source, dest, priority):
        return vand(pgn_id >= 0, pgn_id < (1 << 18), source >= 0, source <= 255, dest >= 0, dest <= 255,
                    priority >= 0, priority <= 7)

    def outcome(self, pgn_id, source, dest, priority):
        return [Return(S.build(pgn_id, source, dest, priority))]


    def native_samples(self, tier):
        import random
        rnd = random.Random(6)
        for dp in range(4):
            for pf in (0, 1, 0xEA, 0xEE, 0xEF, 0xF0, 0xF1, 0xFF):
                for ps in (0, 1, 0x23, 0xFF):
                    for prio, src, dst in ((0, 0, 0), (7, 255, 255), (3, 35, 1), (6, 1, 0)):
                        yield {'pgn_id': (dp << 16) | (pf << 8) | (ps if pf >= 240 else 0), 'source': src, 'dest': dst, 'priority': prio}
        for _ in range(20000 if tier == 'quick' else 400000):
            pf = rnd.getrandbits(8)
            yield {'pgn_id': (rnd.getrandbits(2) << 16) | (pf << 8) | (rnd.getrandbits(8) if pf >= 240 else 0), 'source': rnd.getrandbits(8), 'dest': rnd.getrandbits(8), 'priority': rnd.getrandbits(3)}
