"""Scripted native scenarios for refuted ioclient obligations (C12, C13, C14, C19, C20): the real client classes are
driven over in-memory fake transports on a real asyncio loop.  Each scenario returns None if the property held in
it, else a description of what was observed.  Scenarios that can starve the loop run in a subprocess with a kill
timeout.  Bounded: only used to attach a concrete failing schedule to an obligation the solver refuted."""
from __future__ import annotations
import asyncio
import json
import os
import subprocess
import sys
import textwrap

PRELUDE = r'''
import asyncio, sys, json
sys.path.insert(0, %(repo)r)
import nmea2000.ioclient as IO
from nmea2000.ioclient import State
from nmea2000.message import NMEA2000Message
import nmea2000.pgns as P

class FakeWriter:
    def __init__(self, log, yield_in_drain=True, fail_after=None):
        self.log = log; self.yield_in_drain = yield_in_drain; self.fail_after = fail_after; self.closed = False; self.n = 0
    def write(self, b):
        self.n += 1
        if self.fail_after is not None and self.n > self.fail_after: raise ConnectionResetError('reset')
        self.log.append(bytes(b))
    async def drain(self):
        if self.yield_in_drain: await asyncio.sleep(0)
    def close(self): self.closed = True
    def get_extra_info(self, *a): return None

class FakeReader:
    def __init__(self, chunks, eof=True):
        self.chunks = list(chunks); self.eof = eof; self.buf = b''
    async def _more(self):
        if self.chunks:
            c = self.chunks.pop(0)
            if c is None:
                await asyncio.sleep(0.01); return True
            self.buf += c; await asyncio.sleep(0); return True
        return False
    async def read(self, n):
        while not self.buf:
            if not await self._more():
                if self.eof: return b''
                await asyncio.sleep(3600)
        out, self.buf = self.buf[:n], self.buf[n:]; return out
    async def readexactly(self, n):
        while len(self.buf) < n:
            if not await self._more():
                if self.eof: raise asyncio.IncompleteReadError(self.buf, n)
                await asyncio.sleep(3600)
        out, self.buf = self.buf[:n], self.buf[n:]; return out
    async def readline(self):
        while b'\n' not in self.buf:
            if not await self._more():
                if self.eof:
                    out, self.buf = self.buf, b''; return out
                await asyncio.sleep(3600)
        i = self.buf.index(b'\n') + 1
        out, self.buf = self.buf[:i], self.buf[i:]; return out

def heading(src=1):
    m = P.decode_pgn_127250(0x00FC7FFF7FFF0B7D00 & ((1 << 64) - 1)); m.source = src; m.destination = 255; m.priority = 2; return m

def gnss(src=1):
    import datetime
    m = P.decode_pgn_129029(int.from_bytes(bytes(range(1, 44)), 'little') & ~(0xFF << 0))
    m.source = src; m.destination = 255; m.priority = 3; return m

def fast_message(src):
    # a multi-frame message: PGN 129029 (GNSS position data) -> 7 frames
    d = P.decode_pgn_129029(1 << 336)
    d.source = src; d.destination = 255; d.priority = 3; return d
'''


def run_script(body, timeout=20):
    from pyvc.frontend import REPO
    code = PRELUDE % {'repo': REPO} + textwrap.dedent(body)
    try:
        p = subprocess.run([sys.executable, '-c', code], capture_output=True, text=True, timeout=timeout)
    except subprocess.TimeoutExpired:
        return {'timeout': True, 'note': f'scenario did not finish within {timeout} s (event loop starved?)'}
    last = [l for l in p.stdout.strip().splitlines() if l.startswith('RESULT ')]
    if not last:
        return {'error': (p.stderr or p.stdout)[-600:]}
    return json.loads(last[-1][7:])


def concurrent_send():
    r = run_script('''
    async def main():
        log = []
        c = IO.EByteNmea2000Gateway('h', 1)
        c.writer = FakeWriter(log); c._state = State.CONNECTED
        ok = True; srcs_all = []
        for combo in ((fast_message(1), fast_message(2)), (fast_message(1), heading(2)), (heading(1), fast_message(2)), (fast_message(1), heading(2), fast_message(3), heading(4))):
            del log[:]
            await asyncio.gather(*[c.send(m) for m in combo])
            srcs = [p[4] for p in log]           # source address is the low byte of the identifier
            runs = [s for i, s in enumerate(srcs) if i == 0 or srcs[i - 1] != s]
            srcs_all.append(srcs)
            ok = ok and len(runs) == len(combo)
        await c.close()
        srcs = srcs_all
        print('RESULT ' + json.dumps({'wire_sources': srcs, 'contiguous': ok}))
    asyncio.run(main())
    ''')
    if r.get('contiguous') is False:
        return {'scenario': 'concurrent send() of multi-frame and single-frame messages (four combinations), drain() yields', 'observed': f"frames on the wire by source: {r['wire_sources']}", 'expected': 'the frames of each message contiguous'}
    return None if 'contiguous' in r else {'scenario': 'concurrent send', 'observed': r}


def unsendable():
    r = run_script('''
    async def main():
        log = []; trace = []
        for cls in (IO.ActisenseNmea2000Gateway, IO.EByteNmea2000Gateway):
            c = cls('h', 1)
            async def cb(s, trace=trace, cls=cls): trace.append((cls.__name__, s.name))
            c.set_status_callback(cb)
            connects = []
            async def fake_connect(connects=connects): connects.append(1); await asyncio.sleep(3600)
            c.connect = fake_connect
            c.writer = FakeWriter(log); c._state = State.CONNECTED
            m = heading()
            if cls is IO.EByteNmea2000Gateway: m.fields[1].value = 1e9
            await c.send(m)
            await asyncio.sleep(0.05)
            trace.append((cls.__name__, 'state', c.state.name, 'connects', len(connects)))
        print('RESULT ' + json.dumps({'written': len(log), 'trace': trace}))
    asyncio.run(main())
    ''')
    tr = r.get('trace')
    if tr is None:
        return {'scenario': 'unsendable', 'observed': r}
    bad = [t for t in tr if (len(t) == 2) or (len(t) == 5 and (t[2] != 'CONNECTED' or t[4] != 0))]
    if bad or r.get('written'):
        return {'scenario': 'send() of a message that cannot be sent as such (Actisense client has no encoder; EByte client with an out-of-range field)', 'observed': tr, 'written': r.get('written'),
                'expected': 'nothing written, no status change, no reconnect'}
    return None


def close_during_connect():
    r = run_script('''
    async def main():
        out = {}
        for cls in (IO.EByteNmea2000Gateway, IO.YachtDevicesNmea2000Gateway):
            c = cls('h', 1)
            trace = []
            async def cb(s, trace=trace): trace.append(s.name)
            c.set_status_callback(cb)
            gate = asyncio.Event(); opened = []
            async def fake_impl(c=c, gate=gate, opened=opened):
                await gate.wait(); opened.append(1); c.reader = FakeReader([], eof=False); c.writer = FakeWriter([])
            c._connect_impl = fake_impl
            t = asyncio.create_task(c.connect())
            await asyncio.sleep(0.05)
            await c.close()
            gate.set()
            await asyncio.sleep(0.2)
            out[cls.__name__] = {'state': c.state.name, 'trace': trace, 'receive_task_running': bool(c._receive_task and not c._receive_task.done())}
            if c._receive_task: c._receive_task.cancel()
        print('RESULT ' + json.dumps(out))
    asyncio.run(main())
    ''')
    for k, v in r.items():
        if isinstance(v, dict) and (v.get('state') != 'CLOSED' or v.get('receive_task_running') or (v.get('trace') and v['trace'][-1] != 'CLOSED')):
            return {'scenario': 'close() while connect() is awaiting the transport', 'client': k, 'observed': v, 'expected': 'state stays CLOSED, no receive loop started'}
    return None if all(isinstance(v, dict) for v in r.values()) and r else {'scenario': 'close during connect', 'observed': r}


def close_during_retry_wait():
    r = run_script('''
    async def main():
        out = {}
        for cls in (IO.EByteNmea2000Gateway, IO.YachtDevicesNmea2000Gateway):
            c = cls('h', 1)
            dials = []
            async def fake_impl(c=c, dials=dials):
                dials.append(c.state.name)
                if len(dials) == 1: raise ConnectionRefusedError('refused')
                c.reader = FakeReader([], eof=False); c.writer = FakeWriter([])
            c._connect_impl = fake_impl
            t = asyncio.create_task(c.connect())
            await asyncio.sleep(0.1)          # the first attempt has failed, connect() sleeps in the back-off (0.5 s or more)
            await c.close()
            await asyncio.sleep(2.5)
            out[cls.__name__] = {'state': c.state.name, 'state_at_each_dial': dials, 'connect_task_done': t.done()}
            t.cancel()
            if c._receive_task: c._receive_task.cancel()
        print('RESULT ' + json.dumps(out))
    asyncio.run(main())
    ''', timeout=40)
    for k, v in r.items():
        if isinstance(v, dict) and ('CLOSED' in v.get('state_at_each_dial', []) or v.get('state') != 'CLOSED' or not v.get('connect_task_done')):
            return {'scenario': 'the gateway refuses the first attempt; close() is called while connect() waits before the retry', 'client': k, 'observed': v,
                    'expected': 'no transport connection is opened once the client is CLOSED; the connect task ends'}
    return None if all(isinstance(v, dict) for v in r.values()) and r else {'scenario': 'close during retry wait', 'observed': r}


def close_during_callback():
    r = run_script('''
    async def main():
        enc = IO.NMEA2000Encoder()
        out = {}
        for cls in (IO.EByteNmea2000Gateway,):
            c = cls('h', 1)
            log = []
            async def rc(m, log=log):
                log.append(('enter', m.source)); await asyncio.sleep(0.3); log.append(('leave', m.source))
            c.set_receive_callback(rc)
            pk = b''.join(enc.encode_ebyte(heading(s))[0] for s in (31, 32))
            c.reader = FakeReader([pk], eof=False); c.writer = FakeWriter([]); c._state = State.CONNECTED
            async def pump(c=c):
                while True: await c._receive_impl()
            t = asyncio.create_task(pump())
            await asyncio.sleep(0.1)           # the callback for the first message is suspended now
            t.cancel()
            await c.close()
            n_at_close = len(log)
            await asyncio.sleep(0.6)
            pending = [x for x in asyncio.all_tasks() if x is not asyncio.current_task() and not x.done()]
            out[cls.__name__] = {'log_when_close_returned': log[:n_at_close], 'log_later': log[n_at_close:], 'tasks_still_pending': len(pending)}
        print('RESULT ' + json.dumps(out))
    asyncio.run(main())
    ''', timeout=30)
    for k, v in r.items():
        if isinstance(v, dict) and (v.get('log_later') or v.get('tasks_still_pending')):
            return {'scenario': 'close() while the receive callback is suspended at an await', 'client': k, 'observed': v,
                    'expected': 'nothing of the receive callback runs after close() has returned; no task is left behind'}
    return None if all(isinstance(v, dict) for v in r.values()) and r else {'scenario': 'close during callback', 'observed': r}


def fault_while_closing():
    r = run_script('''
    class GatedReader:
        def __init__(self): self.ev = asyncio.Event()
        async def readexactly(self, n):
            await self.ev.wait(); raise asyncio.IncompleteReadError(b'', n)
        async def readline(self):
            await self.ev.wait(); raise ConnectionResetError('reset')
    async def main():
        out = {}
        for cls in (IO.EByteNmea2000Gateway, IO.YachtDevicesNmea2000Gateway):
            c = cls('h', 1)
            trace = []; rd = GatedReader(); opened = []
            async def cb(s, trace=trace):
                trace.append(s.name)
                if s.name == 'CLOSED': await asyncio.sleep(0.3)
            c.set_status_callback(cb)
            async def fake_impl(c=c, rd=rd, opened=opened):
                opened.append(1); c.reader = rd; c.writer = FakeWriter([])
            c._connect_impl = fake_impl
            await c.connect()
            t = asyncio.create_task(c.close())
            await asyncio.sleep(0.1)
            rd.ev.set()                       # the link drops while close() is still running
            await t
            await asyncio.sleep(0.3)
            out[cls.__name__] = {'state': c.state.name, 'trace': trace, 'connections': len(opened)}
            if c._receive_task: c._receive_task.cancel()
        print('RESULT ' + json.dumps(out))
    asyncio.run(main())
    ''')
    for k, v in r.items():
        if isinstance(v, dict) and (v.get('state') != 'CLOSED' or v.get('connections') != 1 or v.get('trace') != ['CONNECTED', 'CLOSED']):
            return {'scenario': 'the link fails while close() is suspended in a slow status callback', 'client': k, 'observed': v, 'expected': "trace ['CONNECTED','CLOSED'], one connection, state CLOSED"}
    return None if r and all(isinstance(v, dict) for v in r.values()) else {'scenario': 'fault while closing', 'observed': r}


def eof_no_stall():
    bad = []
    # the stream ends at once, or in the middle of a line / packet
    for cls, extra, chunks in (('YachtDevicesNmea2000Gateway', "('h', 1)", "[]"), ('WaveShareNmea2000Gateway', "('/dev/null',)", "[]"), ('EByteNmea2000Gateway', "('h', 1)", "[]"),
                               ('YachtDevicesNmea2000Gateway', "('h', 1)", "[b'00:00:00.000 R 09F8027F 00 FC']"), ('ActisenseNmea2000Gateway', "('h', 1)", "[b'A000001.000 23FF7 1F513 01']"),
                               ('WaveShareNmea2000Gateway', "('/dev/null',)", "[bytes([0xAA, 0x55, 1, 1, 1, 2])]"), ('EByteNmea2000Gateway', "('h', 1)", "[bytes([0x88, 1, 2, 3])]")):
        r = run_script(f'''
        async def main():
            c = IO.{cls}{extra}
            trace = []
            async def cb(s): trace.append(s.name)
            c.set_status_callback(cb)
            async def fake_impl():
                c.reader = FakeReader({chunks}, eof=True); c.writer = FakeWriter([]); c._buffer = bytearray()
            c._connect_impl = fake_impl
            beats = []
            async def heart():
                while True:
                    beats.append(1); await asyncio.sleep(0.01)
            h = asyncio.create_task(heart())
            await c.connect()
            await asyncio.sleep(0.3)
            n = len(beats)
            print('RESULT ' + json.dumps({{'beats': n, 'trace': trace[:6]}}))
            import os; os._exit(0)
        asyncio.run(main())
        ''', timeout=8)
        if r.get('timeout') or (r.get('beats', 0) < 5):
            bad.append({'client': cls, 'stream': chunks, 'observed': r})
        elif 'DISCONNECTED' not in r.get('trace', []):
            bad.append({'client': cls, 'stream': chunks, 'observed': r, 'note': 'end of stream is not reported as DISCONNECTED'})
    if bad:
        return {'scenario': 'the peer closes the stream (EOF) right after connect, or after part of a line / packet; a heartbeat task runs on the same loop', 'observed': bad,
                'expected': 'heartbeat keeps running; DISCONNECTED reported and reconnection attempted'}
    return None


def serial_buffer():
    r = run_script('''
    import random
    async def main():
        rnd = random.Random(3)
        c = IO.WaveShareNmea2000Gateway('/dev/null')
        got = []
        async def rc(m): got.append(m.source)
        c.set_receive_callback(rc)
        enc = IO.NMEA2000Encoder()
        pk = [enc.encode_usb(heading(s))[0] for s in (11, 12, 13)]
        noise = bytes(rnd.choice([0x00, 0x55, 0x11, 0xAB, 0x7F]) for _ in range(3000))
        stream = noise + pk[0] + noise[:75] + b'\\xaa' + b'\\x00' * 30 + pk[1] + b'\\xaa\\x00' + noise + pk[2]       # a lone AA in front of long marker-free noise
        sizes = []
        c.reader = FakeReader([stream[i:i + 7] for i in range(0, len(stream), 7)], eof=False); c._buffer = bytearray(); c._state = State.CONNECTED
        async def pump():
            while True:
                await c._receive_impl(); sizes.append(len(c._buffer))
        t = asyncio.create_task(pump())
        for _ in range(1000):
            await asyncio.sleep(0.01)
            if len(got) >= 3: break
        await asyncio.sleep(0.05)
        t.cancel()
        await c.close()
        print('RESULT ' + json.dumps({'delivered': got, 'max_buffer': max(sizes) if sizes else -1}))
    asyncio.run(main())
    ''', timeout=30)
    if 'delivered' not in r:
        return {'scenario': 'serial noise', 'observed': r}
    if r['max_buffer'] > 120 or r['delivered'] != [11, 12, 13]:
        return {'scenario': '3000 bytes of marker-free noise, packets separated by noise (one run ending in half a marker, one starting with a lone AA), 7-byte reads', 'observed': r,
                'expected': 'all three packets delivered; pending bytes never above a few packets (120)'}
    return None


def serial_split_marker():
    r = run_script('''
    async def main():
        enc = IO.NMEA2000Encoder()
        pk = [enc.encode_usb(heading(s))[0] for s in (11, 12, 13)]
        results = {}
        for nnoise in (19, 25, 61, 75):
            noise = bytes([0x11]) * nnoise
            stream = noise + pk[0] + pk[1] + pk[2]
            for cut in range(len(noise) - 2, len(noise) + 4):
                c = IO.WaveShareNmea2000Gateway('/dev/null')
                got = []
                async def rc(m, got=got): got.append(m.source)
                c.set_receive_callback(rc)
                c.reader = FakeReader([stream[:cut], stream[cut:]], eof=False); c._buffer = bytearray(); c._state = State.CONNECTED
                async def pump(c=c):
                    while True: await c._receive_impl()
                t = asyncio.create_task(pump())
                for _ in range(400):
                    await asyncio.sleep(0.005)
                    if len(got) >= 3: break
                await asyncio.sleep(0.01); t.cancel(); await c.close()
                if got != [11, 12, 13]: results[f'noise={nnoise},cut={cut}'] = got
        print('RESULT ' + json.dumps({'bad': results}))
    asyncio.run(main())
    ''', timeout=60)
    if r.get('bad'):
        return {'scenario': 'marker-free noise then three packets; one read boundary near / inside the AA 55 marker', 'observed': r['bad'], 'expected': '[11, 12, 13] for every split'}
    return None if 'bad' in r else {'scenario': 'split marker', 'observed': r}


def serial_packet_end_at_read_boundary():
    r = run_script('''
    async def main():
        enc = IO.NMEA2000Encoder()
        def with_checksum(src, want):
            pk = bytearray(enc.encode_usb(heading(src))[0])
            for sid in range(0, 250):
                pk[10] = sid                       # the SID byte of PGN 127250: any value decodes
                pk[19] = sum(pk[2:19]) & 0xFF
                if pk[19] == want and b'\\xaa\\x55' not in bytes(pk[2:]): return bytes(pk)
            return None
        results = {}
        for last in (0xAA, 0x55, 0x10):
            a = with_checksum(11, last)
            if a is None: continue
            b, c3 = enc.encode_usb(heading(12))[0], enc.encode_usb(heading(13))[0]
            for first in (0x55, 0xAA, 0x11):
                for m in (1, 5, 17):
                    noise = bytes([first]) + bytes([0x11]) * (m - 1)
                    for reads in ([a, noise + b + c3], [a, noise, b + c3], [a + noise[:1], noise[1:] + b + c3]):
                        c = IO.WaveShareNmea2000Gateway('/dev/null')
                        got = []
                        async def rc(mm, got=got): got.append(mm.source)
                        c.set_receive_callback(rc)
                        c.reader = FakeReader([x for x in reads if x], eof=False); c._buffer = bytearray(); c._state = State.CONNECTED
                        async def pump(c=c):
                            while True: await c._receive_impl()
                        t = asyncio.create_task(pump())
                        for _ in range(200):
                            await asyncio.sleep(0.005)
                            if len(got) >= 3: break
                        await asyncio.sleep(0.01); t.cancel(); await c.close()
                        if got != [11, 12, 13]: results[f'last_byte={last:02x},noise_starts={first:02x},noise_len={m},reads={[len(x) for x in reads]}'] = got
        print('RESULT ' + json.dumps({'bad': results}))
    asyncio.run(main())
    ''', timeout=120)
    if r.get('bad'):
        return {'scenario': 'a valid packet ends exactly at a read boundary (its last byte is AA, 55 or 10); marker-free noise of 1 / 5 / 17 bytes follows, then two valid packets',
                'observed': r['bad'], 'expected': '[11, 12, 13]: noise without a start marker loses no packet'}
    return None if 'bad' in r else {'scenario': 'packet end at a read boundary', 'observed': r}


def status_trace():
    r = run_script('''
    async def main():
        c = IO.EByteNmea2000Gateway('h', 1)
        trace = []
        async def cb(s):
            trace.append(s.name)
            if len(trace) == 2: raise RuntimeError('callback failure')
            if len(trace) == 3: raise KeyError()          # an exception without arguments
            if len(trace) == 4: assert False
        c.set_status_callback(cb)
        for s in (State.CONNECTED, State.CONNECTED, State.DISCONNECTED, State.DISCONNECTED, State.CONNECTED, State.CLOSED, State.CLOSED):
            await c._update_state(s)
        await c.close()
        print('RESULT ' + json.dumps({'trace': trace, 'state': c.state.name}))
    asyncio.run(main())
    ''')
    if r.get('trace') != ['CONNECTED', 'DISCONNECTED', 'CONNECTED', 'CLOSED'] or r.get('state') != 'CLOSED':
        return {'scenario': 'repeated and changing state updates with a status callback that raises (RuntimeError with a message, KeyError() and AssertionError() without arguments)', 'observed': r, 'expected': "['CONNECTED','DISCONNECTED','CONNECTED','CLOSED']"}
    return None


def delivery_order():
    r = run_script('''
    async def main():
        enc = IO.NMEA2000Encoder()
        c = IO.EByteNmea2000Gateway('h', 1)
        got = []
        async def rc(m):
            got.append(m.source)
            if m.source == 12: raise RuntimeError('callback failure')
            if m.source == 13: await asyncio.sleep(0.05)
        c.set_receive_callback(rc)
        pk = b''.join(enc.encode_ebyte(heading(s))[0] for s in (11, 12, 13, 14))
        bad = bytes([0x88, 0x1D, 0xF1, 0x12, 0x01]) + b'\\xff' * 8          # PGN 127250 with an out-of-range heading? decoded or rejected, never fatal
        stream = pk[:13] + bad + pk[13:]
        c.reader = FakeReader([stream[i:i + 5] for i in range(0, len(stream), 5)], eof=False); c._state = State.CONNECTED
        async def pump():
            while True: await c._receive_impl()
        t = asyncio.create_task(pump())
        for _ in range(500):
            await asyncio.sleep(0.01)
            if len([x for x in got if x in (11, 12, 13, 14)]) >= 4: break
        await asyncio.sleep(0.1); t.cancel(); await c.close()
        print('RESULT ' + json.dumps({'delivered': got}))
    asyncio.run(main())
    ''')
    d = r.get('delivered')
    if d is None or [x for x in d if x in (11, 12, 13, 14)] != [11, 12, 13, 14]:
        return {'scenario': 'four packets in 5-byte reads with an undecodable packet in between; the callback raises once and is slow once', 'observed': r, 'expected': 'sources 11, 12, 13, 14 once each, in order'}
    return None


def delivery_all_clients():
    r = run_script('''
    from nmea2000.decoder import NMEA2000Decoder
    def usb_fix(pk):
        pk = bytearray(pk); pk[19] = sum(pk[2:19]) & 0xFF; return bytes(pk)
    def sig(m):
        return [m.PGN, m.source, m.destination, [[f.id, str(f.value)] for f in m.fields]]
    async def drive(kind, packets, expected, chunk):
        cls = {'ebyte': IO.EByteNmea2000Gateway, 'actisense': IO.ActisenseNmea2000Gateway, 'yacht': IO.YachtDevicesNmea2000Gateway, 'usb': IO.WaveShareNmea2000Gateway}[kind]
        c = cls('/dev/null') if kind == 'usb' else cls('h', 1)
        got = []
        async def rc(m):
            got.append(sig(m))
            if len(got) == 2: raise RuntimeError('callback failure on the second message')
        c.set_receive_callback(rc)
        stream = b''.join(packets)
        c.reader = FakeReader([stream[i:i + chunk] for i in range(0, len(stream), chunk)], eof=False); c._state = State.CONNECTED
        if kind == 'usb': c._buffer = bytearray()
        escaped = []
        async def pump():
            while True:
                try:
                    await c._receive_impl()
                except asyncio.CancelledError:
                    raise
                except Exception as e:
                    escaped.append(type(e).__name__); return
        t = asyncio.create_task(pump())
        for _ in range(1200):
            await asyncio.sleep(0.005)
            if len(got) >= len(expected) or escaped: break
        await asyncio.sleep(0.05); t.cancel(); await c.close()
        if got != expected or escaped:
            return {'client': kind, 'read_size': chunk, 'stream': [p.hex() for p in packets], 'delivered': [g[:2] for g in got], 'expected': [e[:2] for e in expected], 'escaped_exception': escaped}
        return None
    async def main():
        enc = IO.NMEA2000Encoder()
        bad = None
        # --- EByte: 13-byte packets, one of an unknown PGN and one whose field decoder rejects it
        pk = [enc.encode_ebyte(heading(s))[0] for s in (11, 12, 13, 14)]
        unknown = bytes([0x88, 0x1D, 0xAB, 0xCD, 0x01]) + bytes(8)
        stream = [pk[0], unknown, pk[1], pk[2], unknown, pk[3]]
        ref = NMEA2000Decoder(); exp = []
        for p in stream:
            try:
                m = ref.decode_tcp(p)
            except Exception: m = None
            if m is not None: exp.append(sig(m))
        for chunk in (1, 5, 13, 50):
            bad = bad or await drive('ebyte', stream, exp, chunk)
        # --- text clients: valid lines, an empty line, ASCII garbage and line noise with bytes >= 0x80
        noise = [bytes([0xff, 0xfe, 0x80, 0x9c]) + b' noise' + bytes([13, 10]), b'garbage' + bytes([13, 10]), bytes([13, 10]), bytes([0xc3, 0x28, 13, 10])]
        acti = [b'A000057.055 09FF7 0FF00 3F9FDCFFFFFFFFFF' + bytes([13, 10]), b'A000057.063 09FF7 1FF1A 3F9F24000000FFFFFFFFEFFFFFFF009AFFFFFFADFFFFFF050000000000' + bytes([13, 10]),
                b'A000057.155 09FF7 0FF00 3F9FDCFFFFFFFFFF' + bytes([13, 10])]
        yd = [('00:01:54.430 R 15F11910 0%d 00 00 E5 0B 1D FF FF' % i).encode() + bytes([13, 10]) for i in range(3)]
        for kind, lines, fn in (('actisense', acti, 'decode_actisense_string'), ('yacht', yd, 'decode_yacht_devices_string')):
            stream = [lines[0], noise[0], lines[1], noise[1], noise[2], noise[3], lines[2]]
            ref = NMEA2000Decoder(); exp = []
            for p in stream:
                try:
                    m = getattr(ref, fn)(p.decode('latin-1').strip())
                except Exception: m = None
                if m is not None: exp.append(sig(m))
            for chunk in (1, 7, 64, 500):
                bad = bad or await drive(kind, stream, exp, chunk)
        # --- Waveshare: 20-byte packets; payloads / identifiers that contain AA 55; marker-free noise; corrupted packets
        base = [enc.encode_usb(heading(s))[0] for s in (11, 12, 13, 14, 15)]
        inner = bytearray(base[1]); inner[11] = 0xAA; inner[12] = 0x55; inner = usb_fix(inner)        # data bytes AA 55 (a heading of 0x55AA)
        inner2 = bytearray(base[2]); inner2[15] = 0xAA; inner2[16] = 0x55; inner2 = usb_fix(inner2)       # variation bytes AA 55
        flip18 = bytearray(base[3]); flip18[18] ^= 0x40; flip18 = bytes(flip18)                       # reserved byte damaged, checksum not updated
        flipd = bytearray(base[3]); flipd[12] ^= 0x01; flipd = bytes(flipd)                          # data bit flip, checksum not updated
        quiet = bytes([0x00, 0x11, 0x7F, 0x55, 0x33])
        # a wire-valid packet the decoder cannot decode and rejects with something else than ValueError (zero-length frame of a fast-packet PGN)
        weird = usb_fix(bytes([0xaa, 0x55, 1, 2, 1]) + (0x0DF81001).to_bytes(4, 'little') + bytes([0]) + bytes(8) + bytes([0, 0]))
        stream = [base[0], quiet, inner, weird, inner2, quiet * 7, flip18, quiet, flipd, quiet, base[3], base[4]]
        ref = NMEA2000Decoder(); exp = []
        for p in (base[0], inner, inner2, base[3], base[4]):
            m = ref.decode_usb(p)
            if m is not None: exp.append(sig(m))
        for chunk in (1, 3, 7, 20, 33, 100):
            bad = bad or await drive('usb', stream, exp, chunk)
        print('RESULT ' + json.dumps({'bad': bad}))
    asyncio.run(main())
    ''', timeout=90)
    if r.get('bad'):
        b = r['bad']
        return {'scenario': 'packets with undecodable packets / line noise / marker-free noise / damaged packets in between, several read sizes', 'observed': b,
                'expected': 'exactly the messages a reference decoder returns for the valid packets, once each, in order (the callback raises once); no exception escapes the receive step'}
    return None if 'bad' in r else {'scenario': 'delivery over all clients', 'observed': r}


def stale_writer():
    r = run_script('''
    class GateWriter(FakeWriter):
        def __init__(self, log, gate): super().__init__(log); self.gate = gate
        async def drain(self):
            await self.gate.wait()
    async def main():
        c = IO.EByteNmea2000Gateway('h', 1)
        log1, log2 = [], []
        gate = asyncio.Event()
        c.writer = GateWriter(log1, gate); c._state = State.CONNECTED
        ta = asyncio.create_task(c.send(heading(1)))
        for _ in range(5): await asyncio.sleep(0)              # A has written its packet and waits in drain(), holding the send lock
        tb = asyncio.create_task(c.send(fast_message(2)))
        for _ in range(5): await asyncio.sleep(0)              # B queues behind A
        c.writer = FakeWriter(log2)                            # a reconnect replaces the link meanwhile
        gate.set()
        await asyncio.wait_for(asyncio.gather(ta, tb), 5)
        st = c.state.name
        await c.close()
        print('RESULT ' + json.dumps({'old_link_sources': [p[4] for p in log1], 'new_link_sources': [p[4] for p in log2], 'state': st}))
    asyncio.run(main())
    ''')
    if 'new_link_sources' not in r:
        return {'scenario': 'stale writer', 'observed': r}
    if 2 in r['old_link_sources'] or r['new_link_sources'].count(2) != 7:
        return {'scenario': 'send() B waits for the send lock while the link is replaced by a reconnect; after A finishes, B must write its 7 packets to the current link', 'observed': r,
                'expected': 'old link: only the packet of A (source 1); new link: the 7 packets of B (source 2)'}
    return None


def reconnect_after_reset():
    r = run_script('''
    class ResetWriter(FakeWriter):
        async def wait_closed(self): raise ConnectionResetError('connection reset by peer')
        def is_closing(self): return True
    async def main():
        c = IO.EByteNmea2000Gateway('h', 1)
        trace = []
        async def scb(s): trace.append(s.name)
        c.set_status_callback(scb)
        attempts = []
        async def fake_connect_impl():
            attempts.append(1)
            c.reader = FakeReader([], eof=False); c.writer = FakeWriter([])
        c._connect_impl = fake_connect_impl
        c.writer = ResetWriter([]); c.reader = FakeReader([], eof=False); c._state = State.DISCONNECTED      # the previous session ended with a reset
        t = asyncio.create_task(c.connect())
        for _ in range(120):
            await asyncio.sleep(0.05)
            if c.state == State.CONNECTED: break
        st = c.state.name
        t.cancel(); await c.close()
        print('RESULT ' + json.dumps({'state_after_2s': st, 'attempts_that_reached_the_transport': len(attempts), 'trace': trace}))
    asyncio.run(main())
    ''', timeout=30)
    if r.get('state_after_2s') != 'CONNECTED':
        return {'scenario': 'the previous link was lost with a reset (its writer reports the error from wait_closed()); the gateway accepts the next connection', 'observed': r,
                'expected': 'CONNECTED after the first attempt'}
    return None


def fault_before_connected_reported():
    r = run_script('''
    async def main():
        enc = IO.NMEA2000Encoder()
        out = {}
        for cls in (IO.EByteNmea2000Gateway, IO.YachtDevicesNmea2000Gateway):
            c = cls('h', 1)
            trace = []
            async def scb(s, trace=trace):
                trace.append(s.name)
                if s == State.CONNECTED: await asyncio.sleep(0.2)          # a slow application callback
            c.set_status_callback(scb)
            dials = []
            async def fake_connect_impl(c=c, dials=dials):
                dials.append(1)
                # the first session is accepted and dropped at once by the gateway; the second one stays up
                c.reader = FakeReader([], eof=(len(dials) == 1)); c.writer = FakeWriter([])
            c._connect_impl = fake_connect_impl
            t = asyncio.create_task(c.connect())
            for _ in range(100):
                await asyncio.sleep(0.05)
                if len(dials) >= 2 and c.state == State.CONNECTED: break
            await asyncio.sleep(0.5)
            out[cls.__name__] = {'state_after_5s': c.state.name, 'dials': len(dials), 'trace': trace,
                                 'receive_loop_running': bool(c._receive_task and not c._receive_task.done())}
            t.cancel(); await c.close()
        print('RESULT ' + json.dumps(out))
    asyncio.run(main())
    ''', timeout=60)
    for k, v in r.items():
        if isinstance(v, dict) and (v.get('state_after_5s') != 'CONNECTED' or v.get('dials', 0) < 2 or not v.get('receive_loop_running')):
            return {'scenario': 'the gateway accepts the first connection and drops it at once while the status callback for CONNECTED is still running (0.2 s); it accepts the next connection and keeps it',
                    'client': k, 'observed': v, 'expected': 'DISCONNECTED is followed by a second connection and CONNECTED, with a receive loop running'}
    return None if all(isinstance(v, dict) for v in r.values()) and r else {'scenario': 'fault before CONNECTED is reported', 'observed': r}


def transport_opens_during_close():
    r = run_script('''
    async def main():
        out = {}
        for cls in (IO.EByteNmea2000Gateway, IO.YachtDevicesNmea2000Gateway):
            c = cls('h', 1)
            trace = []
            async def cb(s, trace=trace): trace.append(s.name)
            c.set_status_callback(cb)
            writers = []
            async def fake_impl(c=c, writers=writers):
                await asyncio.sleep(0.004)                      # the transport answers while close() is still at work
                c.reader = FakeReader([], eof=False); c.writer = FakeWriter([]); writers.append(c.writer)
            c._connect_impl = fake_impl
            t = asyncio.create_task(c.connect())
            await asyncio.sleep(0)
            await c.close()                                     # close() sleeps ~10 ms while it cancels its tasks
            await asyncio.sleep(0.2)
            out[cls.__name__] = {'state': c.state.name, 'trace': trace, 'receive_task_running': bool(c._receive_task and not c._receive_task.done()),
                                 'links_left_open': len([w for w in writers if not w.closed])}
            if c._receive_task: c._receive_task.cancel()
        print('RESULT ' + json.dumps(out))
    asyncio.run(main())
    ''')
    for k, v in r.items():
        if isinstance(v, dict) and (v.get('state') != 'CLOSED' or v.get('receive_task_running') or v.get('links_left_open') or 'CONNECTED' in v.get('trace', [])):
            return {'scenario': 'the transport of a connect() in flight opens while close() is cancelling its tasks', 'client': k, 'observed': v,
                    'expected': 'state CLOSED from the moment close() was called: no CONNECTED report, no receive loop, the new link shut'}
    return None if all(isinstance(v, dict) for v in r.values()) and r else {'scenario': 'transport opens during close', 'observed': r}


def reconnect_mid_packet():
    r = run_script('''
    import serial_asyncio
    async def main():
        enc = IO.NMEA2000Encoder()
        pk = [enc.encode_usb(heading(s))[0] for s in (11, 12, 13, 14)]
        bad = {}
        for cut in (2, 11, 19):
            sessions = [FakeReader([pk[0] + pk[1][:cut]], eof=True), FakeReader([pk[2], pk[3]], eof=False)]
            opened = []
            async def fake_open(*a, **k):
                opened.append(1)
                return sessions[len(opened) - 1], FakeWriter([])
            serial_asyncio.open_serial_connection = fake_open
            IO.serial_asyncio.open_serial_connection = fake_open
            c = IO.WaveShareNmea2000Gateway('/dev/null')
            got = []
            async def rc(m, got=got): got.append(m.source)
            c.set_receive_callback(rc)
            await c.connect()
            for _ in range(600):
                await asyncio.sleep(0.01)
                if len(opened) >= 2 and len([x for x in got if x in (13, 14)]) >= 2: break
            await asyncio.sleep(0.05)
            await c.close()
            if got != [11, 13, 14]: bad['cut=%d' % cut] = {'delivered': got, 'sessions_opened': len(opened)}
        print('RESULT ' + json.dumps({'bad': bad}))
    asyncio.run(main())
    ''', timeout=60)
    if r.get('bad'):
        return {'scenario': 'serial link lost in the middle of a packet, then re-opened; two whole packets follow on the new link', 'observed': r['bad'],
                'expected': 'packet 11 from the first session, then 13 and 14 from the second (the fragment of 12 is gone with its session)'}
    return None if 'bad' in r else {'scenario': 'reconnect mid packet', 'observed': r}


def send_after_fault():
    r = run_script('''
    async def main():
        c = IO.EByteNmea2000Gateway('h', 1)
        log1, log2 = [], []
        async def fake_connect_impl():
            c.reader = FakeReader([], eof=False); c.writer = FakeWriter(log2)
        c._connect_impl = fake_connect_impl
        c.writer = FakeWriter(log1, fail_after=1); c.reader = FakeReader([], eof=False); c._state = State.CONNECTED
        await c.send(fast_message(1))                 # the second packet fails: DISCONNECTED, reconnect
        for _ in range(200):
            await asyncio.sleep(0.01)
            if c.state == State.CONNECTED: break
        st = c.state.name
        try:
            await asyncio.wait_for(c.send(fast_message(2)), 3)
            later = 'completed'
        except asyncio.TimeoutError:
            later = 'blocked for 3 s'
        await c.close()
        print('RESULT ' + json.dumps({'state_after_fault': st, 'later_send': later, 'packets_on_new_link': len([p for p in log2 if p[4] == 2])}))
    asyncio.run(main())
    ''', timeout=40)
    if r.get('later_send') != 'completed' or r.get('packets_on_new_link') != 7:
        return {'scenario': 'a write fails in the middle of a message; the client reconnects; a later send() on the new link', 'observed': r,
                'expected': 'the later send() completes and writes its 7 packets'}
    return None


def two_write_faults_in_a_row():
    r = run_script('''
    async def main():
        c = IO.EByteNmea2000Gateway('h', 1)
        trace = []
        async def scb(s): trace.append(s.name)
        c.set_status_callback(scb)
        links = []
        async def fake_connect_impl():
            log = []
            links.append(log)
            # the second link dies at its first write as well; the third one works
            c.reader = FakeReader([], eof=False); c.writer = FakeWriter(log, fail_after=0 if len(links) == 1 else None)
        c._connect_impl = fake_connect_impl
        c.writer = FakeWriter([], fail_after=0); c.reader = FakeReader([], eof=False); c._state = State.CONNECTED
        async def wait_connected():
            for _ in range(300):
                await asyncio.sleep(0.01)
                if c.state == State.CONNECTED: return
        await c.send(heading(1)); await wait_connected()        # link 0 fails -> DISCONNECTED -> link 1
        await c.send(heading(2)); await wait_connected()        # link 1 fails at once -> DISCONNECTED -> link 2
        await c.send(heading(3))
        await asyncio.sleep(0.1)
        st = c.state.name
        await c.close()
        print('RESULT ' + json.dumps({'links_opened': len(links), 'state': st, 'trace': trace, 'packets_on_last_link': len(links[-1]) if links else 0}))
    asyncio.run(main())
    ''', timeout=40)
    if r.get('links_opened') != 2 or r.get('packets_on_last_link') != 1 or r.get('state') != 'CONNECTED':
        return {'scenario': 'a write fails, the client reconnects, the first write on the new link fails as well (within a second), the gateway then accepts a third connection',
                'observed': r, 'expected': 'each failing write leads to DISCONNECTED and a reconnection: two new links are opened and the third message is written on the last one'}
    return None


def read_fails_with_value_error():
    r = run_script('''
    class OverlongLineReader:
        async def readline(self):
            await asyncio.sleep(0)
            raise ValueError('Separator is not found, and chunk exceed the limit')
    async def main():
        c = IO.YachtDevicesNmea2000Gateway('h', 1)
        trace = []
        async def scb(s): trace.append(s.name)
        c.set_status_callback(scb)
        sessions = []
        async def fake_connect_impl():
            sessions.append(1)
            c.reader = OverlongLineReader() if len(sessions) == 1 else FakeReader([], eof=False)
            c.writer = FakeWriter([])
        c._connect_impl = fake_connect_impl
        await c.connect()
        for _ in range(300):
            await asyncio.sleep(0.01)
            if len(sessions) >= 2 and c.state == State.CONNECTED: break
        out = {'sessions': len(sessions), 'state': c.state.name, 'trace': trace, 'receive_task_alive': bool(c._receive_task and not c._receive_task.done())}
        await c.close()
        print('RESULT ' + json.dumps(out))
    asyncio.run(main())
    ''', timeout=40)
    if r.get('sessions', 0) < 2 or r.get('state') != 'CONNECTED' or 'DISCONNECTED' not in r.get('trace', []):
        return {'scenario': 'a read fails with ValueError (over-long line from the gateway) on the first session', 'observed': r,
                'expected': 'DISCONNECTED is reported, the client reconnects and is CONNECTED on a second session'}
    return None


def callback_window():
    r = run_script('''
    async def main():
        enc = IO.NMEA2000Encoder()
        res = {}
        for delay in (0.05, 0.15, 0.25):
            c = IO.EByteNmea2000Gateway('h', 1)
            got = []
            async def rc(m, got=got):
                got.append(m.source)
            pk = b''.join(enc.encode_ebyte(heading(s))[0] for s in (21, 22, 23))
            pk2 = b''.join(enc.encode_ebyte(heading(s))[0] for s in (24, 25))
            c.reader = FakeReader([pk] + [None] * 40 + [pk2], eof=False); c._state = State.CONNECTED
            async def pump(c=c):
                while True: await c._receive_impl()
            t = asyncio.create_task(pump())
            await asyncio.sleep(delay)
            c.set_receive_callback(rc)
            await asyncio.sleep(1.0); t.cancel(); await c.close()
            res[str(delay)] = got
        print('RESULT ' + json.dumps({'delivered': res}))
    asyncio.run(main())
    ''', timeout=40)
    d = r.get('delivered')
    bad = d is None or any(x != sorted(set(x)) or [y for y in x if y in (24, 25)] != [24, 25] for x in d.values())
    if bad:
        return {'scenario': 'three packets arrive while no receive callback is registered, the callback is registered 50 / 150 / 250 ms later, two more packets follow',
                'observed': r, 'expected': 'whatever is delivered is delivered once and in wire order (21 < 22 < 23 < 24 < 25); 24 and 25 are delivered'}
    return None


BATTERY = {
    'C19': {'concurrent-send': [concurrent_send], 'unsendable': [unsendable], 'stale-writer': [stale_writer], 'send-after-fault': [send_after_fault, two_write_faults_in_a_row], None: [concurrent_send, unsendable, stale_writer, send_after_fault, two_write_faults_in_a_row]},
    'C14': {'close-during-connect': [close_during_connect, close_during_retry_wait], 'close-sets-closed-late': [transport_opens_during_close], 'status-trace': [status_trace], 'status-callback-raises': [status_trace],
            'close-during-_receive_loop': [fault_while_closing], 'close-during-send': [fault_while_closing],
            None: [close_during_connect, fault_while_closing, status_trace, transport_opens_during_close, close_during_retry_wait, close_during_callback]},
    'C13': {'eof': [eof_no_stall], 'reconnect-after-reset': [reconnect_after_reset], 'reconnect-mid-packet': [reconnect_mid_packet], 'fault-before-connected-reported': [fault_before_connected_reported],
            None: [eof_no_stall, close_during_connect, reconnect_after_reset, reconnect_mid_packet, read_fails_with_value_error, fault_before_connected_reported]},
    'C12': {'reconnect-mid-packet': [reconnect_mid_packet], 'callback-window': [callback_window], 'segmented-reads': [delivery_all_clients], None: [delivery_order, delivery_all_clients, serial_split_marker, reconnect_mid_packet, callback_window]},
    'C06': {'segmented-reads': [delivery_all_clients], None: [delivery_all_clients, serial_split_marker]},
    'C20': {'bound': [serial_buffer], 'split-marker': [serial_split_marker, serial_packet_end_at_read_boundary], None: [serial_buffer, serial_split_marker, serial_packet_end_at_read_boundary, delivery_all_clients]},
}


_MEMO = {}


def memo(fn):
    if fn.__name__ not in _MEMO:
        _MEMO[fn.__name__] = fn()
    return _MEMO[fn.__name__]


def replay_for(prop, scenario, model):
    small = {k: v for k, v in model.items() if v not in (0, False)}
    fns = BATTERY.get(prop, {}).get(scenario) or BATTERY.get(prop, {}).get(None, [])
    for fn in fns:
        try:
            f = memo(fn)
        except Exception:  # noqa
            import traceback
            return {'confirmed': None, 'note': 'scenario harness error: ' + traceback.format_exc()[-400:], 'solver_model': small}
        if f is not None:
            return {'confirmed': True, 'inputs': f, 'how': f'{fn.__name__}: real client class over in-memory transports on an asyncio loop (working tree)', 'solver_model': small}
    return {'confirmed': None, 'note': 'no scripted schedule reproduces the refuted obligation', 'solver_model': small}


def fallback_results(prop, scenario):
    out = []
    for fn in BATTERY.get(prop, {}).get(None, []):
        f = memo(fn)
        if f is not None:
            out.append({'obligation': f'{prop}/ioclient/bounded-fallback[{fn.__name__}]', 'kind': 'bounded', 'status': 'refuted', 'backend': 'native-scenarios', 'seconds': 0.0,
                        'model': {}, 'replay': {'confirmed': True, 'inputs': f}})
            break
    return out
