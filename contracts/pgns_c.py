"""Call-site contracts used while symbolically executing the generated module nmea2000/pgns.py, and the
expected (specification) message compiled from canboat.json."""
from __future__ import annotations
import ast
import datetime
import z3
from pyvc import values as V
from pyvc.values import Sym, vand, vor, vnot, ite, mk_bool, mk_int, mk_float, bool_term, int_term, Unsupported, veq
from pyvc.gv import GV
from pyvc.abstract import App, TableGet
from pyvc.sstr import SStr, Fmt
from pyvc.symex import Builtin, PyRaise, make_exc, EnumVal, Obj, FuncVal
from pyvc.verify import Return, Raise
from pyvc import builtins as B
from contracts.utils_c import DecodeNumber, DecodeInt
from spec import specfun as S
from spec import canboat as C

IEEE_SINGLE = z3.Function('ieee_single', z3.IntSort(), z3.RealSort())
LAU_BITS = z3.Function('lau_bits_to_skip', z3.IntSort(), z3.IntSort())

_DN = DecodeNumber()


def collect_alts(ex, alts, label):
    """Non-forking use of a contract: raise guards are collected (and assumed false on the continuing path)."""
    rets = []
    for a in alts:
        if a.guard is False:
            continue
        if a.kind == 'raise':
            if a.guard is True and not ex.guards:
                ex.ghost.setdefault('raises', []).append((label, a.exc, z3.BoolVal(True)))
                raise PyRaise(make_exc(a.exc, label))
            ex.collect_raise(a.exc, a.guard, label)
        else:
            rets.append((z3.BoolVal(True) if a.guard is True else bool_term(a.guard), a.value))
    if len(rets) == 1:
        return rets[0][1]
    return GV.make(rets)


def c_decode_number(ex, f, args, kwargs):
    if len(args) == 8:
        d, off, L, signed, res, mn, mx, offset = args
    else:
        d, off, L, signed, res, mn, mx = args
        offset = kwargs.get('offset', 0)
    ok = isinstance(L, int) and 1 <= L <= 64 and isinstance(signed, bool) and not (signed and L < 4)
    ex.oblige('requires@callsite[utils.decode_number: 1<=bit_length<=64, literal arguments]', ok)
    if not ok:
        raise Unsupported('decode_number call site outside the contract')
    alts = _DN.outcome(d, off, L, signed, res, mn, mx, offset)
    n = ex.ghost.setdefault('ncalls', [0])
    n[0] += 1
    return collect_alts(ex, alts, f'decode_number#{n[0]}')


BITS_VAR = z3.Function('bits_var', z3.IntSort(), z3.IntSort(), z3.IntSort(), z3.IntSort())


def bits_var(d, off, L):
    """bits(d, off, L) for a symbolic length L (kept uninterpreted: only equality of arguments is used)."""
    return mk_int(BITS_VAR(int_term(d), int_term(off) if isinstance(off, Sym) else z3.IntVal(off), int_term(L)))


def c_decode_int(ex, f, args, kwargs):
    d, off, L = args
    L = ex.concretize(L)
    if isinstance(L, Sym):
        if L.ty != 'int':
            raise PyRaise(make_exc('TypeError', 'unsupported operand'))
        return bits_var(d, off, L)
    if L is None or isinstance(L, float):
        raise PyRaise(make_exc('TypeError', 'unsupported operand'))
    return S.bits(d, off, L)


def single_value(bits_term):
    return mk_float(IEEE_SINGLE(int_term(bits_term)))


def c_decode_float(ex, f, args, kwargs):
    d, off, L, mn, mx = args
    v = single_value(S.bits(d, off, L))
    alts = [Raise('ValueError', guard=vor(v < mn, v > mx)), Return(v, guard=vnot(vor(v < mn, v > mx)))]
    return collect_alts(ex, alts, 'decode_float')


def c_decode_time(ex, f, args, kwargs):
    return App('decode_time', [args[0]])


def c_decode_date(ex, f, args, kwargs):
    return App('decode_date', [args[0]])


def c_decode_bit_lookup(ex, f, args, kwargs):
    return App('decode_bit_lookup', [args[0], args[1]])


def c_string_fix(ex, f, args, kwargs):
    d, off, L = args
    return App('text_fix', [S.bits(d, off, L), L])


def tail(d, off):
    return d >> off


def c_string_lz(ex, f, args, kwargs):
    d, off = args
    return App('text_lz', [tail(d, off)])


def lau_skip(t):
    return mk_int(LAU_BITS(int_term(t)))


def c_string_lau(ex, f, args, kwargs):
    d, off = args
    t = tail(d, off)
    skip = lau_skip(t)
    ex.assume(skip.t >= 0)
    return (App('text_lau', [t]), skip)


def c_int_to_bytes(ex, f, args, kwargs):
    return App('int_to_bytes', [args[0]])


def timedelta_builtin(ex, *a, **kw):
    if all(not isinstance(v, Sym) for v in list(a) + list(kw.values())):
        return datetime.timedelta(*a, **kw)
    return App('timedelta', list(a) + [kw[k] for k in sorted(kw)])


def now_builtin(ex, *a, **kw):
    n = ex.ghost.setdefault('now_calls', [0])
    n[0] += 1
    return App('now', [n[0]])


from pyvc import timeval as _tv
B.EXT_HOOKS['datetime.timedelta'] = Builtin('timedelta', _tv.timedelta)
B.EXT_HOOKS['datetime.datetime.now'] = Builtin('datetime.now', _tv.now)
B.EXT_HOOKS['datetime.datetime.strptime'] = Builtin('datetime.strptime', _tv.strptime)


def decoder_contracts():
    return {
        'nmea2000.utils.decode_number': c_decode_number,
        'nmea2000.utils.decode_int': c_decode_int,
        'nmea2000.utils.decode_float': c_decode_float,
        'nmea2000.utils.decode_time': c_decode_time,
        'nmea2000.utils.decode_date': c_decode_date,
        'nmea2000.utils.decode_bit_lookup': c_decode_bit_lookup,
        'nmea2000.utils.decode_string_fix': c_string_fix,
        'nmea2000.utils.decode_string_lz': c_string_lz,
        'nmea2000.utils.decode_string_lau': c_string_lau,
        'nmea2000.message.int_to_bytes': c_int_to_bytes,
    }


# ---------------------------------------------------------------------------------------------
# expected message from the database
# ---------------------------------------------------------------------------------------------
class ExpField:
    def __init__(self):
        self.consts = {}
        self.raw = None
        self.value = None
        self.alt_value = None      # permissive second reading (NA code inside the DB range)
        self.in_range = None       # z3 Bool: the field's raw value is inside the DB range (or NA)
        self.raise_guard = None    # canonical guard under which the canonical computation raises
        self.numeric_key = None


def numeric_expected(d, off, f: C.Field):
    """Canonical double computation of a numeric field from the database constants."""
    L = f.L
    signed = f.signed and not f.excess_k
    b = S.bits(d, off, L)
    n = ite(b >= (1 << (L - 1)), b - (1 << L), b) if signed else b
    res = f.lit(f.res)
    scaled = n * res
    if f.excess_k:
        scaled = scaled + f.lit(f.off)
    na_code = S.maxraw(L, signed)
    na = n == na_code
    rng = f.raw_range()
    na_in_range = rng is not None and rng[0] <= na_code <= rng[1]
    val = GV.make([(bool_term(na) if isinstance(na, Sym) else z3.BoolVal(na), None),
                   (z3.Not(bool_term(na)) if isinstance(na, Sym) else z3.BoolVal(not na), scaled)])
    mn, mx = f.lit(f.rmin), f.lit(f.rmax)
    if rng is None:
        in_range = True
        guard = False
    else:
        in_range = vor(na, vand(n >= rng[0], n <= rng[1]))
        # the canonical range test is the contract of decode_number applied to the database constants
        alts = _DN.outcome(d, off, L, signed, res, mn, mx, f.lit(f.off) if f.excess_k else 0)
        guard = [a.guard for a in alts if a.kind == 'raise'][0]
    return n, val, scaled, na, na_in_range, in_range, guard


def expected_fields(db, defn, d):
    """Expected NMEA2000Field constructor arguments for every supported field, in order; stops at the first
    unsupported field type."""
    out = []
    off = 0
    prev_len = 0
    raws = {}
    for idx, f in enumerate(defn.fields):
        if not f.supported:
            break
        if f.offset_bits is not None:
            off = f.offset_bits
        else:
            off = off + prev_len
        e = ExpField()
        e.consts = {'id': f.expected_id, 'name': f.name, 'description': f.description, 'unit_of_measurement': f.unit,
                    'physical_quantities': EnumVal('PhysicalQuantities', f.pq) if f.pq else None,
                    'type': EnumVal('FieldTypes', f.type), 'part_of_primary_key': f.pk}
        t = f.type
        length = f.L
        if t in C.NUMERIC or t in ('TIME', 'DATE'):
            n, val, scaled, na, na_in, in_range, guard = numeric_expected(d, off, f)
            e.raw = val
            e.in_range = in_range
            e.raise_guard = guard
            e.numeric_key = (f.L, f.signed and not f.excess_k, str(f.res), str(f.off), str(f.rmin), str(f.rmax))
            if t == 'TIME':
                e.value = App('decode_time', [val])
            elif t == 'DATE':
                e.value = App('decode_date', [val])
            else:
                e.value = val
                if na_in:
                    e.alt_value = scaled
            raws[f.order] = val
        elif t == 'LOOKUP':
            e.raw = S.bits(d, off, f.L)
            e.value = TableGet(db.lookups.get(f.lookup), e.raw, None, f.lookup)
            raws[f.order] = e.raw
        elif t == 'BITLOOKUP':
            e.raw = S.bits(d, off, f.L)
            e.value = App('decode_bit_lookup', [e.raw, db.bitlookups.get(f.bitlookup)])
        elif t == 'INDIRECT_LOOKUP':
            e.raw = S.bits(d, off, f.L)
            e.value = ('indirect', f.indirect, f.indirect_order)   # resolved below once the referenced raw is known
            raws[f.order] = e.raw
        elif t in ('RESERVED', 'SPARE'):
            e.raw = e.value = S.bits(d, off, f.L)
        elif t == 'FLOAT':
            v = single_value(S.bits(d, off, f.L))
            e.raw = e.value = v
            mn, mx = f.lit(f.rmin), f.lit(f.rmax)
            e.in_range = vand(v >= mn, v <= mx)
            e.raise_guard = vor(v < mn, v > mx)
        elif t == 'BINARY':
            if f.L is not None:
                e.raw = e.value = App('int_to_bytes', [S.bits(d, off, f.L)])
            else:
                lf = raws.get(f.length_field)
                if isinstance(lf, GV):
                    num = [v for g, v in lf.alts if v is not None]
                    e.in_range = vnot(lf.is_none())
                    e.raw = e.value = App('int_to_bytes', [bits_var(d, off, num[0])]) if num and isinstance(num[0], Sym) and num[0].ty == 'int' else ('binary-var', off, lf)
                else:
                    e.raw = e.value = ('binary-var', off, lf)
                length = None
        elif t == 'STRING_FIX':
            e.raw = e.value = App('text_fix', [S.bits(d, off, f.L), f.L])
        elif t == 'STRING_LZ':
            e.raw = e.value = App('text_lz', [tail(d, off)])
            length = ('lz', tail(d, off))
        elif t == 'STRING_LAU':
            e.raw = e.value = App('text_lau', [tail(d, off)])
            length = lau_skip(tail(d, off))
        out.append((f, e, off))
        prev_len = length
        if isinstance(prev_len, tuple) or prev_len is None:
            prev_len = UnknownLen(prev_len)
    # resolve indirect lookups
    for (f, e, off) in out:
        if isinstance(e.value, tuple) and e.value[0] == 'indirect':
            ref = raws.get(e.value[2])
            key = SStr([Fmt(ref, ''), '_', Fmt(e.raw, '')]) if isinstance(ref, Sym) or isinstance(e.raw, Sym) else f'{ref}_{e.raw}'
            e.value = TableGet(db.indirect.get(e.value[1]), key, None, e.value[1])
    return out


class UnknownLen:
    """Length of a variable-length field the specification does not pin down to a term the code shares;
    adding it to an offset yields an offset that matches nothing (any later field without BitOffset is
    then reported)."""
    def __init__(self, what):
        self.what = what

    def __radd__(self, o):
        return self

    def __add__(self, o):
        return self


# ---------------------------------------------------------------------------------------------
# generated encoders
# ---------------------------------------------------------------------------------------------
from contracts.utils_c import EncodeNumber

_EN = EncodeNumber()
LOOKUP_CODE = z3.Function('lookup_code', z3.IntSort(), z3.IntSort(), z3.IntSort())   # (table id, value id) -> code
DATE_DAYS = z3.Function('date_days', z3.IntSort(), z3.IntSort())
SINGLE_BITS = z3.Function('ieee_single_bits', z3.RealSort(), z3.IntSort())


def alts_of(v):
    if isinstance(v, GV):
        return list(v.alts)
    return [(z3.BoolVal(True), v)]


def c_encode_number(ex, f, args, kwargs):
    value, L, signed, res = args[:4]
    offset = args[4] if len(args) > 4 else kwargs.get('offset', 0)
    ok = isinstance(L, int) and 1 <= L <= 64 and isinstance(signed, bool) and not isinstance(res, Sym) and res != 0
    ex.oblige('requires@callsite[utils.encode_number: 1<=bit_length<=64, literal arguments, resolution != 0]', ok)
    if not ok:
        raise Unsupported('encode_number call site outside the contract')
    n = ex.ghost.setdefault('ncalls', [0])
    n[0] += 1
    rets = []
    for g, v in alts_of(value):
        if not (v is None or V.is_numeric(v)):
            # encode_number on a non-number: TypeError from the arithmetic
            ex.collect_raise('TypeError', g, f'encode_number#{n[0]}')
            continue
        for a in _EN.outcome(v, L, signed, res, offset):
            ga = z3.BoolVal(True) if a.guard is True else (z3.BoolVal(False) if a.guard is False else bool_term(a.guard))
            if a.kind == 'raise':
                ex.collect_raise(a.exc, z3.And(g, ga), f'encode_number#{n[0]}')
            else:
                rets.append((z3.And(g, ga), a.value))
    if not rets:
        from pyvc.symex import PathAbort
        raise PathAbort()
    return GV.make(rets)


class TableIds:
    ids = {}

    @classmethod
    def of(cls, name):
        return cls.ids.setdefault(name, len(cls.ids) + 1)


def make_lookup_encode(name):
    def call(ex, f, args, kwargs):
        # result = code of the name in the table, or Exception if the name is unknown: kept abstract
        # (the contract proved for every lookup_encode_<TABLE> by LookupEncodeTask: an absent value and a text that is no
        # name of the table raise, a name gives one of its codes)
        v = args[0]
        code = ex.fresh(f'lookup_code_{name}', 'int')
        unknown = ex.fresh(f'lookup_unknown_{name}', 'bool')
        absent = z3.Or(*[g for g, x in alts_of(v) if x is None] + [z3.BoolVal(False)])
        ex.collect_raise('Exception', z3.Or(unknown.t, absent), f'lookup_encode_{name}')
        return code
    return call


def c_encode_time(ex, f, args, kwargs):
    t, L = args
    rets = []
    for g, v in alts_of(t):
        if v is None:
            rets.append((g, (1 << L) - 1))
        else:
            rets.append((g, mk_int(z3.Function('time_seconds', z3.IntSort(), z3.IntSort())(z3.IntVal(id(v) % 1000003)))))
    return GV.make(rets)


def c_encode_date(ex, f, args, kwargs):
    rets = []
    dv = args[0]
    L = args[1] if len(args) > 1 else None
    for g, v in alts_of(dv):
        if v is None:
            if L is None:
                ex.collect_raise('TypeError', g, 'encode_date(None)')
            else:
                rets.append((g, (1 << L) - 1))
        else:
            rets.append((g, mk_int(DATE_DAYS(z3.IntVal(id(v) % 1000003)))))
    if not rets:
        from pyvc.symex import PathAbort
        raise PathAbort()
    return GV.make(rets)


def c_encode_float(ex, f, args, kwargs):
    rets = []
    for g, v in alts_of(args[0]):
        if v is None:
            ex.collect_raise('ValueError', g, 'encode_float(None)')
        else:
            r = mk_int(SINGLE_BITS(V.float_term(v)), (1 << 32) - 1)
            ex.assume(z3.And(r.t >= 0, r.t < (1 << 32)))
            rets.append((g, r))
    if not rets:
        from pyvc.symex import PathAbort
        raise PathAbort()
    return GV.make(rets)


def encoder_contracts(repo):
    c = {
        'nmea2000.utils.encode_number': c_encode_number,
        'nmea2000.utils.encode_time': c_encode_time,
        'nmea2000.utils.encode_date': c_encode_date,
        'nmea2000.utils.encode_float': c_encode_float,
    }
    mod = repo.load('pgns')
    for name in mod.functions:
        if name.startswith('lookup_encode_'):
            c[f'nmea2000.pgns.{name}'] = make_lookup_encode(name[len('lookup_encode_'):])
    return c
