"""Contracts of the arithmetic helpers in nmea2000/utils.py (C01, C02, C09, C06, C18)."""
import z3
from pyvc.verify import FunctionSpec, Return, Raise
from pyvc.values import Sym, vand, vor, vnot, ite, implies, mk_int, mk_float, mk_bool, int_term
from pyvc import values as V
from pyvc.gv import GV
from pyvc.sbytes import SBytes
from spec import specfun as S

MAX_NUM_BITS = 64
RANGE_REL_TOL = 1e-12   # the range test of decode_number tolerates binary/decimal rounding, nothing near one resolution step


class DecodeInt(FunctionSpec):
    """decode_int(d, o, L) == bits(d, o, L) for all d >= 0, o >= 0, L >= 0 (symbolic shift amounts: pow2 UF)."""
    func = 'utils.decode_int'
    prop = 'C01'

    def param_names(self):
        return ['data_raw', 'bit_offset', 'bit_length']

    def make_inputs(self, ex):
        return {'data_raw': ex.fresh('data_raw', lo=0), 'bit_offset': ex.fresh('bit_offset', lo=0),
                'bit_length': ex.fresh('bit_length', lo=0)}

    def pre(self, data_raw, bit_offset, bit_length):
        return vand(data_raw >= 0, bit_offset >= 0, bit_length >= 0)

    def outcome(self, data_raw, bit_offset, bit_length):
        return [Return(S.bits(data_raw, bit_offset, bit_length))]

    def native_samples(self, tier):
        import random
        rnd = random.Random(1)
        for _ in range(300):
            L = rnd.choice([0, 1, 2, 3, 7, 8, 16, 31, 32, 64, 200])
            yield {'data_raw': rnd.getrandbits(rnd.choice([8, 64, 300])), 'bit_offset': rnd.randrange(0, 80), 'bit_length': L}


def na_pattern(L, signed):
    """The 'not available' code of an L-bit field as decode_number tests it (after sign extension)."""
    return S.maxraw(L, signed)


class DecodeNumber(FunctionSpec):
    """decode_number for one concrete bit length (1..64), everything else symbolic."""
    func = 'utils.decode_number'
    prop = 'C01'

    def __init__(self, L=None, res_kind='float', off_kind='zero'):
        self.L = L
        self.res_kind = res_kind
        self.off_kind = off_kind

    def uses(self):
        return {'nmea2000.utils.decode_int': DecodeInt().as_callee()}

    def param_names(self):
        return ['data_raw', 'bit_offset', 'bit_length', 'signed', 'resolution', 'min_value', 'max_value', 'offset']

    def defaults(self):
        return {'offset': 0}

    def make_inputs(self, ex):
        res = ex.fresh('resolution', 'int') if self.res_kind == 'int' else ex.fresh('resolution', 'float')
        off = 0 if self.off_kind == 'zero' else ex.fresh('offset', self.off_kind)
        return {'data_raw': ex.fresh('data_raw', lo=0), 'bit_offset': ex.fresh('bit_offset', lo=0),
                'bit_length': self.L, 'signed': ex.fresh('signed', 'bool'), 'resolution': res,
                'min_value': ex.fresh('min_value', 'float'), 'max_value': ex.fresh('max_value', 'float'), 'offset': off}

    def pre(self, data_raw, bit_offset, bit_length, signed, resolution, min_value, max_value, offset=0):
        # signed fields narrower than 4 bits do not occur (the sentinel test of the code is unsigned there)
        return vand(data_raw >= 0, bit_offset >= 0, bit_length >= 1, vor(vnot(signed), bit_length >= 4))

    @staticmethod
    def value_of(data_raw, bit_offset, bit_length, signed, resolution, offset=0):
        b = S.bits(data_raw, bit_offset, bit_length)
        n = ite(vand(signed, b >= (1 << (bit_length - 1))), b - (1 << bit_length), b)
        scaled = n * resolution
        if isinstance(offset, Sym):
            scaled = ite(offset == 0, scaled, scaled + offset)
        elif offset != 0:
            scaled = scaled + offset
        return n, scaled

    def outcome(self, data_raw, bit_offset, bit_length, signed, resolution, min_value, max_value, offset=0):
        n, scaled = self.value_of(data_raw, bit_offset, bit_length, signed, resolution, offset)
        na = n == ite(signed, (1 << (bit_length - 1)) - 1, (1 << bit_length) - 1)
        out = vor(vand(scaled < min_value, vnot(V.isclose(scaled, min_value, RANGE_REL_TOL))),
                  vand(scaled > max_value, vnot(V.isclose(scaled, max_value, RANGE_REL_TOL))))
        return [Return(None, guard=na, label='not-available'),
                Raise('ValueError', guard=vand(vnot(na), out), label='out-of-range'),
                Return(scaled, guard=vand(vnot(na), vnot(out)), label='value')]

    def native_inputs(self, m):
        return {'data_raw': m['data_raw'], 'bit_offset': m['bit_offset'], 'bit_length': m.get('bit_length', self.L),
                'signed': m['signed'], 'resolution': m['resolution'], 'min_value': m['min_value'], 'max_value': m['max_value'],
                'offset': m.get('offset', 0)}

    def native_samples(self, tier):
        import random
        rnd = random.Random(2)
        for L in (1, 2, 3, 4, 7, 8, 11, 16, 24, 32, 64):
            for signed in (False, True):
                if signed and L < 4:
                    continue
                for res in (1, 0.1, 0.0001, 1e-7):
                    full = (1 << L) - 1
                    for raw in {0, 1, full, full - 1, full >> 1, (full >> 1) + 1, rnd.getrandbits(L)}:
                        off = rnd.randrange(0, 20)
                        lo = -(1 << (L - 1)) * res if signed else 0
                        hi = (((1 << (L - 1)) if signed else (1 << L)) - 2) * res
                        yield {'data_raw': (raw << off) | rnd.getrandbits(off), 'bit_offset': off, 'bit_length': L, 'signed': signed,
                               'resolution': res, 'min_value': lo, 'max_value': hi}


class EncodeNumber(FunctionSpec):
    func = 'utils.encode_number'
    prop = 'C09'

    def __init__(self, L=None, val_kind='float', res_kind='float', off_kind='zero'):
        self.L = L
        self.val_kind = val_kind
        self.res_kind = res_kind
        self.off_kind = off_kind

    def param_names(self):
        return ['value', 'bit_length', 'signed', 'resolution', 'offset']

    def defaults(self):
        return {'offset': 0}

    def make_inputs(self, ex):
        v = None if self.val_kind == 'none' else ex.fresh('value', self.val_kind)
        off = 0 if self.off_kind == 'zero' else ex.fresh('offset', self.off_kind)
        return {'value': v, 'bit_length': self.L, 'signed': ex.fresh('signed', 'bool'),
                'resolution': ex.fresh('resolution', self.res_kind), 'offset': off}

    def pre(self, value, bit_length, signed, resolution, offset=0):
        return vand(bit_length >= 1, vnot(resolution == 0))

    @staticmethod
    def scaled(value, resolution):
        q = value / resolution                       # true division: always a double
        return V.mk_int(V.F_ROUND(V.float_term(q))) if isinstance(q, Sym) else int(round(q))

    def outcome(self, value, bit_length, signed, resolution, offset=0):
        L = bit_length
        if value is None:
            if L <= 3:
                return [Return((1 << L) - 1)]
            return [Return(ite(signed, (1 << (L - 1)) - 1, (1 << L) - 1))]
        if isinstance(offset, Sym):
            value = ite(offset == 0, value, value - offset)
        elif offset != 0:
            value = value - offset
        m = self.scaled(value, resolution)
        lo = ite(signed, -(1 << (L - 1)), 0)
        hi = ite(signed, (1 << (L - 1)) - 2, (1 << L) - 2)
        ok = vand(lo <= m, m <= hi)
        return [Raise('ValueError', guard=vnot(ok), label='out-of-range'),
                Return(ite(vand(signed, m < 0), (1 << L) + m, m), guard=ok, label='code')]

    def native_inputs(self, m):
        return {'value': None if self.val_kind == 'none' else m['value'], 'bit_length': m.get('bit_length', self.L),
                'signed': m['signed'], 'resolution': m['resolution'], 'offset': m.get('offset', 0)}

    def native_samples(self, tier):
        import random
        rnd = random.Random(3)
        for L in (1, 2, 3, 4, 8, 16, 32, 64):
            for signed in (False, True):
                for res in (1, 0.1, 0.01, 1e-7):
                    top = ((1 << (L - 1)) if signed else (1 << L)) - 2
                    bot = -(1 << (L - 1)) if signed else 0
                    for raw in {bot - 1, bot, 0, 1, top, top + 1, top + 2, rnd.randrange(bot, top + 1)}:
                        for frac in (0, 0.3, 0.5, 0.6):
                            yield {'value': (raw + frac) * res, 'bit_length': L, 'signed': signed, 'resolution': res}
                    yield {'value': None, 'bit_length': L, 'signed': signed, 'resolution': res}


class TimeObj:
    """A datetime.time value: hour/minute/second symbolic."""
    pass


class EncodeTime(FunctionSpec):
    func = 'utils.encode_time'
    prop = 'C02'

    def __init__(self, none=False):
        self.none = none

    def param_names(self):
        return ['time', 'bit_length']

    def make_inputs(self, ex):
        from pyvc.symex import Obj
        if self.none:
            t = None
        else:
            t = Obj(None, {'hour': ex.fresh('hour', lo=0, hi=23), 'minute': ex.fresh('minute', lo=0, hi=59),
                           'second': ex.fresh('second', lo=0, hi=59)}, clsname='time')
        return {'time': t, 'bit_length': ex.fresh('bit_length', lo=0)}

    def pre(self, time, bit_length):
        return bit_length >= 0

    def outcome(self, time, bit_length):
        if time is None:
            return [Return((1 << bit_length) - 1)]
        h = time.attrs['hour'] if hasattr(time, 'attrs') else time.hour
        mi = time.attrs['minute'] if hasattr(time, 'attrs') else time.minute
        s = time.attrs['second'] if hasattr(time, 'attrs') else time.second
        return [Return(h * 3600 + mi * 60 + s)]

    def native_inputs(self, m):
        import datetime
        t = None if self.none else datetime.time(m['time.hour'], m['time.minute'], m['time.second'])
        return {'time': t, 'bit_length': m['bit_length']}


class Checksum(FunctionSpec):
    """calculate_canbus_checksum(data) == (sum of bytes 2..18) mod 256, for every length."""
    func = 'utils.calculate_canbus_checksum'
    prop = 'C06'

    def __init__(self, n=20, prop=None):
        self.n = n
        if prop:
            self.prop = prop

    def param_names(self):
        return ['data']

    def make_inputs(self, ex):
        return {'data': SBytes([ex.fresh(f'b{i}', bits=8) for i in range(self.n)])}

    def outcome(self, data):
        items = list(data.items) if isinstance(data, SBytes) else list(data)
        tot = 0
        for b in items[2:19]:
            tot = tot + b
        return [Return(tot % 256)]

    def native_inputs(self, m):
        return {'data': bytes(m[f'data[{i}]'] for i in range(self.n))}
