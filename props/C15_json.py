"""C15, JSON clause, the Python side of it: orjson is a C extension behind an assumed contract
(loads(dumps(x, default)) gives x back with bytes as hex text, dates/times as ISO text, durations as seconds).
What the repository code adds around it is under contract here:

  from_json(text): the message and its fields carry exactly the entries of the parsed dictionary - no entry is
                   dropped, defaulted or rewritten (for every PGN, addressing, priority and field content);
  to_json():       the dictionary handed to orjson.dumps is the message's own attribute dictionary, and the
                   `default` hook renders bytes as hex, durations as seconds and refuses everything else."""
from __future__ import annotations
import z3
from pyvc import values as V
from pyvc.values import Sym, veq, vand, mk_bool, bool_term
from pyvc.gv import GV
from pyvc.sstr import SStr, Atom
from pyvc.sbytes import SBytes
from pyvc.report import Task
from pyvc.tasks import repo, budget, result_dict, resolve_real
from pyvc.solve import Obligation, discharge
from pyvc.symex import explore, Obj, Opaque, Builtin, FuncVal, PyRaise

MSG_KEYS = ('PGN', 'id', 'description', 'ttl', 'fields', 'source', 'destination', 'priority', 'timestamp', 'source_iso_name', 'hash', 'raw_can_data')
FIELD_KEYS = ('id', 'name', 'description', 'unit_of_measurement', 'value', 'raw_value', 'physical_quantities', 'type', 'part_of_primary_key')


def same(a, b):
    if a is b:
        return True
    if isinstance(a, (Sym, int, float, bool)) and isinstance(b, (Sym, int, float, bool)):
        return veq(a, b)
    if isinstance(a, (str, SStr)) and isinstance(b, (str, SStr)):
        try:
            return SStr.eq(None, a, b)
        except V.Unsupported:
            return False
    return False


class FromJsonTask(Task):
    name = 'C15:from_json'

    def run(self, tier):
        out = {'results': [], 'functions': [], 'notes': [], 'bounded': []}
        r = repo()
        info = r.func('message.NMEA2000Message.from_json')
        if info is None:
            out['error'] = 'from_json not found'
            return out
        out['functions'].append(info.describe())
        base = 'C15/message.NMEA2000Message.from_json'

        def run(ex):
            g = ex.ghost

            def fdict(i):
                none = z3.Bool(f'field{i}.value.none')
                val = GV.make([(none, None), (z3.Not(none), ex.fresh(f'field{i}.value', bits=64))])
                rnone = z3.Bool(f'field{i}.raw.none')
                raw = GV.make([(rnone, None), (z3.Not(rnone), ex.fresh(f'field{i}.raw', bits=64))])
                pk = GV.make([(z3.Bool(f'field{i}.pk.none'), None), (z3.Not(z3.Bool(f'field{i}.pk.none')), mk_bool(z3.Bool(f'field{i}.pk')))])
                return {'id': SStr([Atom(f'field{i}.id')]), 'name': SStr([Atom(f'field{i}.name')]), 'description': Opaque(f'field{i}.description'),
                        'unit_of_measurement': Opaque(f'field{i}.unit'), 'value': val, 'raw_value': raw, 'physical_quantities': Opaque(f'field{i}.pq'),
                        'type': Opaque(f'field{i}.type'), 'part_of_primary_key': pk}
            nf = ex.choose(3, 'field-count')
            fds = [fdict(i) for i in range(nf)]
            d = {'PGN': ex.fresh('PGN', bits=18), 'id': SStr([Atom('id')]), 'description': SStr([Atom('description')]), 'ttl': Opaque('ttl'), 'fields': fds,
                 'source': ex.fresh('source', bits=8), 'destination': ex.fresh('destination', bits=8), 'priority': ex.fresh('priority', bits=3),
                 'timestamp': Opaque('timestamp'), 'source_iso_name': None, 'hash': GV.make([(z3.Bool('hash.none'), None), (z3.Not(z3.Bool('hash.none')), SStr([Atom('hash')]))]),
                 'raw_can_data': Opaque('raw_can_data')}
            g['parsed'] = {k: v for k, v in d.items()}
            g['parsed_fields'] = [dict(f) for f in fds]
            g['text'] = Opaque('json text')

            def loads(ex, text, *a, **k):
                g.setdefault('loads', []).append(text)
                return d
            ex.ghost[('global', 'message', 'orjson')] = Obj(None, {'loads': Builtin('orjson.loads', loads)}, clsname='module')
            return ex._run_body(info, [g['text']], {}, None)
        try:
            results = explore(r, run)
        except V.Unsupported as u:
            out['error'] = f'from_json: outside the modelled subset: {u}'
            rp = replay_json({})
            if rp.get('confirmed'):
                out['results'].append({'obligation': f'{base}/bounded-fallback', 'kind': 'bounded', 'status': 'refuted', 'backend': 'native-contract', 'seconds': 0.0, 'model': {}, 'replay': rp})
            return out
        obs = []
        for pi, p in enumerate(results):
            g = p.ex.ghost
            hyps = list(p.pc)
            inputs = {'PGN': g['parsed']['PGN'].t, 'source': g['parsed']['source'].t, 'destination': g['parsed']['destination'].t, 'priority': g['parsed']['priority'].t}

            def add(name, goal, note=''):
                gl = goal if isinstance(goal, z3.ExprRef) else (z3.BoolVal(goal) if isinstance(goal, bool) else bool_term(goal))
                obs.append(Obligation(f'{base}/{name}/path[{pi}]', hyps, gl, kind='ensures', func=info.fullname, inputs=inputs, meta={'note': note}))
            if p.kind == 'raise':
                add('no-exception-on-a-dumped-message', False, f'raises {p.exc_name()}')
                continue
            m = p.value
            add('parses-the-text-given', g.get('loads') == [g['text']], f'loads called with {g.get("loads")}')
            if not isinstance(m, Obj) or m.clsname != 'NMEA2000Message':
                add('returns-a-message', False, f'{m!r}')
                continue
            for k in MSG_KEYS:
                if k == 'fields':
                    continue
                add(f'message.{k}-is-the-parsed-entry', same(m.attrs.get(k), g['parsed'][k]), f'{k}: {m.attrs.get(k)!r} instead of {g["parsed"][k]!r}')
            fs = m.attrs.get('fields')
            ok = isinstance(fs, list) and len(fs) == len(g['parsed_fields']) and all(isinstance(f, Obj) and f.clsname == 'NMEA2000Field' for f in fs)
            add('one-field-object-per-parsed-field', ok, f'{fs!r}')
            if ok:
                for i, (f, want) in enumerate(zip(fs, g['parsed_fields'])):
                    for k in FIELD_KEYS:
                        add(f'field{i}.{k}-is-the-parsed-entry', same(f.attrs.get(k), want[k]), f'{f.attrs.get(k)!r} instead of {want[k]!r}')
        for ob in obs:
            res = discharge(ob, budget(tier))
            dct = result_dict(res, with_size=False)
            dct['function'] = info.fullname
            if res.status == 'refuted':
                dct['reason'] = ob.meta.get('note', '')
                dct['replay'] = replay_json(res.model or {})
            out['results'].append(dct)
        return out


def replay_json(model):
    """from_json(to_json(m)) on the working tree for messages with the counterexample's addressing (and a boundary grid)."""
    import datetime
    from nmea2000.message import NMEA2000Message, NMEA2000Field
    grid = [(model.get('PGN', 127250), model.get('source', 7), model.get('destination', 255), model.get('priority', 3))]
    grid += [(p, s, d, pr) for p in (0, 59904, 127250) for s in (0, 1, 255) for d in (0, 1, 35, 255) for pr in (0, 3, 7)]
    for (pgn, src, dst, prio) in grid:
        for fvals in ([(0, 0)], [(None, None), (5, 5)], [(1.5, 15), (0, 0), ('x', 'x')], []):
            fs = [NMEA2000Field(id=f'f{i}', name=f'n{i}', value=v, raw_value=rv, part_of_primary_key=(i == 0)) for i, (v, rv) in enumerate(fvals)]
            m = NMEA2000Message(PGN=pgn, id='someId', description='d', fields=fs, source=src, destination=dst, priority=prio, timestamp=datetime.datetime(2020, 1, 2, 3, 4, 5), hash=None)
            try:
                m2 = NMEA2000Message.from_json(m.to_json())
            except Exception as e:  # noqa
                return {'confirmed': True, 'inputs': {'PGN': pgn, 'source': src, 'destination': dst, 'priority': prio}, 'observed': f'{type(e).__name__}: {e}', 'how': 'from_json(to_json(m)) on the working tree'}
            a = (m2.PGN, m2.id, m2.description, m2.source, m2.destination, m2.priority, m2.hash, [(f.id, f.name, f.value, f.raw_value, f.part_of_primary_key) for f in m2.fields])
            b = (m.PGN, m.id, m.description, m.source, m.destination, m.priority, m.hash, [(f.id, f.name, f.value, f.raw_value, f.part_of_primary_key) for f in m.fields])
            if a != b:
                return {'confirmed': True, 'inputs': {'PGN': pgn, 'source': src, 'destination': dst, 'priority': prio, 'fields': [list(x) for x in fvals]}, 'observed': str(a)[:300], 'expected': str(b)[:300],
                        'how': 'from_json(to_json(m)) on the working tree'}
    return {'confirmed': False, 'inputs': model, 'how': 'from_json(to_json(m)) on the working tree: no difference on the counterexample addressing and the boundary grid'}


class ToJsonTask(Task):
    name = 'C15:to_json'

    def run(self, tier):
        out = {'results': [], 'functions': [], 'notes': [], 'bounded': []}
        r = repo()
        info = r.func('message.NMEA2000Message.to_json')
        if info is None:
            out['error'] = 'to_json not found'
            return out
        out['functions'].append(info.describe())
        base = 'C15/message.NMEA2000Message.to_json'

        def run(ex):
            g = ex.ghost
            attrs = {k: Opaque(f'msg.{k}') for k in MSG_KEYS}
            msg = Obj(r.cls('message', 'NMEA2000Message'), attrs)
            g['msg'], g['attrs0'] = msg, dict(attrs)

            def dumps(ex, obj, *a, **k):
                g.setdefault('dumps', []).append((obj, a, k))
                return SBytes([ex.fresh(f'json[{i}]', bits=8) for i in range(2)]) if False else EncodedOut()
            ex.ghost[('global', 'message', 'orjson')] = Obj(None, {'dumps': Builtin('orjson.dumps', dumps)}, clsname='module')
            return ex._run_body(info, [], {}, msg)
        try:
            results = explore(r, run)
        except V.Unsupported as u:
            out['error'] = f'to_json: outside the modelled subset: {u}'
            return out
        obs = []
        for pi, p in enumerate(results):
            g = p.ex.ghost

            def add(name, goal, note=''):
                obs.append(Obligation(f'{base}/{name}/path[{pi}]', list(p.pc), z3.BoolVal(bool(goal)), kind='ensures', func=info.fullname, inputs={}, meta={'note': note}))
            if p.kind == 'raise':
                add('no-exception', False, f'raises {p.exc_name()}')
                continue
            calls = g.get('dumps', [])
            add('dumps-called-once', len(calls) == 1, f'{len(calls)} calls')
            if len(calls) != 1:
                continue
            obj, a, k = calls[0]
            add('serialises-all-attributes-of-the-message-unchanged', isinstance(obj, dict) and set(obj) == set(MSG_KEYS) and all(obj[x] is g['attrs0'][x] for x in MSG_KEYS),
                f'{sorted(obj) if isinstance(obj, dict) else obj!r}')
            add('message-not-modified', all(g['msg'].attrs.get(x) is g['attrs0'][x] for x in MSG_KEYS) and set(g['msg'].attrs) == set(MSG_KEYS))
            add('result-is-the-decoded-text-of-dumps', isinstance(p.value, Opaque) and p.value.name == 'text-of-dumps', f'{p.value!r}')
            dflt = k.get('default')
            add('default-hook-given', isinstance(dflt, FuncVal), f'{dflt!r}')
            if isinstance(dflt, FuncVal):
                # the hook: bytes -> hex text, timedelta -> seconds, anything else -> TypeError
                def call(v):
                    res = explore(r, lambda ex2: ex2.call(dflt, [v], {}, None))
                    return res
                hb = call(SBytes([0x01, 0xAB]))
                add('default-renders-bytes-as-hex', len(hb) == 1 and hb[0].kind == 'return' and hb[0].value == '01ab', f'{[(x.kind, x.value) for x in hb]}')
                ho = call(Opaque('object'))
                add('default-refuses-other-objects', len(ho) >= 1 and all(x.kind == 'raise' and x.exc_name() == 'TypeError' for x in ho), f'{[(x.kind, x.value) for x in ho]}')
        for ob in obs:
            res = discharge(ob, budget(tier))
            dct = result_dict(res, with_size=False)
            dct['function'] = info.fullname
            if res.status == 'refuted':
                dct['reason'] = ob.meta.get('note', '')
                dct['replay'] = replay_json({})
            out['results'].append(dct)
        return out


class EncodedOut:
    """bytes returned by orjson.dumps: only .decode() is used."""
    ALWAYS_TRUE = True        # a Python object of this kind is truthy (no __bool__ / __len__)
    def sym_method(self, ex, name):
        from pyvc.symex import BoundBuiltin
        if name == 'decode':
            return BoundBuiltin('bytes.decode', lambda ex, me, *a, **k: Opaque('text-of-dumps'), self)
        return None
