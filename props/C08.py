"""C08  Proprietary PGN definitions are selected exactly by their match fields."""
from __future__ import annotations
import time
import z3
from pyvc import values as V
from pyvc.values import Sym, bool_term, vand, vnot
from pyvc.abstract import App
from pyvc.report import PropertyRun, Task
from pyvc.tasks import repo, budget, result_dict
from pyvc.solve import Obligation, discharge
from pyvc.symex import explore, FuncVal
from spec import canboat as C
from spec import specfun as S
from props.C01 import db, term


def match_term(defn, d):
    cs = [S.bits(d, f.offset_bits, f.L) == int(f.match) for f in defn.match_fields]
    return vand(*cs) if cs else True


class DispatcherTask(Task):
    def __init__(self, pgn, group, prop='C08'):
        self.pgn = pgn
        self.group = group
        self.prop = prop
        self.name = f'{prop}:decode_pgn_{pgn}'

    def run(self, tier):
        out = {'results': [], 'functions': [], 'notes': [], 'bounded': []}
        r = repo()
        fname = f'decode_pgn_{self.pgn}'
        info = r.func('pgns.' + fname)
        base = f'{self.prop}/pgns.{fname}'
        if info is None:
            out['results'].append({'obligation': f'{base}/exists', 'kind': 'ensures', 'status': 'refuted', 'backend': 'frontend', 'seconds': 0.0,
                                   'reason': 'no dispatcher', 'replay': {'confirmed': True, 'observed': f'no {fname}'}})
            return out
        dterm = z3.Int('payload')
        group = self.group
        names = {f'nmea2000.pgns.decode_pgn_{d.suffix}': d for d in group}

        def callee(defn):
            def call(ex, f, args, kwargs):
                same = len(args) == 1 and isinstance(args[0], Sym) and z3.eq(args[0].t, dterm)
                ex.oblige(f'callee[{defn.id}]-receives-the-payload-unchanged', same)
                return App('decoded-by', [defn.id])
            return call
        contracts = {n: callee(d) for n, d in names.items()}
        # any other generated decoder (of another PGN) is a callee too: reaching it is never what the dispatch specification says

        def foreign(fn_name):
            def call(ex, f, args, kwargs):
                return App('decoded-by', [f'<{fn_name} of another PGN>'])
            return call
        for fn_name in r.load('pgns').functions:
            full = f'nmea2000.pgns.{fn_name}'
            if fn_name.startswith('decode_pgn_') and fn_name != fname and full not in contracts:
                contracts[full] = foreign(fn_name)

        def run(ex):
            d = V.mk_int(dterm)
            ex.assume(dterm >= 0)
            return ex._run_body(info, [d], {}, None)
        t0 = time.time()
        try:
            results = explore(r, run, contracts=contracts, inline=())
        except V.Unsupported as u:
            out['error'] = f'{fname}: outside the modelled subset: {u}'
            # bounded fall-back: every definition's match values with an all-zero, an all-ones and random remaining bits
            import random
            rnd = random.Random(self.pgn)
            tried = 0
            for dfn in group:
                base_p = 0
                mask = 0
                for f in dfn.match_fields:
                    base_p |= int(f.match) << f.offset_bits
                    mask |= ((1 << f.L) - 1) << f.offset_bits
                for tail in [0, (1 << 223 * 8) - 1] + [rnd.getrandbits(rnd.choice((64, 80, 128, 400))) for _ in range(6)]:
                    payload = base_p | (tail & ~mask)
                    tried += 1
                    rp = replay(self.pgn, payload)
                    if rp.get('confirmed'):
                        out['results'].append({'obligation': f'{base}/bounded-fallback', 'kind': 'bounded', 'status': 'refuted', 'backend': 'native-contract', 'seconds': 0.0,
                                               'model': {'payload': payload}, 'replay': rp, 'function': f'pgns.{fname}'})
                        break
                else:
                    continue
                break
            out['bounded'].append({'function': f'pgns.{fname}', 'kind': 'native dispatch comparison (function outside subset)', 'inputs_tried': tried, 'label': 'bounded'})
            return out
        fd = info.describe()
        fd['paths'] = len(results)
        fd['symex_seconds'] = round(time.time() - t0, 3)
        out['functions'].append(fd)
        d = V.mk_int(dterm)
        nonfb = [x for x in group if not x.fallback]
        fb = next((x for x in group if x.fallback), None)
        obs = []
        inputs = {'payload': dterm}
        for pi, p in enumerate(results):
            hyps = list(p.pc)
            for (oname, cond, pc_snap) in p.ex.obligations:
                obs.append(Obligation(f'{base}/{oname}/path[{pi}]', pc_snap, cond, kind='requires@callsite', inputs=inputs))
            if p.kind == 'raise':
                obs.append(Obligation(f'{base}/no-raise/path[{pi}]', hyps, z3.BoolVal(False), inputs=inputs, meta={'note': f'dispatcher raises {p.exc_name()}'}))
                continue
            v = p.value
            chosen = v.args[0] if isinstance(v, App) and v.fn == 'decoded-by' else None
            if chosen is None and v is not None:
                obs.append(Obligation(f'{base}/returns-a-definition-or-None/path[{pi}]', hyps, z3.BoolVal(False), inputs=inputs))
                continue
            # specification: the selected definition
            if chosen is None:
                goal = vand(*[vnot(match_term(x, d)) for x in nonfb]) if fb is None else False
                what = 'None'
            else:
                dk = next((x for x in group if x.id == chosen), None)
                if dk is None:
                    goal = False            # a decoder of another PGN: never what the dispatch specification selects
                elif dk.fallback:
                    goal = vand(*[vnot(match_term(x, d)) for x in nonfb])
                else:
                    k = nonfb.index(dk)
                    goal = vand(match_term(dk, d), *[vnot(match_term(x, d)) for x in nonfb[:k]])
                what = chosen
            obs.append(Obligation(f'{base}/selects[{what}]-only-when-the-database-dispatch-does/path[{pi}]', hyps, term(goal), inputs=inputs,
                                  meta={'note': f'dispatcher returns {what}'}))
        for ob in obs:
            res = discharge(ob, budget(tier))
            dct = result_dict(res, with_size=False)
            dct['function'] = f'pgns.{fname}'
            if res.status == 'refuted':
                dct['reason'] = ob.meta.get('note', '')
                dct['replay'] = replay(self.pgn, (res.model or {}).get('payload', 0))
            out['results'].append(dct)
        return out


def replay(pgn, payload):
    import nmea2000.pgns as P
    fn = getattr(P, f'decode_pgn_{pgn}')
    try:
        m = fn(payload)
        got = None if m is None else m.id
        kind = 'return'
    except Exception as e:  # noqa
        # a sub-decoder may reject the payload (range check): find out which one was selected from the traceback
        import traceback
        tb = traceback.extract_tb(e.__traceback__)
        sel = [fr.name for fr in tb if fr.name.startswith(f'decode_pgn_{pgn}_')]
        got = sel[0][len(f'decode_pgn_{pgn}_'):] if sel else f'raise {type(e).__name__}'
        kind = 'raise-inside-selected-definition' if sel else 'raise'
    exp = db().dispatch(pgn, lambda o, L: (payload >> o) & ((1 << L) - 1))
    exp_id = None if exp is None else exp.id
    return {'confirmed': got != exp_id, 'inputs': {'payload': payload, 'payload_hex_le': payload.to_bytes(max(1, (payload.bit_length() + 7) // 8), 'little').hex()},
            'observed': {'selected': got, 'via': kind}, 'expected': {'selected': exp_id},
            'how': f'nmea2000.pgns.decode_pgn_{pgn}(payload) on the working tree vs first-match dispatch over canboat.json'}


def main(tier):
    run = PropertyRun('C08', tier, level='proof')
    repo().load('pgns')
    for pgn, g in db().multi_groups():
        run.add(DispatcherTask(pgn, g))
    from props import C08_extra
    C08_extra.add(run, tier)
    run.extra_cov['exhaustive'] = True
    run.extra_cov['exhaustive_note'] = 'every feasible path of every dispatcher if-chain is enumerated by the symbolic executor; payload bits are symbolic'
    run.trust('pyvc path enumeration of the if-chains (short-circuit and/or), cross-checked by ./check selftest', 'spec/canboat.py dispatch order (database order, Match, Fallback)', 'z3 5.1')
    run.assume('static name resolution in nmea2000.pgns (last definition wins)', 'the per-definition decoders themselves are C01')
    return run.execute()
