"""C03  Fast-packet segmentation and reassembly are inverse for every payload length."""
from __future__ import annotations
import time
import z3
from pyvc import values as V
from pyvc.values import Sym, bool_term, vand, veq, mk_int
from pyvc.sbytes import SBytes
from pyvc.report import PropertyRun, Task
from pyvc.tasks import repo, budget, result_dict, resolve_real
from pyvc.solve import Obligation, discharge
from pyvc.symex import explore, built_instance, Obj
from spec import specfun as S
from props.C01 import term, chunks


class EncodeFastTask(Task):
    """_encode_fast_message for a range of payload lengths (bytes and counter symbolic)."""
    def __init__(self, lengths, prop='C03'):
        self.lengths = lengths
        self.prop = prop
        self.name = f'{prop}:_encode_fast_message[n={lengths[0]}..{lengths[-1]}]'

    def run(self, tier):
        out = {'results': [], 'functions': [], 'notes': [], 'bounded': []}
        r = repo()
        info = r.func('encoder.NMEA2000Encoder._encode_fast_message')
        if info is None:
            out['error'] = '_encode_fast_message not found'
            return out
        fd = info.describe()
        out['functions'].append(fd)
        for n in self.lengths:
            try:
                self.one(r, info, n, tier, out)
            except V.Unsupported as u:
                out['error'] = f'_encode_fast_message: outside the modelled subset: {u}'
                from props.C03_fallback import encode_fallback
                out['results'].extend([dict(x, obligation=x['obligation'].replace('C03/', self.prop + '/', 1)) for x in encode_fallback(n)])
        return out

    def one(self, r, info, n, tier, out):
        base = f'{self.prop}/encoder.NMEA2000Encoder._encode_fast_message[n={n}]'
        st = z3.Int('seq')
        bts = [z3.Int(f'p{i}') for i in range(n)]
        inputs = {'seq': st}
        inputs.update({f'p{i}': b for i, b in enumerate(bts)})
        holder = {}

        def run(ex):
            ex.assume(z3.And(st >= 0, st <= 7))
            for b in bts:
                ex.assume(z3.And(b >= 0, b <= 255))
            enc = built_instance(ex, r.cls('encoder', 'NMEA2000Encoder'), {'sequence_counter': mk_int(st, 7)})
            ex.ghost['final_enc'] = enc
            ex.ghost['enc_before'] = dict(enc.attrs)
            payload = SBytes([mk_int(b, 255) for b in bts])
            pgn = ex.fresh('pgn', bits=18)
            return ex._run_body(info, [pgn, ex.fresh('priority', bits=3), ex.fresh('src', bits=8), ex.fresh('dest', bits=8), payload], {}, enc)
        results = explore(r, run)
        obs = []
        s = mk_int(st, 7)
        P = [mk_int(b, 255) for b in bts]
        want = S.frames(P, s)
        for pi, p in enumerate(results):
            hyps = list(p.pc)
            if p.kind == 'raise':
                obs.append(Obligation(f'{base}/no-exception/path[{pi}]', hyps, z3.BoolVal(False), inputs=inputs, meta={'note': f'raises {p.exc_name()}'}))
                continue
            got = p.value
            ok_shape = isinstance(got, list) and len(got) == len(want) and all(isinstance(g, (SBytes, bytes)) and len(g) == len(w) for g, w in zip(got, want))
            obs.append(Obligation(f'{base}/frame-count-and-sizes/path[{pi}]', hyps, z3.BoolVal(bool(ok_shape)), inputs=inputs,
                                  meta={'note': f'{len(got) if isinstance(got, list) else "?"} frames of sizes {[len(g) for g in got] if isinstance(got, list) else "?"}; specification: {len(want)} frames of sizes {[len(w) for w in want]}'}))
            if ok_shape:
                eqs = []
                for g, w in zip(got, want):
                    for a, b in zip(SBytes.of(g).items, w):
                        eqs.append(term(a == b) if isinstance(a == b, (Sym, bool)) else z3.BoolVal(bool(a == b)))
                obs.append(Obligation(f'{base}/frames-are-counter-length-chunks/path[{pi}]', hyps, z3.And(*eqs) if eqs else z3.BoolVal(True), inputs=inputs))
                obs.append(Obligation(f'{base}/every-frame-at-most-8-bytes/path[{pi}]', hyps, z3.BoolVal(all(len(g) <= 8 for g in got)), inputs=inputs))
            # ownership: the list handed to the caller is the caller's (a later call must not be able to rewrite it)
            kept = 'final_enc' in p.ex.ghost and any(v is got for v in p.ex.ghost['final_enc'].attrs.values())
            obs.append(Obligation(f'{base}/returned-list-is-not-kept-by-the-encoder/path[{pi}]', hyps, z3.BoolVal(isinstance(got, list) and not kept), inputs=inputs,
                                  meta={'note': 'the returned frame list is (or comes from) an attribute of the encoder: the next call rewrites what the previous caller still holds', 'ownership': True}))
            obs.append(Obligation(f'{base}/sequence-counter-advances-mod-8/path[{pi}]', hyps,
                                  term(p.ex.ghost['final_enc'].attrs['sequence_counter'] == (s + 1) % 8) if 'final_enc' in p.ex.ghost else z3.BoolVal(False), inputs=inputs))
            obs.append(Obligation(f'{base}/assigns-only-sequence_counter/path[{pi}]', hyps,
                                  z3.BoolVal('final_enc' in p.ex.ghost and set(p.ex.ghost['final_enc'].attrs) == set(p.ex.ghost['enc_before'])
                                             and all(v is p.ex.ghost['enc_before'][a] for a, v in p.ex.ghost['final_enc'].attrs.items() if a != 'sequence_counter')), inputs=inputs))
        for ob in obs:
            res = discharge(ob, budget(tier))
            dct = result_dict(res, with_size=False)
            dct['function'] = 'encoder.NMEA2000Encoder._encode_fast_message'
            if res.status == 'refuted':
                dct['reason'] = ob.meta.get('note', '')
                dct['replay'] = replay_encode(n, res.model or {})
            out['results'].append(dct)


def replay_encode(n, model):
    import nmea2000.encoder as E
    enc = E.NMEA2000Encoder()
    s = int(model.get('seq', 0)) % 8
    enc.sequence_counter = s
    P = bytes((int(model.get(f'p{i}', 0)) % 256) for i in range(n))
    try:
        got = enc._encode_fast_message(126720, 3, 1, 255, P)
    except Exception as e:  # noqa
        return {'confirmed': True, 'inputs': {'n': n, 'seq': s, 'payload': P.hex()}, 'observed': ['raise', type(e).__name__, str(e)]}
    want = [bytes(f) for f in S.frames(list(P), s)]
    first = [bytes(g) for g in got]
    try:
        again = enc._encode_fast_message(126720, 3, 1, 255, bytes(b ^ 0xFF for b in P) + b'\x01')
    except Exception:  # noqa
        again = None
    if again is got or [bytes(g) for g in got] != first:
        return {'confirmed': True, 'inputs': {'n': n, 'seq': s, 'payload': P.hex()}, 'observed': {'first result before the second call': [f.hex() for f in first], 'after': [bytes(g).hex() for g in got]},
                'expected': 'the list returned by the first call is unchanged by the second call', 'how': 'two consecutive calls of NMEA2000Encoder._encode_fast_message on one encoder (working tree)'}
    # the same payload once more: a new message with the next counter (nothing is remembered from the first transmission)
    try:
        third = [bytes(g) for g in enc._encode_fast_message(126720, 3, 1, 255, P)]
    except Exception as e:  # noqa
        third = ['raise ' + type(e).__name__]
    want3 = [bytes(f) for f in S.frames(list(P), (s + 2) % 8)]
    if first == want and third != want3:
        return {'confirmed': True, 'inputs': {'n': n, 'seq': s, 'payload': P.hex()}, 'observed': {'third call (same payload as the first)': [f.hex() if isinstance(f, bytes) else f for f in third], 'counter': enc.sequence_counter},
                'expected': {'frames': [w.hex() for w in want3], 'counter': (s + 3) % 8}, 'how': 'three consecutive calls of NMEA2000Encoder._encode_fast_message on one encoder, the third with the payload of the first (working tree)'}
    bad = first != want or enc.sequence_counter != (s + 3) % 8
    return {'confirmed': bad, 'inputs': {'n': n, 'seq': s, 'payload': P.hex()}, 'observed': {'frames': [f.hex() for f in first], 'counter_after_three_calls': enc.sequence_counter},
            'expected': {'frames': [w.hex() for w in want], 'counter_after_three_calls': (s + 3) % 8}, 'how': 'NMEA2000Encoder._encode_fast_message on the working tree'}


def main(tier):
    run = PropertyRun('C03', tier, level='proof')
    for ch in chunks(list(range(0, 224)), 32):
        run.add(EncodeFastTask(ch))
    from props import C03_extra
    C03_extra.add(run, tier)
    run.extra_cov['exhaustive'] = True
    run.extra_cov['exhaustive_note'] = 'payload lengths 0..223 are enumerated completely (the protocol range); payload bytes and the 3-bit counter are symbolic'
    run.trust('pyvc semantics of bytes slicing, range loops, list append', 'z3 5.1')
    run.assume('payload length <= 223 (the fast-packet maximum); the loop is unrolled for each concrete length (complete for that length)')
    return run.execute()
