"""C05  CAN identifier packing and parsing are mutually inverse (PDU1/PDU2 aware)."""
import z3
from pyvc.report import PropertyRun
from pyvc.tasks import SpecTask, LemmaTask, resolve_real
from pyvc.solve import Obligation
from pyvc.values import fresh_int, bool_term, vand, veq, implies, ite
from contracts.headers import ExtractHeader, BuildHeader
from contracts import wire
from spec import specfun as S


def lemmas(tier):
    out = []
    # (a) extract(build(..)) gives the header back, for every priority, source, destination, canonical PGN
    pgn, c1 = fresh_int('pgn', bits=18)
    src, c2 = fresh_int('src', bits=8)
    dst, c3 = fresh_int('dst', bits=8)
    prio, c4 = fresh_int('prio', bits=3)
    hyps = c1 + c2 + c3 + c4
    can = S.canonical_pgn(pgn)
    cid = S.build(pgn, src, dst, prio)
    epgn, esrc, edst, eprio = S.extract(cid)
    pdu1 = S.bits(pgn, 8, 8) < 240
    goal = vand(epgn == pgn, esrc == src, eprio == prio, edst == ite(pdu1, dst, 255), cid >= 0, cid < (1 << 29))
    inputs = {'pgn': pgn.t, 'src': src.t, 'dst': dst.t, 'prio': prio.t}

    def replay_a(m):
        build = resolve_real('encoder.NMEA2000Encoder._build_header')
        extract = resolve_real('decoder.NMEA2000Decoder._extract_header')
        cid = build(m['pgn'], m['src'], m['dst'], m['prio'])
        got = extract(cid)
        pdu1 = ((m['pgn'] >> 8) & 0xFF) < 240
        exp = (m['pgn'], m['src'], m['dst'] if pdu1 else 255, m['prio'])
        return {'confirmed': tuple(got) != exp or not (0 <= cid < 2 ** 29), 'inputs': m, 'observed': {'id': cid, 'parsed': list(got)}, 'expected': list(exp),
                'how': '_extract_header(_build_header(pgn, src, dst, prio)) on the working tree'}
    out.append((Obligation('C05/lemma/extract-of-build', hyps + [bool_term(can)], bool_term(goal), kind='lemma', inputs=inputs), replay_a))
    # (b) every 29-bit identifier is rebuilt from what it parses to
    cid2, c5 = fresh_int('can_id', bits=29)
    p2, s2, d2, pr2 = S.extract(cid2)
    goal_b = vand(S.build(p2, s2, d2, pr2) == cid2, S.canonical_pgn(p2), pr2 >= 0, pr2 <= 7, s2 >= 0, s2 <= 255, d2 >= 0, d2 <= 255)

    def replay_b(m):
        build = resolve_real('encoder.NMEA2000Encoder._build_header')
        extract = resolve_real('decoder.NMEA2000Decoder._extract_header')
        p, s, d, pr = extract(m['can_id'])
        back = build(p, s, d, pr)
        return {'confirmed': back != m['can_id'], 'inputs': m, 'observed': {'parsed': [p, s, d, pr], 'rebuilt': back}, 'expected': m['can_id'],
                'how': '_build_header(*_extract_header(id)) on the working tree'}
    out.append((Obligation('C05/lemma/build-of-extract', c5, bool_term(goal_b), kind='lemma', inputs={'can_id': cid2.t}), replay_b))
    # (b') injectivity: two different identifiers never parse to the same header
    cid3, c6 = fresh_int('can_id_2', bits=29)
    same = veq(S.extract(cid2), S.extract(cid3))
    out.append((Obligation('C05/lemma/extract-injective', c5 + c6 + [bool_term(same)], bool_term(cid2 == cid3), kind='lemma',
                           inputs={'can_id': cid2.t, 'can_id_2': cid3.t}), None))
    return out


def main(tier):
    run = PropertyRun('C05', tier, level='proof')
    run.add(SpecTask(ExtractHeader()), SpecTask(BuildHeader()), LemmaTask('C05:lemmas', lemmas))
    wire.add_c05_tasks(run)
    # the header a reassembled message reports is the header parsed from the identifier of the frame that completes it: the
    # delivery clause of the reassembly transition contract (also part of C04)
    from props.C04 import TransitionTask
    for m in range(0, 9):
        run.add(TransitionTask(m, prop='C05'))
    # ... and the source address a decoded message reports (and under which its identity is filed) is the one parsed from the
    # identifier: the claim-handling contract of _call_decode_function (also part of C11)
    from contracts.decoder_c import DecodeTask
    for combined in (True, False):
        run.add(DecodeTask('C05', combined, True))
    run.trust('pyvc encoding of Python int semantics (unbounded ints; >>, <<, & as floor div / mul / mod), cross-checked by ./check selftest',
              'z3 5.1 (python API); cvc5 1.0.3 / z3 4.8.12 CLI only on unknown',
              'contracts/headers.py + spec/specfun.py (extract/build layout taken from the property statement)')
    run.assume('callers pass ints (no floats/None) for identifier, PGN, source, destination, priority',
               '_build_header precondition: 0<=priority<=7, 0<=source<=255, 0<=destination<=255, 0<=PGN<2^18 (the first, second and fourth are checked by _encode; the destination range is the public precondition)')
    return run.execute()
