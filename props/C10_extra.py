from contracts.decoder_c import init_tasks


def add(run, tier):
    for t in init_tasks('C10'):
        run.add(t)
    run.assume('the constructor is checked for argument lists of at most two entries (loops unrolled: bounded in the list length, entries symbolic)')
