from contracts.encoder_c import CallEncodeTask, EncodeTask


def add(run, tier):
    run.add(CallEncodeTask('C09'), EncodeTask('C09'))
