from contracts.encoder_c import CallEncodeTask, EncodeTask


def add(run, tier):
    run.add(CallEncodeTask('C09'), EncodeTask('C09'))
    for n in (0, 3, 8):
        run.add(EncodeTask('C09', payload_len=n))
