"""C04  Fast-packet reassembly is exact under interleaving, reordering, duplication and loss."""
from __future__ import annotations
import time
import z3
from pyvc import values as V
from pyvc.values import Sym, bool_term, vand, vor, vnot, veq, mk_int, mk_bool, ite, int_term
from pyvc.gv import GV
from pyvc.sbytes import SBytes
from pyvc.sstr import SStr, Fmt
from pyvc.symmap import SymMap, ABSENT, OpaqueBytes, Combined, alts, present_term, entry_eq, blen
from pyvc.report import PropertyRun, Task
from pyvc.tasks import repo, budget, result_dict, LemmaTask
from pyvc.solve import Obligation, discharge
from pyvc.symex import explore, Obj, Opaque, PyRaise, make_exc
from spec import specfun as S
from props.C01 import term

NSLOTS = 32
FUNC = 'decoder.NMEA2000Decoder._decode_fast_message'


def stream_key(pgn, src, dest):
    return SStr([Fmt(pgn, ''), '_', Fmt(src, ''), '_', Fmt(dest, '')])


class State:
    """Symbolic pre-state of one call: the record of stream (pgn, src, dest) - absent or any well-formed record."""
    def __init__(self, ex, r, m):
        self.pgn = ex.fresh('pgn', bits=18)
        self.src = ex.fresh('src', bits=8)
        self.dest = ex.fresh('dest', bits=8)
        self.priority = ex.fresh('priority', bits=3)
        self.absent = Sym(z3.Bool('record_absent'), 'bool')
        self.pl = ex.fresh('rec.payload_length', lo=0, hi=255)
        self.bs = ex.fresh('rec.bytes_stored', lo=0)
        self.sc = ex.fresh('rec.sequence_counter', lo=-1, hi=7)
        self.occ = [z3.Bool(f'rec.slot{i}.occupied') for i in range(NSLOTS)]
        self.lens = [ex.fresh(f'rec.slot{i}.len', lo=0, hi=8) for i in range(NSLOTS)]
        self.chunks = [OpaqueBytes(f'slot{i}', self.lens[i]) for i in range(NSLOTS)]
        # well-formed record: bytes_stored is the sum of the stored chunk lengths; a record that never saw a first frame is fresh
        tot = z3.IntVal(0)
        for o, ln in zip(self.occ, self.lens):
            tot = tot + z3.If(o, ln.t, 0)
        ex.assume(self.bs.t == tot)
        ex.assume(z3.Implies(self.sc.t == -1, z3.And(self.pl.t == 0, self.bs.t == 0, *[z3.Not(o) for o in self.occ])))
        self.frames = SymMap('frames', [[i, GV.make([(self.occ[i], self.chunks[i]), (z3.Not(self.occ[i]), ABSENT)])] for i in range(NSLOTS)])
        rcls = r.cls('decoder', 'fast_pgn_metadata')
        attrs = {'frames': self.frames, 'payload_length': self.pl, 'sequence_counter': self.sc}
        # bytes_stored is redundant state (= sum of the stored chunk lengths): the abstract view derives it from the slots; the
        # concrete attribute is part of the record only if the class keeps one (a derived @property is equally acceptable)
        bsm = rcls.methods.get('bytes_stored') if rcls is not None else None
        if not (bsm is not None and bsm.is_property):
            attrs['bytes_stored'] = self.bs
        # whatever else the real constructors create exists here too, with unknown content
        from contracts.decoder_c import unknown_ctor_attrs
        attrs.update(unknown_ctor_attrs(r, 'decoder.fast_pgn_metadata.__init__', set(attrs) | {'bytes_stored'}, 'record'))
        self.rec = Obj(rcls, attrs)
        self.key = stream_key(self.pgn, self.src, self.dest)
        self.data = SymMap('data', [[self.key, GV.make([(self.absent.t, ABSENT), (z3.Not(self.absent.t), self.rec)])]], open_world=True)
        dattrs = {'data': self.data}
        dattrs.update(unknown_ctor_attrs(r, 'decoder.NMEA2000Decoder.__init__', dattrs, 'NMEA2000Decoder'))
        self.decoder = Obj(r.cls('decoder', 'NMEA2000Decoder'), dattrs)
        self.decoder_attrs0 = dict(dattrs)
        self.can = SBytes([ex.fresh(f'can_data[{i}]', bits=8) for i in range(m)])
        self.timestamp = Opaque('timestamp')
        self.iso = Opaque('source_iso_name')
        self.raw = Opaque('raw_can_data')
        self.inputs = {'pgn': self.pgn.t, 'src': self.src.t, 'dest': self.dest.t, 'record_absent': self.absent.t,
                       'rec.payload_length': self.pl.t, 'rec.bytes_stored': self.bs.t, 'rec.sequence_counter': self.sc.t}
        for i in range(NSLOTS):
            self.inputs[f'rec.slot{i}.occupied'] = self.occ[i]
            self.inputs[f'rec.slot{i}.len'] = self.lens[i].t
        for i, b in enumerate(self.can.items):
            self.inputs[f'can_data[{i}]'] = b.t

    # the abstract view of the pre-state (absent == fresh)
    def view0(self):
        a = self.absent
        pl = ite(a, 0, self.pl)
        sc = ite(a, -1, self.sc)
        bs = ite(a, 0, self.bs)
        slots = [GV.make([(z3.And(z3.Not(a.t), self.occ[i]), self.chunks[i]), (z3.Or(a.t, z3.Not(self.occ[i])), ABSENT)]) for i in range(NSLOTS)]
        return pl, sc, bs, slots


def view_of_entry(v, fresh_slots):
    """(payload_length, sequence_counter, bytes_stored, slots) of a data-map entry value; ABSENT counts as a fresh record."""
    pls, scs, bss = [], [], []
    derived = False
    slot_alts = [[] for _ in range(NSLOTS)]
    for g, x in alts(v):
        if x is ABSENT:
            pls.append((g, 0)); scs.append((g, -1)); bss.append((g, 0))
            for i in range(NSLOTS):
                slot_alts[i].append((g, ABSENT))
            continue
        pls.append((g, x.attrs['payload_length'])); scs.append((g, x.attrs['sequence_counter']))
        if 'bytes_stored' in x.attrs:
            bss.append((g, x.attrs['bytes_stored']))
        else:
            derived = True
        fr = x.attrs['frames']
        ent = {k: val for k, val in fr.entries} if isinstance(fr, SymMap) else dict(fr)
        for i in range(NSLOTS):
            val = ent.get(i, ABSENT)
            for g2, y in alts(val):
                slot_alts[i].append((z3.And(g, g2), y))
    slots = [GV.make(a) for a in slot_alts]
    return GV.make(pls), GV.make(scs), (slots_len(slots) if derived else GV.make(bss)), slots


def slots_len(slots):
    tot = 0
    for v in slots:
        for g, x in alts(v):
            if x is not ABSENT:
                tot = tot + ite(mk_bool(g), blen(x), 0)
    return tot


def view_eq(a, b):
    (pl1, sc1, bs1, s1), (pl2, sc2, bs2, s2) = a, b
    return vand(veq(pl1, pl2), veq(sc1, sc2), veq(bs1, bs2), *[entry_eq(x, y) for x, y in zip(s1, s2)])


class CallRecorder:
    def __init__(self):
        self.calls = []


def frames_setattr_hook(ex, obj, name, v):
    if name == 'frames' and isinstance(v, dict) and not v and isinstance(obj, Obj) and obj.clsname == 'fast_pgn_metadata':
        return (SymMap('frames', [[i, ABSENT] for i in range(NSLOTS)]),)
    return None


class TransitionTask(Task):
    """The per-call contract of _decode_fast_message: it implements the transition function T of DESIGN Appendix A."""
    def __init__(self, m, prop='C04', only=None):
        self.m = m
        self.prop = prop
        self.only = only
        self.name = f'{prop}:_decode_fast_message[len(can_data)={m}]'

    def run(self, tier):
        out = {'results': [], 'functions': [], 'notes': [], 'bounded': []}
        r = repo()
        info = r.func(FUNC)
        if info is None:
            out['error'] = f'{FUNC} not found'
            return out
        out['functions'].append(info.describe())
        m = self.m
        base = f'{self.prop}/{FUNC}[data_bytes={m}]'

        def cdf(ex, f, args, kwargs):
            ex.ghost.setdefault('cdf_calls', []).append(list(args))
            k = ex.choose(3, 'cdf-outcome')
            if k == 0:
                raise PyRaise(make_exc('ValueError', 'field decoder raised'))
            if k == 1:
                return None           # the message is filtered out (by id, manufacturer, claim filter) or has no sub-decoder
            return Opaque('decode-result')

        def run(ex):
            st = State(ex, r, m)
            ex.ghost['st'] = st
            return ex._run_body(info, [st.pgn, st.priority, st.src, st.dest, st.timestamp, st.can, st.iso, st.raw], {}, st.decoder)
        t0 = time.time()
        try:
            results = explore(r, run, contracts={'nmea2000.decoder.NMEA2000Decoder._call_decode_function': cdf},
                              inline={'nmea2000.decoder.fast_pgn_metadata.__init__'}, hooks={'setattr': frames_setattr_hook})
        except V.Unsupported as u:
            out['error'] = f'{FUNC}: outside the modelled subset: {u}'
            from props.C04_scenarios import fallback_results
            out['results'].extend(fallback_results())
            if self.prop != 'C04':
                from contracts.decoder_scenarios import fallback_results as fb2
                out['results'].extend(fb2(self.prop))
            return out
        out['functions'][0]['paths'] = len(results)
        out['functions'][0]['symex_seconds'] = round(time.time() - t0, 2)
        obs = []
        for pi, p in enumerate(results):
            st = p.ex.ghost['st']
            out['notes'].extend(p.ex.dropped)
            hyps = list(p.pc)
            inputs = st.inputs

            def add(name, goal, meta=None, hy=None):
                if self.only is not None and not any(o in name for o in self.only):
                    return
                obs.append(Obligation(f'{base}/{name}/path[{pi}]', hyps if hy is None else hy, term(goal) if not isinstance(goal, z3.ExprRef) else goal,
                                      kind='ensures', func=info.fullname, inputs=inputs, meta=meta or {}))
            # frame: only the record of (pgn, src, dest) is read or written
            add('assigns-only-the-record-of-this-stream', not st.data.foreign and len(st.data.entries) == 1,
                meta={'note': f'access to another stream key: {st.data.foreign[:2]}', 'scenario': 'cross-stream'})
            others = {k for k, v in st.decoder.attrs.items() if k != 'data' and v is not st.decoder_attrs0.get(k)}
            add('assigns-no-other-decoder-state', not others, meta={'note': f'decoder attributes written: {sorted(others)}'})
            pl0, sc0, bs0, slots0 = st.view0()
            post = view_of_entry(st.data.entries[0][1], None)
            calls = p.ex.ghost.get('cdf_calls', [])
            if m == 0:
                add('empty-frame-raises', p.kind == 'raise' and p.exc_name() == 'IndexError', meta={'note': f'outcome {p.kind} {p.exc_name()}'})
                add('exception-leaves-the-view-unchanged', view_eq(post, (pl0, sc0, bs0, slots0)))
                continue
            last = st.can.items[-1]
            c = last & 31
            q = (last >> 5) & 7
            occ_c = vor(*[vand(c == i, mk_bool(present_term(slots0[i]))) for i in range(NSLOTS)])
            A = vand(c != 0, pl0 == 0)
            B = vand(vnot(A), c == 0, q != sc0)
            C = vand(vnot(A), vnot(B), q != sc0)
            D = vand(vnot(A), vnot(B), vnot(C), occ_c)
            E = vand(vnot(A), vnot(B), vnot(C), vnot(D), c != 0)
            unchanged = view_eq(post, (pl0, sc0, bs0, slots0))
            is_none = p.kind == 'return' and p.value is None
            for nm, cond in (('frame-before-a-first-frame-is-ignored', A), ('frame-of-another-sequence-is-ignored', C), ('duplicate-frame-is-ignored', D)):
                add(nm, vor(vnot(cond), vand(is_none, unchanged, not calls)), meta={'scenario': nm})
            # B: first frame with a new sequence counter restarts the record
            if m == 1:
                add('first-frame-without-length-byte-raises', vor(vnot(B), p.kind == 'raise' and p.exc_name() == 'IndexError'))
                add('exception-leaves-the-view-unchanged', vor(vnot(B), unchanged))
                plB = scB = bsB = None
            else:
                plB, scB, bsB = st.can.items[-2], q, m - 2
                slotsB = [st.can[:-2]] + [ABSENT] * (NSLOTS - 1)
            # E: store
            dataE = st.can[:-1]
            slotsE = [GV.make([(bool_term(c == i) if isinstance(c == i, Sym) else z3.BoolVal(bool(c == i)), dataE),
                               (z3.Not(bool_term(c == i)) if isinstance(c == i, Sym) else z3.BoolVal(not (c == i)), slots0[i])]) for i in range(NSLOTS)]
            plE, scE, bsE = pl0, sc0, bs0 + (m - 1)
            for nm, cond, nv in (('B', B, None if m == 1 else (plB, scB, bsB, slotsB)), ('E', E, (plE, scE, bsE, slotsE))):
                if nv is None:
                    continue
                pl1, sc1, bs1, slots1 = nv
                complete = bs1 >= pl1
                label = 'first-frame-restarts-the-record' if nm == 'B' else 'new-frame-is-stored-in-its-slot'
                # not complete: returns None, record updated
                add(f'{label}', vor(vnot(vand(cond, vnot(complete))), vand(is_none, not calls, view_eq(post, nv))), meta={'scenario': label})
                # complete: exactly one delivery with the frames in index order cut to the announced length, record deleted
                total = slots_len(slots1)
                snap = [(i, slots1[i]) for i in range(NSLOTS)]
                cut = ite(total > pl1, total - pl1, 0)
                want = Combined(snap, 'desc', False, cut)
                delivered = len(calls) == 1
                if delivered:
                    a = calls[0]
                    args_ok = vand(veq(a[0], st.pgn), veq(a[1], st.priority), veq(a[2], st.src), veq(a[3], st.dest), a[4] is st.timestamp,
                                   a[6] is st.iso, a[7] is st.raw)
                    got = a[5]
                    same_frames = Combined.eq(Combined(got.snapshot, got.order, got.each_rev, None), Combined(snap, 'desc', False, None)) if isinstance(got, Combined) else False
                    gstart = (0 if got.start is None else got.start) if isinstance(got, Combined) else 0
                    cut_ok = (gstart == cut) if isinstance(got, Combined) else False
                else:
                    args_ok = same_frames = cut_ok = False
                cc = vand(cond, complete)
                add(f'{label}.completes-when-stored-bytes-reach-the-announced-length', vor(vnot(cc), delivered), meta={'scenario': 'completion'})
                add(f'{label}.delivery-keeps-addressing-and-identity', vor(vnot(cc), args_ok))
                add(f'{label}.delivers-the-frames-in-index-order', vor(vnot(cc), same_frames), meta={'scenario': 'completion'})
                add(f'{label}.delivered-payload-is-cut-to-the-announced-length', vor(vnot(cc), cut_ok), meta={'scenario': 'padding'})
                if p.kind == 'return':
                    add(f'{label}.record-deleted-after-delivery', vor(vnot(cc), vand(mk_bool(z3.Not(present_term(st.data.entries[0][1]))), p.value is not None or True)))
        for ob in obs:
            res = discharge(ob, budget(tier))
            dct = result_dict(res, with_size=False)
            dct['function'] = FUNC
            if res.status == 'refuted':
                dct['reason'] = ob.meta.get('note', '')
                if self.prop in ('C11', 'C16', 'C10'):
                    from contracts.decoder_scenarios import replay_for as rf
                    dct['replay'] = rf(self.prop, ob.meta.get('scenario'), res.model or {})
                    if not dct['replay'].get('confirmed'):
                        from props.C04_scenarios import replay_for
                        dct['replay'] = replay_for(ob.name, ob.meta.get('scenario'), res.model or {}, self.m)
                else:
                    from props.C04_scenarios import replay_for
                    dct['replay'] = replay_for(ob.name, ob.meta.get('scenario'), res.model or {}, self.m)
            out['results'].append(dct)
        return out


def main(tier):
    run = PropertyRun('C04', tier, level='proof')
    for m in range(0, 9):
        run.add(TransitionTask(m))
    from props import C04_lemmas
    C04_lemmas.add(run, tier)
    # which stream a frame belongs to is decided by the identifier parser: an identifier that is not of a stream must not be
    # filed under it (the 29-bit layout contract, also part of C05)
    from pyvc.tasks import SpecTask, with_prop
    from contracts.headers import ExtractHeader
    run.add(SpecTask(with_prop(ExtractHeader(), 'C04')))
    run.extra_cov['exhaustive'] = True
    run.extra_cov['exhaustive_note'] = 'frame data lengths 0..8 enumerated; record state (absent or any well-formed record over 32 slots), header byte and data bytes symbolic'
    run.trust('pyvc dict model (symbolic maps with explicit entries), the abstract value "frames combined in index order" with its reversal algebra',
              'key injectivity: str(int) contains no underscore, so f"{pgn}_{src}_{dest}" determines (pgn, src, dest)', 'z3 5.1')
    run.assume('record well-formedness (bytes_stored = sum of stored chunk lengths; a record with sequence counter -1 is fresh) is an invariant: it is re-established by every transition (obligation) and holds for fresh records',
               'histories of any length follow from the single-step lemmas by induction on the history (induction not mechanised)',
               'fault model of the property: first frames are neither lost, duplicated nor overtaken; consecutive messages of a stream have different sequence counters',
               'a first frame whose sequence counter equals the record\'s while slot 0 is empty is unreachable under the invariant and left unspecified')
    return run.execute()
