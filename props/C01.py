"""C01  Decoded fields match the canboat definition for every PGN and payload."""
from __future__ import annotations
import time
import traceback
import z3
from pyvc import values as V
from pyvc.values import Sym, bool_term, vand, vor, vnot, veq, mk_bool
from pyvc.gv import GV
from pyvc.abstract import App, TableGet
from pyvc.report import PropertyRun, Task
from pyvc.tasks import SpecTask, LemmaTask, repo, budget, result_dict, resolve_real, _j
from pyvc.solve import Obligation, discharge
from pyvc.symex import explore, Obj, PyRaise, EnumVal
from pyvc.floats import lower_formula
from pyvc import fpexact
from contracts import pgns_c
from contracts.utils_c import DecodeInt, DecodeNumber, RANGE_REL_TOL
from spec import canboat as C
from spec import specfun as S

_DB = [None]


def db():
    if _DB[0] is None:
        _DB[0] = C.DB()
    return _DB[0]


def term(x):
    if isinstance(x, bool):
        return z3.BoolVal(x)
    return bool_term(x)


def eq_goal(code, exp, alt=None):
    g = veq(code, exp)
    if alt is not None:
        g = vor(g, veq(code, alt))
    return term(g)


def const_eq(a, b):
    if isinstance(a, EnumVal) or isinstance(b, EnumVal):
        return a is b
    return type(a) is type(b) and a == b


class DecoderTask(Task):
    """Symbolically executes a chunk of generated decoders and checks each against the database spec."""
    def __init__(self, defs, prop='C01'):
        self.defs = defs
        self.prop = prop
        self.name = f'{prop}:decoders[{defs[0].suffix}..{defs[-1].suffix}]'

    def run(self, tier):
        out = {'results': [], 'functions': [], 'notes': [], 'bounded': []}
        errs = []
        for defn in self.defs:
            try:
                self.one(defn, tier, out)
            except V.Unsupported as u:
                errs.append(f'decode_pgn_{defn.suffix}: outside the modelled subset: {u}')
        if errs:
            out['error'] = '; '.join(errs[:5])
        return out

    def one(self, defn, tier, out):
        r = repo()
        fname = f'decode_pgn_{defn.suffix}'
        info = r.func('pgns.' + fname)
        base = f'{self.prop}/pgns.{fname}'
        if info is None:
            out['results'].append({'obligation': f'{base}/exists', 'kind': 'ensures', 'status': 'refuted', 'backend': 'frontend',
                                   'seconds': 0.0, 'reason': 'no generated decoder for this database definition',
                                   'replay': {'confirmed': True, 'observed': f'nmea2000.pgns has no {fname}'}})
            return
        t0 = time.time()
        dterm = z3.Int('payload')
        holder = {}

        def run(ex):
            d = V.mk_int(dterm)
            ex.assume(dterm >= 0)
            holder['d'] = d
            return ex._run_body(info, [d], {}, None)
        results = explore(r, run, contracts=pgns_c.decoder_contracts(), inline=())
        fd = info.describe()
        fd['paths'] = len(results)
        fd['symex_seconds'] = round(time.time() - t0, 3)
        out['functions'].append(fd)
        obs = []
        hyp0 = [dterm >= 0]
        inputs = {'payload': dterm}
        d = V.mk_int(dterm)
        unsup = defn.first_unsupported

        def add(name, hyps, goal, kind='ensures', meta=None):
            obs.append(Obligation(f'{base}/{name}', hyps, goal, kind=kind, func=info.fullname, inputs=inputs, meta=meta or {}))

        normal = [p for p in results if p.kind == 'return']
        raising = [p for p in results if p.kind == 'raise']
        if unsup is not None:
            # definition contains a field type the library does not support: must raise there, by construction
            ok = len(normal) == 0 and all('not supported' in str((p.value.attrs.get('args') or [''])[0]) for p in raising)
            add('unsupported-type-raises', hyp0, z3.BoolVal(ok), meta={'note': f'field type {defn.fields[unsup].type} is unsupported: the decoder must raise'})
        else:
            # some feasible path must return (else the definition can never be decoded)
            exp0 = pgns_c.expected_fields(db(), defn, d)
            inr = [term(e.in_range) for (_, e, _) in exp0 if e.in_range is not None and e.in_range is not True]
            add('returns-on-some-path', hyp0 + inr, z3.BoolVal(len(normal) > 0),
                meta={'note': 'every path through the decoder raises: ' + ', '.join(sorted({p.exc_name() for p in raising}))})
            for k, p in enumerate(raising):
                # a raise on a supported definition although every field is inside its database range
                add(f'no-raise-when-all-fields-in-range[{p.exc_name()}#{k}]', list(p.pc) + inr, z3.BoolVal(False), meta={'note': f'path raises {p.exc_name()}'})
        for pi, p in enumerate(normal):
            ex = p.ex
            out['notes'].extend(ex.dropped)
            msg = p.value
            hyps = list(p.pc)
            for (oname, cond, pc_snap) in ex.obligations:
                add(f'{oname}', pc_snap, cond, kind='requires@callsite')
            if not isinstance(msg, Obj) or msg.clsname != 'NMEA2000Message':
                add('returns-message', hyps, z3.BoolVal(False))
                continue
            import datetime
            ttl = datetime.timedelta(milliseconds=int(defn.interval)) if defn.interval is not None else None
            hdr = {'PGN': defn.pgn, 'id': defn.id, 'description': defn.description, 'ttl': ttl}
            bad = [k for k, v in hdr.items() if not const_eq(msg.attrs.get(k), v)]
            add('header', hyps, z3.BoolVal(not bad), meta={'note': f'header attributes differ from the database: {bad}'})
            exp = pgns_c.expected_fields(db(), defn, d)
            fields = msg.attrs.get('fields')
            add('field-count', hyps, z3.BoolVal(isinstance(fields, list) and len(fields) == len(exp)),
                meta={'note': f'{len(fields) if isinstance(fields, list) else "?"} fields returned, database defines {len(exp)} supported fields'})
            if not isinstance(fields, list):
                continue
            canon_guards = []
            for i, (f, e, off) in enumerate(exp):
                if i >= len(fields):
                    break
                fo = fields[i]
                tag = f'field[{i}:{f.expected_id}]'
                bad = [k for k, v in e.consts.items() if not const_eq(fo.attrs.get(k), v)]
                add(f'{tag}.attributes', hyps, z3.BoolVal(not bad),
                    meta={'note': 'differs from the database in ' + ', '.join(f'{k}: {fo.attrs.get(k)!r} != {e.consts[k]!r}' for k in bad)})
                if isinstance(e.value, tuple) and e.value[0] == 'binary-var':
                    # BINARY sized by another field: value = int_to_bytes(bits(d, off, value of the length field))
                    add(f'{tag}.value', hyps, z3.BoolVal(False), meta={'note': 'variable-length BINARY field is not supported by the contracts'})
                    continue
                add(f'{tag}.raw_value', hyps, eq_goal(fo.attrs.get('raw_value'), e.raw))
                add(f'{tag}.value', hyps, eq_goal(fo.attrs.get('value'), e.value, e.alt_value))
                if e.raise_guard is not None and e.raise_guard is not False:
                    canon_guards.append(term(e.raise_guard))
            code_guards = [g for (_, _, g) in ex.ghost.get('raises', [])]
            if code_guards:
                add('range-checks-are-the-database-ranges', hyp0,
                    z3.Implies(z3.Or(*code_guards), z3.Or(*canon_guards) if canon_guards else z3.BoolVal(False)))
        for ob in obs:
            res = discharge(ob, budget(tier))
            dct = result_dict(res, with_size=False)
            dct['function'] = f'pgns.{fname}'
            if res.status == 'refuted':
                if ob.meta.get('note'):
                    dct['reason'] = ob.meta['note']
                dct['replay'] = replay_decoder(defn, (res.model or {}).get('payload', 0), ob.name)
            out['results'].append(dct)


# ---------------------------------------------------------------------------------------------
# native replay: run the real generated decoder and compare with the natively evaluated specification
# ---------------------------------------------------------------------------------------------
def native_app(v):
    """Evaluate abstract specification values natively with the real helper functions."""
    import nmea2000.utils as U
    import nmea2000.message as M
    if isinstance(v, App):
        a = [native_app(x) for x in v.args]
        fn = v.fn
        if fn == 'decode_time':
            return U.decode_time(a[0])
        if fn == 'decode_date':
            return U.decode_date(a[0])
        if fn == 'decode_bit_lookup':
            return U.decode_bit_lookup(a[0], a[1])
        if fn == 'text_fix':
            return U.decode_string_fix(a[0], 0, a[1])
        if fn == 'text_lz':
            return U.decode_string_lz(a[0], 0)
        if fn == 'text_lau':
            return U.decode_string_lau(a[0], 0)[0]
        if fn == 'int_to_bytes':
            return M.int_to_bytes(a[0])
        raise ValueError(fn)
    if isinstance(v, TableGet):
        k = v.key
        if not isinstance(k, (int, str)) and k is not None:
            k = native_str(k)
        return (v.table or {}).get(k, v.default)
    return v


def native_str(s):
    from pyvc.sstr import SStr, Fmt
    if isinstance(s, SStr):
        return ''.join(p if isinstance(p, str) else format(p.value, p.spec) for p in s.parts)
    return s


def approx(a, b):
    if isinstance(a, float) or isinstance(b, float):
        if a is None or b is None:
            return a is b
        return abs(a - b) <= 4 * 2.0 ** -53 * max(abs(a), abs(b)) + 0.0
    return type(a) is type(b) and a == b


def replay_decoder(defn, payload, obname):
    import struct
    import nmea2000.pgns as P
    import nmea2000.utils as U
    from fractions import Fraction
    fname = f'decode_pgn_{defn.suffix}'
    try:
        fn = getattr(P, fname)
    except AttributeError:
        return {'confirmed': True, 'observed': f'no function {fname}'}
    try:
        msg = fn(payload)
        got = ('return', msg)
    except Exception as e:  # noqa
        got = ('raise', type(e).__name__, str(e)[:120])
    info = {'inputs': {'payload': payload, 'payload_hex_le': payload.to_bytes(max(1, (payload.bit_length() + 7) // 8), 'little').hex()},
            'how': f'nmea2000.pgns.{fname}(payload) on the working tree, compared with the specification evaluated natively from canboat.json'}
    diffs = []
    # exact specification (rationals) per field
    off = 0
    prev = 0
    allin = True
    expvals = []
    for f in defn.fields:
        if not f.supported:
            break
        off = f.offset_bits if f.offset_bits is not None else off + prev
        L = f.L
        ev = None
        if f.type in C.NUMERIC or f.type in ('TIME', 'DATE'):
            b = (payload >> off) & ((1 << L) - 1)
            signed = f.signed and not f.excess_k
            n = b - (1 << L) if signed and b >= (1 << (L - 1)) else b
            na_code = S.maxraw(L, signed)
            rng = f.raw_range()
            inr = rng is None or rng[0] <= n <= rng[1]
            if n == na_code and not inr:
                ev = ('num', None, None)
            elif n == na_code:
                ev = ('num-or-none', n * f.res + f.off, None)
            else:
                ev = ('num', n * f.res + f.off, None)
                if not inr:
                    allin = False
        elif f.type == 'FLOAT':
            b = (payload >> off) & 0xFFFFFFFF
            x = struct.unpack('<f', struct.pack('<I', b))[0]
            ev = ('float', x, None)
            if x != x or not (float(f.rmin) <= x <= float(f.rmax)):
                allin = False
        elif f.type in ('LOOKUP', 'RESERVED', 'SPARE', 'BITLOOKUP', 'INDIRECT_LOOKUP'):
            ev = ('bits', (payload >> off) & ((1 << L) - 1), None)
        elif f.type == 'BINARY' and L is None and f.length_field:
            # a variable-length BINARY field whose length field is 'not available' / not an integer is not well-formed:
            # the decoder may reject it (the contract of the decode function says the same: in_range = length is present)
            lf = [x for x in expvals if x[0].order == f.length_field]
            if not lf or lf[0][1] is None or lf[0][1][1] is None or Fraction(lf[0][1][1]).denominator != 1:
                allin = False
        expvals.append((f, ev, off))
        if f.type == 'STRING_LAU':
            t = payload >> off
            prev = (t & 0xFF) * 8
            if t == 0:
                prev = U.decode_string_lau(payload, off)[1]
        else:
            prev = L if L is not None else 0
    if got[0] == 'raise':
        info['observed'] = list(got)
        if defn.first_unsupported is not None:
            return dict(info, confirmed=False, note='definition has an unsupported field type; raising is expected')
        info['expected'] = 'a message (every field inside its database range)' if allin else 'may raise: some field is outside its database range'
        return dict(info, confirmed=bool(allin))
    msg = got[1]
    if msg.PGN != defn.pgn or msg.id != defn.id or msg.description != defn.description:
        diffs.append(f'header {msg.PGN}/{msg.id}/{msg.description!r}')
    import datetime
    ttl = datetime.timedelta(milliseconds=int(defn.interval)) if defn.interval is not None else None
    if msg.ttl != ttl:
        diffs.append(f'ttl {msg.ttl} != {ttl}')
    if len(msg.fields) != len(expvals):
        diffs.append(f'{len(msg.fields)} fields, database has {len(expvals)}')
    for (f, ev, off), fo in zip(expvals, msg.fields):
        pq = getattr(fo.physical_quantities, 'name', None)
        if (fo.id, fo.name, fo.unit_of_measurement, pq, fo.type.name, bool(fo.part_of_primary_key)) != \
           (f.expected_id, f.name, f.unit, f.pq, f.type, f.pk):
            diffs.append(f'{f.fid}: attributes {(fo.id, fo.name, fo.unit_of_measurement, pq, fo.type.name, fo.part_of_primary_key)}')
        if ev is None:
            continue
        kind, x, _ = ev
        if kind in ('num', 'num-or-none'):
            raw = fo.raw_value
            if x is None:
                if raw is not None:
                    diffs.append(f'{f.fid}: raw_value {raw!r}, expected None (not available)')
            elif raw is None:
                if kind != 'num-or-none':
                    diffs.append(f'{f.fid}: raw_value None, expected {float(x)}')
            elif abs(Fraction(raw) - x) > abs(x) * Fraction(4, 2 ** 53):
                diffs.append(f'{f.fid}: raw_value {raw!r}, expected {float(x)} (= raw*Resolution+Offset at bit {off})')
            if f.type in C.NUMERIC and not (fo.value == fo.raw_value or (fo.value is None and fo.raw_value is None)):
                diffs.append(f'{f.fid}: value {fo.value!r} != raw_value {fo.raw_value!r}')
        elif kind == 'bits':
            if fo.raw_value != x:
                diffs.append(f'{f.fid}: raw_value {fo.raw_value!r}, expected bits {x} at offset {off}')
            if f.type == 'LOOKUP':
                ex_v = db().lookups.get(f.lookup, {}).get(x)
                if fo.value != ex_v:
                    diffs.append(f'{f.fid}: value {fo.value!r}, expected {ex_v!r}')
            if f.type in ('RESERVED', 'SPARE') and fo.value != x:
                diffs.append(f'{f.fid}: value {fo.value!r}, expected {x}')
        elif kind == 'float':
            if not (fo.value == x or (fo.value != fo.value and x != x)):
                diffs.append(f'{f.fid}: value {fo.value!r}, expected {x!r}')
    info['observed'] = diffs[:6] or 'message agrees with the specification'
    return dict(info, confirmed=bool(diffs))


# ---------------------------------------------------------------------------------------------
# lemmas per distinct numeric field kind
# ---------------------------------------------------------------------------------------------
def numeric_kinds():
    kinds = {}
    for dfn in db().defs:
        if dfn.first_unsupported is not None:
            fields = dfn.fields[:dfn.first_unsupported]
        else:
            fields = dfn.fields
        for f in fields:
            if f.type in C.NUMERIC or f.type in ('TIME', 'DATE'):
                key = (f.L, f.signed and not f.excess_k, str(f.res), str(f.off), str(f.rmin), str(f.rmax))
                kinds.setdefault(key, []).append(f)
    return kinds


def kind_lemmas(chunk):
    def build(tier):
        out = []
        for key, fs in chunk:
            f = fs[0]
            L, signed = key[0], key[1]
            res, off = f.lit(f.res), (f.lit(f.off) if f.excess_k else None)
            where = f'{f.defn.pgn}.{f.fid}' + (f' (+{len(fs) - 1} more fields)' if len(fs) > 1 else '')
            tag = f'L={L},signed={signed},res={key[2]},offset={key[3]},range=[{key[4]},{key[5]}]'
            # (i) the canonical double computation is within 4u of the exact rational value (float model S)
            n, cs = V.fresh_int('n', lo=S.minraw(L, signed), hi=S.maxraw(L, signed))
            scaled = n * res
            if off is not None:
                scaled = scaled + off
            exact = z3.ToReal(n.t) * V.real_q(f.res) + V.real_q(f.off)
            if isinstance(scaled, Sym) and scaled.ty == 'float':
                st = scaled.t
                tol = 4 * z3.RealVal(1) / z3.RealVal(2 ** 53)
                absx = z3.If(exact >= 0, exact, -exact)
                # one multiplication, one optional addition: relative to |n*R| + |Off|
                mag = z3.If(z3.ToReal(n.t) * V.real_q(f.res) >= 0, z3.ToReal(n.t) * V.real_q(f.res), -(z3.ToReal(n.t) * V.real_q(f.res))) + abs(float(f.off))
                goal = z3.And(st - exact <= tol * mag, exact - st <= tol * mag)
                out.append((Obligation(f'C01/lemma/scaling-approximates-database-value[{tag}]', cs, goal, kind='lemma', inputs={'n': n.t},
                                       float_model='S', meta={'exact_i2f': L <= 53, 'where': where}), None))
            else:
                goal = z3.ToReal(V.int_term(scaled)) == exact
                out.append((Obligation(f'C01/lemma/scaling-equals-database-value[{tag}]', cs, goal, kind='lemma', inputs={'n': n.t},
                                       meta={'where': where}), None))
            # (ii) totality of the float range test on in-range raw values (float model E, bit exact)
            rng = f.raw_range()
            if rng is not None and rng[0] <= rng[1]:
                na_code = S.maxraw(L, signed)
                q, nbv = fpexact.range_total_query(L, signed, res, off, f.lit(f.rmin), f.lit(f.rmax), rng[0], rng[1], na_code, rel_tol=RANGE_REL_TOL)
                ob = Obligation(f'C01/lemma/in-range-raw-values-pass-the-range-test[{tag}]', [q], z3.BoolVal(False), kind='lemma',
                                inputs={'n': nbv}, meta={'where': where, 'fields': [f'{x.defn.pgn}.{x.defn.id}.{x.fid}' for x in fs][:40], 'timeout': 120 if tier == 'quick' else 600})

                def rp(m, f=f, L=L, signed=signed, key=key):
                    nv = m['n']
                    W = L + 2
                    if nv >= 1 << (W - 1):
                        nv -= 1 << W
                    U = resolve_real('utils')
                    raw = nv & ((1 << L) - 1)
                    args = (raw, 0, L, signed, f.lit(f.res), f.lit(f.rmin), f.lit(f.rmax)) + ((f.lit(f.off),) if f.excess_k else ())
                    try:
                        v = U.decode_number(*args)
                        got = ['return', v]
                    except Exception as e:  # noqa
                        got = ['raise', type(e).__name__, str(e)]
                    exact = nv * f.res + f.off
                    inr = f.rmin <= exact <= f.rmax
                    return {'confirmed': got[0] == 'raise' and inr, 'inputs': {'n': nv, 'decode_number_args': list(args)}, 'observed': got,
                            'expected': f'no error: exact value {float(exact)} lies inside the database range [{float(f.rmin)}, {float(f.rmax)}]',
                            'fields': [f'{x.defn.pgn}.{x.defn.id}.{x.fid}' for x in fs][:60],
                            'how': 'nmea2000.utils.decode_number(raw, 0, L, signed, Resolution, RangeMin, RangeMax) on the working tree'}
                out.append((ob, rp))
        return out
    return build


def table_lemmas(tier):
    """Lookup tables of the generated module equal the database enumerations (finite map equality)."""
    from pyvc.symex import Exec
    r = repo()
    ex = Exec(r)
    out = []
    for name, ref in (('master_dict', db().lookups), ('master_flags_dict', db().bitlookups), ('master_indirect_lookup_dict', db().indirect)):
        try:
            tbl = ex.global_name('pgns', name)
        except Exception:
            tbl = None
        for k, v in ref.items():
            ok = isinstance(tbl, dict) and tbl.get(k) == v
            note = '' if ok else f'{name}[{k!r}] differs from the database enumeration'
            out.append(Obligation(f'C01/tables/{name}[{k}]', [], z3.BoolVal(ok), kind='lemma', meta={'note': note}))
        extra = set(tbl or {}) - set(ref)
        out.append(Obligation(f'C01/tables/{name}/no-extra-tables', [], z3.BoolVal(not extra), kind='lemma'))
    return out


def chunks(xs, n):
    k = max(1, (len(xs) + n - 1) // n)
    return [xs[i:i + k] for i in range(0, len(xs), k)]


def main(tier):
    run = PropertyRun('C01', tier, level='proof')
    repo().load('pgns')
    run.add(SpecTask(DecodeInt()))
    for L in range(1, 65):
        for kind, ok in (('int', 'zero'), ('float', 'zero'), ('int', 'int'), ('float', 'int'), ('float', 'float')):
            run.add(SpecTask(DecodeNumber(L, kind, ok)))
    from contracts.helpers_c import decode_helper_tasks
    for t in decode_helper_tasks('C01'):
        run.add(t)
    run.add(LemmaTask('C01:tables', table_lemmas))
    kinds = sorted(numeric_kinds().items(), key=lambda kv: str(kv[0]))
    for ch in chunks(kinds, 32):
        run.add(LemmaTask(f'C01:kinds[{len(ch)}]', kind_lemmas(ch)))
    defs = [x for x in db().defs if db().selectable(x)]
    run.extra_cov['definitions_checked'] = len(defs)
    run.extra_cov['definitions_shadowed_by_dispatch_spec'] = [f'{x.pgn}:{x.id}' for x in db().defs if not db().selectable(x)]
    for ch in chunks(defs, 48):
        run.add(DecoderTask(ch))
    # a payload handed to the PGN's public decode function reaches the definition it belongs to (the generated dispatchers)
    from props.C08 import DispatcherTask
    for pgn, g in db().multi_groups():
        run.add(DispatcherTask(pgn, g, prop='C01'))
    from props import C01_extra
    C01_extra.add(run, tier)
    run.trust('pyvc encoding of Python semantics (ints, dataclass construction, dict.get, list.append); cross-checked by ./check selftest',
              'float model S (standard model, u=2^-53) for the scaling lemma; z3 FloatingPoint (binary64, RNE) for the range-test lemma',
              'spec compiler spec/canboat.py (written from the canboat schema; excess-K reading of Offset as in canboat)',
              'z3 5.1 / cvc5 1.0.3 / z3 4.8.12')
    run.assume('helpers: decode_time, decode_date, decode_float, decode_decimal bodies are proved against day-number / h-m-s / IEEE-single contracts (contracts/helpers_c.py; datetime and struct through dependency contracts); decode_string_fix/lz/lau and decode_bit_lookup bodies are only bounded-checked against references (labelled bounded)',
               'payload integer is non-negative (int.from_bytes of the data bytes)',
               'static name resolution in nmea2000.pgns (last definition wins; no monkey-patching)',
               'permissive readings: where the database range contains the all-ones code both None and the number are accepted; malformed STRING_LAU length bytes (<2) are not constrained')
    return run.execute()
