"""C10  PGN include/exclude filters are a pure selection of the unfiltered output."""
from pyvc.report import PropertyRun
from contracts.decoder_c import DecodeTask, ClaimPgnTask


def main(tier):
    run = PropertyRun('C10', tier, level='proof')
    for combined in (True, False):
        for claim in (True, False):
            run.add(DecodeTask('C10', combined, claim))
            if not claim:
                run.add(DecodeTask('C10', combined, claim, data_len=3 if not combined else 12))     # the outcome does not depend on how many data bytes a frame carries
    run.add(ClaimPgnTask('C10'))
    # "filtered-out traffic never disturbs later results" for fast packets: the reassembly record is deleted when a message
    # completes, whatever the decode step returns (message, None = filtered out, or an exception) - the transition contract of C04
    from props.C04 import TransitionTask
    for m in range(0, 9):
        run.add(TransitionTask(m, prop='C10'))
    from props import C10_extra
    C10_extra.add(run, tier)
    run.trust('pyvc models: abstract collections (membership/length uninterpreted), symbolic source map, str.lower as an idempotent uninterpreted function', 'z3 5.1')
    run.assume('_call_decode_function is verified inlined into _decode',
               'the generated decode function returns a message of the requested PGN, None, or raises (C01/C08); the address-claim definition id is isoAddressClaim (C01)',
               'constructor facts about the filter collections (checked by the __init__ task)',
               'histories: a filtered and an unfiltered decoder fed the same frame from states with equal source maps and equal reassembly records (for PGNs not dropped by number) stay related - simulation step proved per call, induction on the history not mechanised')
    return run.execute()
