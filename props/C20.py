"""C20  Serial (USB) stream resynchronises after noise with bounded buffering."""
from pyvc.report import PropertyRun
from contracts import ioclient_c as I
from contracts.wire import DecoderTask


def main(tier):
    run = PropertyRun('C20', tier, level='other')
    run.add(I.ReceiveImplTask('C20', 'WaveShareNmea2000Gateway'))
    run.add(I.ReceiveImplTask('C20', 'WaveShareNmea2000Gateway', later_iteration=True))
    run.add(DecoderTask('usb', prop='C20'))
    from pyvc.tasks import SpecTask
    from contracts.utils_c import Checksum
    for n in (19, 20):
        run.add(SpecTask(Checksum(n, prop='C20')))      # "a packet whose checksum does not match is never delivered" rests on this contract
    from props import C20_extra
    C20_extra.add(run, tier)
    return run.execute()
