"""C12  Gateway clients deliver every decodable frame once, in order, for any chunking."""
from pyvc.report import PropertyRun
from contracts import ioclient_c as I

CLIENTS = ('EByteNmea2000Gateway', 'ActisenseNmea2000Gateway', 'YachtDevicesNmea2000Gateway', 'WaveShareNmea2000Gateway')


def main(tier):
    run = PropertyRun('C12', tier, level='other')
    for cls in CLIENTS:
        run.add(I.ReceiveImplTask('C12', cls))
        if cls == 'WaveShareNmea2000Gateway':
            run.add(I.ReceiveImplTask('C12', cls, later_iteration=True))
    run.add(I.ProcessQueueTask('C12'))
    # every (re)connection starts the receive path from the new link alone: _connect_impl installs the new reader / writer and,
    # for the serial client, an empty reassembly buffer
    for cls in CLIENTS:
        run.add(I.ConnectImplTask('C12', cls))
    # "a decoder with the same settings": each client owns its decoder and encoder, and these share no state with those of other
    # clients (no mutable class attributes, no module-level state: the frame scan of C16 over decoder / encoder / message)
    from pyvc.tasks import LemmaTask
    from props.C16 import purity_lemmas
    for mod in ('decoder', 'encoder', 'message'):
        run.add(LemmaTask(f'C12:frame-scan[{mod}]', purity_lemmas(mod, 'C12')))
    from props import C12_extra
    C12_extra.add(run, tier)
    return run.execute()
