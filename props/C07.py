"""C07  The same CAN frame decodes identically through every input format."""
from pyvc.report import PropertyRun
from contracts.wire import DecoderTask


def main(tier):
    run = PropertyRun('C07', tier, level='proof')
    for fmt in ('tcp', 'usb', 'yd', 'actisense', 'basic'):
        run.add(DecoderTask(fmt, prop='C07'))
    # frame-level formats parse the 29-bit identifier, message-level formats read the PGN number: both agree only if
    # _extract_header meets its contract (also part of C05)
    from pyvc.tasks import SpecTask, with_prop
    from contracts.headers import ExtractHeader
    run.add(SpecTask(with_prop(ExtractHeader(), 'C07')))
    # "a fast-packet message delivered frame by frame equals the same payload delivered pre-assembled": the reassembly
    # transition contract (also part of C04) - completion delivers exactly the announced payload and forgets the record
    from props.C04 import TransitionTask
    for m in range(0, 9):
        run.add(TransitionTask(m, prop='C07'))
    # equal _decode calls give equal messages whatever the decoder decoded before: the outcome contract and the frame
    # conditions of _decode (also part of C10 / C16)
    from contracts.decoder_c import DecodeTask
    for combined in (True, False):
        run.add(DecodeTask('C07', combined, False))
    from props import C07_extra
    C07_extra.add(run, tier)
    run.extra_cov['exhaustive'] = True
    run.extra_cov['exhaustive_note'] = 'data lengths, direction markers R/T, upper/lower-case hex and both timestamp variants enumerated; identifier and data bytes symbolic'
    run.explanation = ''
    run.trust('token axioms A1-A3 for the text formats', 'pyvc list/str/bytes model', 'z3 5.1')
    run.assume('all five front ends end in one call of _decode whose result they return: equal arguments give equal messages because _decode is a function of its arguments and the decoder state (frame conditions of C16)',
               'timestamps differ between formats by construction and are not compared')
    return run.execute()
