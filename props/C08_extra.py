from contracts.decoder_c import DecodeTask


def add(run, tier):
    from contracts.encoder_c import CallEncodeTask
    run.add(CallEncodeTask('C08'))
    for combined in (True, False):
        run.add(DecodeTask('C08', combined, False))
    run.assume('_call_decode_function hands the payload integer (int.from_bytes of the data, big endian) to the generated decode function of the frame\'s PGN, once (checked with the function inlined into _decode)')
