from contracts.decoder_c import DecodeTask


def add(run, tier):
    from contracts.encoder_c import CallEncodeTask
    run.add(CallEncodeTask('C08'))
    for combined in (True, False):
        run.add(DecodeTask('C08', combined, False))
        # the payload integer is int.from_bytes of exactly the bytes received - also for payloads shorter or longer than a
        # CAN frame (proprietary messages with few data bytes; whole fast-packet messages)
        for n in ((1, 2, 3, 5, 7, 12) if combined else (1, 2, 3, 5, 7)):
            run.add(DecodeTask('C08', combined, False, data_len=n))
    run.assume('_call_decode_function hands the payload integer (int.from_bytes of the data, big endian) to the generated decode function of the frame\'s PGN, once (checked with the function inlined into _decode)')
