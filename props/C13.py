"""C13  Gateway clients recover from every connection fault and never stall the loop."""
from pyvc.report import PropertyRun
from contracts import ioclient_c as I

CLIENTS = ('EByteNmea2000Gateway', 'ActisenseNmea2000Gateway', 'YachtDevicesNmea2000Gateway', 'WaveShareNmea2000Gateway')


def main(tier):
    run = PropertyRun('C13', tier, level='other')
    run.add(I.ReceiveLoopTask('C13'), I.ConnectTask('C13'), I.WaitTask('C13'), I.SendTask('C13', 'EByteNmea2000Gateway'))
    for cls in CLIENTS:
        run.add(I.ReceiveImplTask('C13', cls))
    # every (re)connection starts the receive path from the new link alone: _connect_impl installs the new reader / writer and,
    # for the serial client, an empty reassembly buffer
    for cls in CLIENTS:
        run.add(I.ConnectImplTask('C13', cls))
    from props import C13_extra
    C13_extra.add(run, tier)
    run.explanation = ('Safety decomposition, deductive under assumed asyncio/tenacity dependency contracts: (i) a fault in the receive loop or in send() with the client not CLOSED sets '
                       'DISCONNECTED, notifies, and spawns exactly one connect task; (ii) one attempt of connect() ends connected-with-one-new-receive-path, retried, or refused because '
                       'the client is CLOSED / already connected / another connect holds the lock; the retry policy is stop_never on every Exception; (iii) the wait function '
                       '(tenacity.wait_exponential.__call__, read from the installed source) returns for every attempt number a delay in (0, 10] that never shrinks, without raising; '
                       '(iv) the previous receive task is cancelled before a new one starts, under the connect lock; (v) no stall: every call of each _receive_impl that returns has '
                       'suspended or consumed input, and end of stream raises. The liveness composition (hence: eventually CONNECTED again, frames delivered) is a paper argument over '
                       'these obligations and is NOT mechanised - level other.')
    run.trust('rely/guarantee at awaits', 'asyncio and tenacity dependency contracts (DESIGN Appendix B)', 'facts about 2**k (positive, doubling) as axioms on the uninterpreted pow2', 'z3 5.1')
    run.assume('StreamReader at end of stream: readexactly raises IncompleteReadError, readline/read return b"" - without suspending',
               'AsyncRetrying re-runs the body after every Exception (stop_never) sleeping wait(attempt) seconds',
               'liveness (eventually reconnects) and real transports are outside the contracts (DESIGN section 7)')
    return run.execute()
