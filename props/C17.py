"""C17  Identity hash depends exactly on message kind and primary-key fields."""
from __future__ import annotations
import itertools
import z3
from pyvc import values as V
from pyvc.values import Sym, vand, veq, mk_bool, bool_term
from pyvc.gv import GV
from pyvc.abstract import App
from pyvc.sstr import SStr, Atom, Fmt, sstr_concat
from pyvc.report import PropertyRun, Task
from pyvc.tasks import repo, budget, result_dict, LemmaTask, RawSmtTask
from pyvc.solve import Obligation, discharge
from pyvc.symex import explore, Obj, Opaque, Builtin, BoundBuiltin
from pyvc import builtins as B
from pyvc.builtins import EncodedStr
from props.C01 import db


class Md5:
    ALWAYS_TRUE = True        # a Python object of this kind is truthy (no __bool__ / __len__)
    def __init__(self, arg):
        self.arg = arg

    def sym_method(self, ex, name):
        if name == 'hexdigest':
            return BoundBuiltin('md5.hexdigest', lambda ex, me: App('md5-hexdigest', [me.arg.s if isinstance(me.arg, EncodedStr) else me.arg]), self)
        return None


B.EXT_HOOKS['hashlib.md5'] = Builtin('hashlib.md5', lambda ex, data=b'': Md5(data))


class AddDataTask(Task):
    def __init__(self, pks, bnm):
        self.pks = pks
        self.bnm = bnm
        self.name = f'C17:add_data[key_fields={pks},network_map={bnm}]'

    def run(self, tier):
        out = {'results': [], 'functions': [], 'notes': [], 'bounded': []}
        r = repo()
        info = r.func('message.NMEA2000Message.add_data')
        out['functions'].append(info.describe())
        base = f'C17/message.NMEA2000Message.add_data[key_fields={"".join("1" if p else "0" for p in self.pks)},network_map={self.bnm}]'
        reads = []

        def getattr_hook(ex, obj, name):
            reads.append((obj, name))
            return None

        def run(ex):
            g = ex.ghost
            reads.clear()
            fields = []
            raws = []
            for i, pk in enumerate(self.pks):
                none = z3.Bool(f'raw{i}.none')
                isf = z3.Bool(f'raw{i}.float')
                rv = GV.make([(none, None), (z3.And(z3.Not(none), isf), Sym(z3.Real(f'raw{i}.f'), 'float')), (z3.And(z3.Not(none), z3.Not(isf)), Sym(z3.Int(f'raw{i}.i'), 'int'))])
                raws.append(rv)
                fields.append(Obj(r.cls('message', 'NMEA2000Field'), {'id': f'f{i}', 'part_of_primary_key': pk, 'raw_value': rv, 'value': Opaque('value'), 'unit_of_measurement': Opaque('unit')}))
            msg = Obj(r.cls('message', 'NMEA2000Message'), {'PGN': ex.fresh('PGN', bits=18), 'id': SStr([Atom('message.id')]), 'fields': fields, 'source': 0, 'destination': 0,
                                                             'priority': 0, 'timestamp': Opaque('t0'), 'source_iso_name': None, 'hash': Opaque('old-hash'), 'raw_can_data': None})
            g['msg'], g['raws'] = msg, raws
            g['args'] = [ex.fresh('src', bits=8), ex.fresh('dest', bits=8), ex.fresh('priority', bits=3), Opaque('timestamp'), Opaque('identity'), self.bnm, Opaque('raw')]
            return ex._run_body(info, g['args'], {}, msg)
        try:
            results = explore(r, run, hooks={'getattr': getattr_hook})
        except V.Unsupported as u:
            out['error'] = f'add_data: outside the modelled subset: {u}'
            rp = replay_hash()
            out['bounded'].append({'function': 'message.NMEA2000Message.add_data', 'kind': 'native scripted history (function outside subset)', 'label': 'bounded'})
            if rp.get('confirmed'):
                out['results'].append({'obligation': 'C17/message.NMEA2000Message.add_data/bounded-fallback', 'kind': 'bounded', 'status': 'refuted',
                                       'backend': 'native-scenarios', 'seconds': 0.0, 'model': {}, 'replay': rp})
            return out
        obs = []
        for pi, p in enumerate(results):
            g = p.ex.ghost
            hyps = list(p.pc)

            def add(name, goal, note=''):
                gl = goal if isinstance(goal, z3.ExprRef) else (z3.BoolVal(goal) if isinstance(goal, bool) else bool_term(goal))
                obs.append(Obligation(f'{base}/{name}/path[{pi}]', hyps, gl, kind='ensures', func=info.fullname, inputs={}, meta={'note': note}))
            if p.kind == 'raise':
                add('no-exception', False, f'raises {p.exc_name()}')
                continue
            msg = g['msg']
            a = msg.attrs
            args = g['args']
            add('addressing-stored', vand(veq(a['source'], args[0]), veq(a['destination'], args[1]), veq(a['priority'], args[2]), a['timestamp'] is args[3],
                                           a['source_iso_name'] is args[4], a['raw_can_data'] is args[6]))
            if not self.bnm:
                add('no-hash-without-network-map', a['hash'] is None, f'hash={a["hash"]!r}')
                continue
            key = msg.attrs['id']
            for pk, rv in zip(self.pks, g['raws']):
                if pk:
                    v = p.ex.concretize(rv) if False else rv
                    # the path has decided the alternative of each key field's raw value: rebuild str() of it under the path condition
                    key = sstr_concat(sstr_concat(key, '_'), str_under(p, rv))
            h = a['hash']
            add('hash-is-md5-of-id-and-key-field-raw-values', isinstance(h, App) and h.fn == 'md5-hexdigest' and veq_str(h.args[0], key), f'hash={h!r}, expected md5 of {key!r}')
            # reads: only the id, the field list, the primary-key flags and the raw values of key fields
            bad = []
            for (o, n) in p.ex.ghost.get('reads_snapshot', reads):
                if o is msg and n not in ('id', 'fields', 'source_iso_name'):
                    bad.append(f'message.{n}')
                if o in a['fields'] and n not in ('part_of_primary_key', 'raw_value'):
                    bad.append(f'field.{n}')
                if o in a['fields'] and n == 'raw_value' and not o.attrs['part_of_primary_key']:
                    bad.append('raw_value of a non-key field')
            add('reads-only-id-and-key-fields', not bad, f'also reads {sorted(set(bad))}')
        for ob in obs:
            res = discharge(ob, budget(tier))
            dct = result_dict(res, with_size=False)
            dct['function'] = info.fullname
            if res.status == 'refuted':
                dct['reason'] = ob.meta.get('note', '')
                dct['replay'] = replay_hash()
            out['results'].append(dct)
        return out


def str_under(p, rv):
    """str(raw_value) for the alternative the path has chosen."""
    s = z3.Solver()
    s.add(*p.pc)
    for g, v in rv.alts:
        s.push()
        s.add(g)
        r = s.check()
        s.pop()
        if r == z3.sat:
            if v is None:
                return 'None'
            return SStr([Fmt(v, '' if v.ty == 'int' else 'float')])
    return 'None'


def veq_str(a, b):
    if isinstance(a, str) and isinstance(b, str):
        return a == b
    try:
        return SStr.eq(None, a, b)
    except V.Unsupported:
        return False        # not of the shape the property prescribes: the obligation fails and the native replay decides


def replay_hash():
    """Native check on the real decoder: equal ids + equal key raws <=> equal hashes; independence of everything else."""
    import hashlib
    from nmea2000.decoder import NMEA2000Decoder
    from contracts.decoder_scenarios import HISTORY
    bad = None
    for prefs in ({}, ):
        d1 = NMEA2000Decoder(build_network_map=True)
        d1.started_at = d1.started_at.replace(year=2000)
        seen = {}
        for line, comb in HISTORY + HISTORY:
            try:
                m = d1.decode_basic_string(line, comb)
            except Exception:  # noqa
                continue
            if m is None:
                continue
            key = m.id + ''.join('_' + str(f.raw_value) for f in m.fields if f.part_of_primary_key)
            want = hashlib.md5(key.encode()).hexdigest()
            if m.hash != want:
                bad = {'frame': line, 'observed': m.hash, 'expected': f'md5({key!r}) = {want}'}
                break
    if bad is None:
        bad = grid_hash()
    d2 = NMEA2000Decoder(build_network_map=False)
    m = d2.decode_basic_string(HISTORY[0][0], False)
    if bad is None and m is not None and m.hash is not None:
        bad = {'observed': f'hash {m.hash} with network mapping off', 'expected': None}
    return {'confirmed': bad is not None, 'inputs': bad, 'how': 'scripted history through NMEA2000Decoder(build_network_map=True) on the working tree'}


def grid_hash():
    """add_data of the working tree on hand-built messages: over a grid of ids and key-field raw values (None, ints,
    a float, text), equal (id, key raws) <=> equal hash, and non-key raws / addressing are ignored."""
    from nmea2000.message import NMEA2000Message, NMEA2000Field
    vals = [None, 0, 1, 12, 1.5, 'None', '1', 'ØRESUND', 'ÅRESUND', 'RESUND', 'Køge', '港A', '湾A']      # texts that differ only in non-ASCII characters

    def mk(mid, keys, other, src):
        fs = [NMEA2000Field(id=f'k{i}', part_of_primary_key=True, raw_value=v, value=v) for i, v in enumerate(keys)]
        fs.insert(1 if fs else 0, NMEA2000Field(id='o', part_of_primary_key=False, raw_value=other, value=other))
        m = NMEA2000Message(PGN=127507, id=mid, fields=fs)
        m.add_data(src, 255 - src, src % 8, None, None, True, None)
        return m.hash
    seen = {}
    for mid in ('chargerStatus', 'other'):
        for k in range(0, 4):
            for keys in itertools.product(vals, repeat=k):
                if any(isinstance(v, str) for v in keys[:-1]):
                    continue                                   # text-valued key fields are last (database lemma)
                if keys and keys[-1] == 'None' or keys and keys[-1] == '1':
                    continue                                   # a text equal to the rendering of a number is outside the grid
                h1, h2 = mk(mid, keys, 5, 1), mk(mid, keys, None, 7)
                if h1 is None or h1 != h2:
                    return {'id': mid, 'key_raw_values': list(keys), 'observed': f'hash {h1} vs {h2} when only non-key data / addressing differ', 'expected': 'equal, not None'}
                if h1 in seen and seen[h1] != (mid, keys):
                    return {'id': mid, 'key_raw_values': list(keys), 'other': {'id': seen[h1][0], 'key_raw_values': list(seen[h1][1])},
                            'observed': f'both hash to {h1}', 'expected': 'different hashes (id or a key field differs)'}
                seen[h1] = (mid, keys)
    return None


def db_lemmas(tier):
    out = []
    d = db()
    ids_ok = all('_' not in x.id for x in d.defs)
    out.append(Obligation('C17/database/definition-ids-contain-no-underscore', [], z3.BoolVal(ids_ok), kind='lemma'))
    worst = 0
    lau_last = True
    for x in d.defs:
        ks = [f for f in x.fields if f.pk]
        worst = max(worst, len(ks))
        for f in ks[:-1]:
            if f.type in ('STRING_LAU', 'STRING_FIX', 'STRING_LZ', 'BINARY'):
                lau_last = False
    out.append(Obligation('C17/database/at-most-3-key-fields-per-definition', [], z3.BoolVal(worst <= 3), kind='lemma', meta={'note': f'max {worst}'}))
    out.append(Obligation('C17/database/text-valued-key-fields-are-last', [], z3.BoolVal(lau_last), kind='lemma'))
    return out


def pk_flag_lemmas(tier):
    """The primary-key flag the generated decoders give every field is the database's (read off the real AST of nmea2000/pgns.py:
    the ninth argument of each NMEA2000Field(...) construction in decode_pgn_<definition>).  The per-field proof of all nine
    arguments is C01; the flag is repeated here because the hash is defined by it."""
    import ast
    out = []
    r = repo()
    mod = r.load('pgns')
    d = db()
    for x in d.defs:
        if not d.selectable(x):
            continue
        fi = mod.functions.get(f'decode_pgn_{x.suffix}')
        if fi is None:
            continue
        got = {}
        for n in ast.walk(fi.node):
            if isinstance(n, ast.Call) and isinstance(n.func, ast.Name) and n.func.id == 'NMEA2000Field' and n.args and isinstance(n.args[0], ast.Constant):
                pk = None
                if len(n.args) >= 9:
                    pk = n.args[8]
                for kw in n.keywords:
                    if kw.arg == 'part_of_primary_key':
                        pk = kw.value
                got[n.args[0].value] = (pk.value if isinstance(pk, ast.Constant) else ('?' if pk is not None else None))
        bad = []
        fields = x.fields if x.first_unsupported is None else x.fields[:x.first_unsupported]
        for f in fields:
            g = got.get(f.expected_id, 'missing')
            if g == 'missing':
                continue            # field construction not found by id (C01 reports that)
            if bool(g) != bool(f.pk) or g == '?':
                bad.append(f'{f.expected_id}: flag {g!r}, database {f.pk!r}')
        if any(f.pk for f in fields) or bad:
            out.append(Obligation(f'C17/pgns.decode_pgn_{x.suffix}/primary-key-flags-equal-the-database', [], z3.BoolVal(not bad), kind='lemma', meta={'note': '; '.join(bad)[:200]}))
    return out


def join_lemmas():
    items = []
    names = 'abc'
    for k in range(0, 4):
        decl = ['(set-logic QF_SLIA)', '(declare-const i1 String)', '(declare-const i2 String)', '(assert (not (str.contains i1 "_")))', '(assert (not (str.contains i2 "_")))']
        l, r, diff = ['i1'], ['i2'], ['(distinct i1 i2)']
        for j in range(k):
            x, y = f'{names[j]}1', f'{names[j]}2'
            decl += [f'(declare-const {x} String)', f'(declare-const {y} String)']
            if j < k - 1:
                decl += [f'(assert (not (str.contains {x} "_")))', f'(assert (not (str.contains {y} "_")))']
            l += ['"_"', x]
            r += ['"_"', y]
            diff.append(f'(distinct {x} {y})')
        cat = lambda xs: xs[0] if len(xs) == 1 else '(str.++ ' + ' '.join(xs) + ')'
        text = '\n'.join(decl + [f'(assert (= {cat(l)} {cat(r)}))', f'(assert (or {" ".join(diff)}))', '(check-sat)'])
        items.append((f'C17/lemma/key-is-injective[{k}-key-fields]', text))
    return items


def main(tier):
    run = PropertyRun('C17', tier, level='proof')
    for k in range(0, 4):
        for pks in itertools.product((False, True), repeat=k):
            run.add(AddDataTask(list(pks), True))
    run.add(AddDataTask([True, False], False), AddDataTask([], False))
    from contracts.decoder_c import DecodeTask
    for combined in (True, False):
        run.add(DecodeTask('C17', combined, False))
    run.add(LemmaTask('C17:database', db_lemmas))
    repo().load('pgns')
    run.add(LemmaTask('C17:primary-key-flags', pk_flag_lemmas))
    run.add(RawSmtTask('C17:join-injectivity', join_lemmas()))
    run.trust('MD5 treated as injective; str() of an int / float / None contains no underscore (cross-checked by ./check selftest)',
              'cvc5 1.0.3 string solver for the join lemma', 'the primary-key flag of every field equals the database (C01 field attributes)')
    run.assume('field lists of at most 3 fields in the body check (loop unrolled; the loop body is independent per field)',
               'the hash is computed before unit conversion and from raw values: apply_preferred_units never writes raw_value (C18)')
    return run.execute()
