"""C16  Decoder instances are isolated and unharmed by bad input."""
from __future__ import annotations
import ast
import z3
from pyvc.report import PropertyRun, Task
from pyvc.tasks import repo, LemmaTask
from pyvc.solve import Obligation
from contracts.decoder_c import DecodeTask, init_tasks


def purity_lemmas(modname, prop='C16'):
    """Syntactic frame scan: functions of the module never write module globals, class attributes or (for the
    generated code) anything but their own locals and the objects they allocate."""
    def build(tier):
        r = repo()
        mod = r.load(modname)
        out = []
        module_names = set(mod.assigns) | set(mod.functions) | set(mod.classes)

        def scan(fi, label):
            node = fi.node
            params = {a.arg for a in node.args.posonlyargs + node.args.args + node.args.kwonlyargs}
            bad = []
            local = set(params)
            for n in ast.walk(node):
                if isinstance(n, (ast.Global, ast.Nonlocal)):
                    bad.append(f'{type(n).__name__.lower()} {n.names}')
                if isinstance(n, ast.Name) and isinstance(n.ctx, ast.Store):
                    local.add(n.id)            # assignment, for / comprehension / with / except targets
                if isinstance(n, ast.ExceptHandler) and n.name:
                    local.add(n.name)
            for n in ast.walk(node):
                tg = []
                if isinstance(n, ast.Assign):
                    tg = n.targets
                elif isinstance(n, (ast.AugAssign, ast.AnnAssign)):
                    tg = [n.target]
                elif isinstance(n, ast.Delete):
                    tg = n.targets
                for t in tg:
                    if isinstance(t, (ast.Attribute, ast.Subscript)):
                        b = t
                        while isinstance(b, (ast.Attribute, ast.Subscript)):
                            b = b.value
                        if isinstance(b, ast.Name) and b.id not in local and b.id in module_names:
                            bad.append(f'write through module-level name {b.id}')
                        if isinstance(b, ast.Name) and b.id not in local and b.id not in module_names and b.id != 'self':
                            bad.append(f'write through non-local name {b.id}')
                if isinstance(n, ast.Call) and isinstance(n.func, ast.Attribute) and n.func.attr in ('append', 'extend', 'update', 'add', 'remove', 'clear', 'pop', 'setdefault', 'insert'):
                    b = n.func.value
                    while isinstance(b, (ast.Attribute, ast.Subscript)):
                        b = b.value
                    if isinstance(b, ast.Name) and b.id not in local and b.id in module_names:
                        bad.append(f'mutating call {n.func.attr} on module-level {b.id}')
            out.append(Obligation(f'{prop}/frame-scan/{modname}.{label}/writes-no-module-or-class-state', [], z3.BoolVal(not bad), kind='frame',
                                  meta={'note': '; '.join(sorted(set(bad)))[:200]}))
        for name, fi in mod.functions.items():
            if modname == 'pgns' and not name.startswith(('decode_pgn', 'encode_pgn', 'is_fast_pgn', 'lookup_encode', 'lookup_field_type')):
                continue
            scan(fi, name)
        for cname, ci in mod.classes.items():
            mutable = [k for k, v in ci.class_attrs.items() if isinstance(v, (ast.Dict, ast.List, ast.Set, ast.Call, ast.ListComp, ast.DictComp, ast.SetComp))]
            if not ci.is_dataclass:
                # annotated class-level assignments (`data: dict[str, X] = {}`) are class attributes too
                mutable += [k for k, v in ci.fields if isinstance(v, (ast.Dict, ast.List, ast.Set, ast.Call, ast.ListComp, ast.DictComp, ast.SetComp))]
            if not ('Enum' in ci.bases):
                out.append(Obligation(f'{prop}/frame-scan/{modname}.{cname}/no-mutable-class-attributes', [], z3.BoolVal(not mutable), kind='frame', meta={'note': f'{mutable}'}))
            for mname, fi in ci.methods.items():
                scan(fi, f'{cname}.{mname}')
        return out
    return build


def main(tier):
    run = PropertyRun('C16', tier, level='proof')
    for combined in (True, False):
        for claim in (True, False):
            run.add(DecodeTask('C16', combined, claim))
            if not claim:
                run.add(DecodeTask('C16', combined, claim, data_len=3 if not combined else 12))     # the outcome does not depend on how many data bytes a frame carries
    for t in init_tasks('C16'):
        run.add(t)
    from props.C04 import TransitionTask
    for m in range(0, 9):
        run.add(TransitionTask(m, prop='C16', only=('exception-leaves-the-view-unchanged', 'assigns-only-the-record', 'assigns-no-other-decoder-state',
                                                   'raises', 'is-ignored', 'first-frame-restarts-the-record')))
    repo().load('pgns')
    for mod in ('decoder', 'encoder', 'message', 'utils', 'pgns'):
        run.add(LemmaTask(f'C16:frame-scan[{mod}]', purity_lemmas(mod)))
    run.trust('pyvc heap model: objects are Python objects of the run, argument lists are checked by identity and content', 'z3 5.1')
    run.assume('reset lemma: the record written by a first frame with a fresh counter does not depend on the old record (obligation first-frame-restarts-the-record of the transition contract)',
               'a record left behind by a message whose field decoder raised at completion is replaced by the next first frame (same obligation); a single-frame message never reads the records',
               'the frame scan is syntactic (assignment / mutating-call targets resolved by name): aliasing of module-level objects through locals is not tracked',
               'datetime.now() only reaches timestamps and the discovery-window test')
    return run.execute()
