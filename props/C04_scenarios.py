"""Scripted native scenarios used to replay refuted obligations of C04 (and C03) on the real decoder, with a
reference reassembler written from the property text.  A bounded battery - used only to find a concrete
failing history for an obligation the solver refuted, never counted as proof."""
from __future__ import annotations
import itertools
import random

PGN = 126720   # proprietary fast packet, addressed: unknown manufacturer falls to the BINARY fallback definition


def can_id(pgn, src, dst, prio=3):
    pf = (pgn >> 8) & 0xFF
    ps = dst if pf < 240 else pgn & 0xFF
    return (prio << 26) | (((pgn >> 16) & 3) << 24) | (pf << 16) | (ps << 8) | src


def packet(pgn, src, dst, data):
    assert len(data) <= 8
    return bytes([0x80 | len(data)]) + can_id(pgn, src, dst).to_bytes(4, 'big') + bytes(data) + bytes(8 - len(data))


def frames_of(payload, seq, pad=None):
    n = len(payload)
    out = []
    nf = 1 if n <= 6 else 1 + (n - 6 + 6) // 7
    for i in range(nf):
        chunk = payload[0:6] if i == 0 else payload[6 + 7 * (i - 1): 6 + 7 * i]
        fr = bytes([(seq << 5) | i]) + (bytes([n]) if i == 0 else b'') + bytes(chunk)
        if pad is not None:
            fr = fr + bytes([pad]) * (8 - len(fr))
        out.append(fr)
    return out


def payload_of(msg):
    """Observe the payload a returned message was decoded from (through its fields)."""
    if msg is None:
        return None
    return tuple((f.id, f.value if not isinstance(f.value, (bytes, bytearray)) else bytes(f.value).hex()) for f in msg.fields)


def expected_fields(payload):
    from nmea2000.decoder import NMEA2000Decoder
    d = NMEA2000Decoder()
    m = d._call_decode_function(PGN, 3, 1, 255, None, bytes(payload[::-1]), None, b'')
    return payload_of(m)


class Ref:
    """Reference reassembler (transition function T of the property)."""
    def __init__(self):
        self.rec = {}

    def feed(self, key, data):
        if len(data) == 0:
            return None
        c, q = data[0] & 31, data[0] >> 5
        if c == 0 and len(data) < 2:
            return None
        r = self.rec.get(key)
        if r is None:
            r = {'plen': 0, 'seq': -1, 'slots': {}}
        if c != 0 and r['plen'] == 0:
            return None
        if c == 0 and q != r['seq']:
            r = {'plen': data[1], 'seq': q, 'slots': {0: bytes(data[2:])}}
        elif q != r['seq'] or c in r['slots']:
            return None
        else:
            r['slots'][c] = bytes(data[1:])
        self.rec[key] = r
        stored = sum(len(v) for v in r['slots'].values())
        if stored >= r['plen']:
            pl = b''.join(r['slots'][k] for k in sorted(r['slots']))[:r['plen']]
            del self.rec[key]
            return pl
        return None


def run_history(hist):
    """hist: list of (src, dst, frame bytes).  Returns (observed, expected) lists of per-step outcomes."""
    from nmea2000.decoder import NMEA2000Decoder
    dec = NMEA2000Decoder()
    ref = Ref()
    obs, exp = [], []
    for (src, dst, fr) in hist:
        try:
            m = dec.decode_tcp(packet(PGN, src, dst, fr))
            o = None if m is None else (m.source, m.destination, payload_of(m))
        except Exception as e:  # noqa
            o = ('raise', type(e).__name__)
        p = ref.feed((PGN, src, dst), fr)
        e = None if p is None else (src, dst, expected_fields(p))
        obs.append(o)
        exp.append(e)
    return obs, exp


def histories(seed=0):
    rnd = random.Random(seed)

    def pay(n, tag):
        # manufacturer code 2046 (unknown) so that the fallback BINARY definition decodes the payload
        body = bytes([0xFE, 0x9F]) + bytes(((tag * 37 + i * 11) % 251) for i in range(max(0, n - 2)))
        return body[:n] if n >= 2 else body[:n]
    A = pay(20, 1)
    B = pay(20, 2)
    C = pay(9, 3)
    out = []
    # in order, exact and padded
    for pad in (None, 0xFF, 0x00):
        for P in (A, C, pay(6, 4), pay(13, 5), pay(7, 6)):
            out.append(('in-order pad=%r n=%d' % (pad, len(P)), [(1, 255, f) for f in frames_of(P, 1, pad)]))
    # reordering of non-first frames
    fa = frames_of(A, 2, 0xFF)
    for perm in itertools.permutations(fa[1:]):
        out.append(('reordered', [(1, 255, fa[0])] + [(1, 255, f) for f in perm]))
    # duplicates
    out.append(('duplicates', [(1, 255, fa[0]), (1, 255, fa[1]), (1, 255, fa[1]), (1, 255, fa[2]), (1, 255, fa[2])]))
    out.append(('stray duplicate after delivery', [(1, 255, f) for f in fa] + [(1, 255, fa[1]), (1, 255, fa[2])] + [(1, 255, f) for f in frames_of(B, 3, 0xFF)]))
    # stray duplicates after delivery for every tail length (the last frame carries 1..7 payload bytes plus padding)
    for n in range(7, 22):
        P = pay(n, n)
        fp = frames_of(P, 2, 0xFF)
        for dup in (fp[1:], fp[1:][::-1], fp[1:] + fp[1:]):
            out.append((f'stray duplicates after delivery n={n}', [(1, 255, f) for f in [fp[0]] + fp[1:][::-1]] + [(1, 255, f) for f in dup] + [(1, 255, f) for f in frames_of(B, 3, 0xFF)]))
    # loss then next message
    fb = frames_of(B, 3, 0xFF)
    out.append(('loss', [(1, 255, fa[0]), (1, 255, fa[1])] + [(1, 255, f) for f in fb]))
    out.append(('loss-of-last', [(1, 255, fa[0]), (1, 255, fa[1])] + [(1, 255, fb[0]), (1, 255, fa[2])] + [(1, 255, f) for f in fb[1:]]))
    # interleaving of streams that differ in source / destination
    for (s1, d1, s2, d2) in ((1, 255, 2, 255), (1, 10, 1, 20), (0, 10, 0, 20), (1, 1, 2, 0), (4, 3, 1, 5), (3, 255, 3, 7)):
        f1 = frames_of(A, 1, 0xFF)
        f2 = frames_of(B, 1, 0xFF)
        h = []
        for x, y in zip(f1, f2):
            h += [(s1, d1, x), (s2, d2, y)]
        out.append((f'interleaved {s1}->{d1} / {s2}->{d2} same counter', h))
        f2 = frames_of(B, 4, 0xFF)
        h = []
        for x, y in zip(f1, f2):
            h += [(s1, d1, x), (s2, d2, y)]
        out.append((f'interleaved {s1}->{d1} / {s2}->{d2}', h))
    # many streams at once (24 and 40 sources), round-robin: no stream may disturb another however many there are
    for nstreams in (24, 40):
        fs = [frames_of(pay(20, 50 + k), k % 8, 0xFF) for k in range(nstreams)]
        h = []
        for j in range(len(fs[0])):
            for k in range(nstreams):
                h.append((10 + k, 255, fs[k][j]))
        out.append((f'interleaved {nstreams} streams round-robin', h))
    # counter wrap: nine consecutive messages on one stream
    h = []
    for k in range(10):
        h += [(1, 255, f) for f in frames_of(pay(9 + k, k), k % 8, 0xFF)]
    out.append(('consecutive messages, counter wraps', h))
    # the same sequence counter again after a delivered message (one encoder counter shared by many PGNs wraps every 8 messages)
    out.append(('same counter after delivery', [(1, 255, f) for f in frames_of(A, 5, 0xFF)] + [(1, 255, f) for f in frames_of(B, 5, 0xFF)]))
    # random histories: several streams, each a sequence of messages whose non-first frames are shuffled, duplicated or lost
    for k in range(120):
        streams = []
        for (sd, dd) in rnd.sample([(1, 255), (2, 255), (1, 10), (1, 20), (0, 0), (7, 3)], rnd.randint(1, 3)):
            fs = []
            seq = rnd.randrange(8)
            for mi in range(rnd.randint(1, 4)):
                P = pay(rnd.choice([2, 6, 7, 9, 13, 14, 20, 21, 27, 34]), rnd.randrange(200))
                fr = frames_of(P, seq, rnd.choice([None, 0xFF, 0x00]))
                rest = fr[1:]
                mode = rnd.randrange(5)
                if mode == 1:
                    rnd.shuffle(rest)
                elif mode == 2 and rest:
                    rest = rest + [rnd.choice(rest)]
                    rnd.shuffle(rest)
                elif mode == 3 and rest:
                    rest.pop(rnd.randrange(len(rest)))
                elif mode == 4 and rest:
                    rest = rest + rest
                fs += [(sd, dd, f) for f in [fr[0]] + rest]
                seq = (seq + rnd.choice([1, 1, 1, 2, 0])) % 8
            streams.append(fs)
        h = []
        while any(streams):
            st = rnd.choice([x for x in streams if x])
            h.append(st.pop(0))
        out.append((f'random history {k}', h))
    # truncated frames then a good message
    out.append(('short frames', [(1, 255, bytes([0x20, 0x09])), (1, 255, bytes([0x21])), (1, 255, bytes([0x22])), (1, 255, b'')] + [(1, 255, f) for f in frames_of(C, 2, 0xFF)]))
    return out


def first_failure(want=None):
    for name, h in histories():
        if want and not any(w in name for w in want):
            continue
        try:
            obs, exp = run_history(h)
        except Exception as e:  # noqa
            return {'history': name, 'error': repr(e)}
        # short/garbage frames may raise in the library: only compare steps the reference delivers or ignores
        bad = [i for i, (o, e) in enumerate(zip(obs, exp)) if o != e and not (isinstance(o, tuple) and o and o[0] == 'raise' and e is None)]
        if bad:
            i = bad[0]
            return {'history': name, 'frames': [(s, d, f.hex()) for s, d, f in h], 'step': i, 'observed': repr(obs[i])[:400], 'expected': repr(exp[i])[:400]}
    return None


SCENARIO_FILTER = {'padding': ['pad='], 'cross-stream': ['interleaved'], 'completion': None}


def replay_for(obname, scenario, model, m):
    f = first_failure(SCENARIO_FILTER.get(scenario)) or first_failure(None)
    if f is None:
        return {'confirmed': None, 'note': 'no scripted history reproduces the refuted obligation', 'solver_model': {k: v for k, v in model.items() if v not in (0, False)}}
    return {'confirmed': True, 'inputs': f, 'how': 'frames fed to NMEA2000Decoder.decode_tcp on the working tree; expected outcome from the reference reassembler written from the property text',
            'solver_model': {k: v for k, v in model.items() if v not in (0, False)}}


def fallback_results():
    f = first_failure(None)
    if f is None:
        return []
    return [{'obligation': 'C04/decoder.NMEA2000Decoder._decode_fast_message/bounded-fallback', 'kind': 'bounded', 'status': 'refuted',
             'backend': 'native-scenarios', 'seconds': 0.0, 'model': {}, 'replay': {'confirmed': True, 'inputs': f}}]
