"""C09  Encoding never silently corrupts a value."""
from __future__ import annotations
import time
import z3
from pyvc import values as V
from pyvc.values import Sym, bool_term, vand, vor, vnot, veq, mk_bool, mk_int, mk_float, ite
from pyvc.gv import GV
from pyvc.sbytes import SBytes
from pyvc.report import PropertyRun, Task
from pyvc.tasks import SpecTask, LemmaTask, repo, budget, result_dict
from pyvc.solve import Obligation, discharge
from pyvc.symex import explore, Obj, FuncVal, PyRaise, make_exc
from contracts import pgns_c
from contracts.utils_c import EncodeNumber
from contracts.message_c import GetFieldById
from spec import canboat as C
from spec import specfun as S
from props.C01 import db, term, chunks
from props.C02 import run_encoder, result_int, encodable_defs, bit_length_hook

U = z3.RealVal(1) / z3.RealVal(2 ** 53)


class FieldVars:
    """An arbitrary field: value and raw_value are each None, an int, a float or some other object."""
    def __init__(self, i):
        self.i = i
        self.tv = z3.Int(f'f{i}.value.tag')
        self.vi = z3.Int(f'f{i}.value.int')
        self.vf = z3.Real(f'f{i}.value.float')
        self.tr = z3.Int(f'f{i}.raw.tag')
        self.ri = z3.Int(f'f{i}.raw.int')
        self.rf = z3.Real(f'f{i}.raw.float')
        self.other = Obj(None, {}, clsname='OtherObject')

    def constraints(self):
        return [self.tv >= 0, self.tv <= 3, self.tr >= 0, self.tr <= 3]

    def value(self):
        return GV.make([(self.tv == 0, None), (self.tv == 1, mk_int(self.vi)), (self.tv == 2, mk_float(self.vf)), (self.tv == 3, self.other)])

    def raw(self):
        return GV.make([(self.tr == 0, None), (self.tr == 1, mk_int(self.ri)), (self.tr == 2, mk_float(self.rf)), (self.tr == 3, self.other)])

    def inputs(self):
        return {f'f{self.i}.value.tag': self.tv, f'f{self.i}.value.int': self.vi, f'f{self.i}.value.float': self.vf,
                f'f{self.i}.raw.tag': self.tr, f'f{self.i}.raw.int': self.ri, f'f{self.i}.raw.float': self.rf}

    def names(self):
        return {str(t) for t in (self.tv, self.vi, self.vf, self.tr, self.ri, self.rf)}


def free_names(t, acc=None):
    acc = set() if acc is None else acc
    seen = set()
    stack = [t]
    while stack:
        x = stack.pop()
        if x.get_id() in seen:
            continue
        seen.add(x.get_id())
        if z3.is_const(x) and x.decl().kind() == z3.Z3_OP_UNINTERPRETED:
            acc.add(str(x))
        elif z3.is_app(x):
            stack.extend(x.children())
    return acc


class ArbitraryMessageTask(Task):
    def __init__(self, defs):
        self.defs = defs
        self.name = f'C09:encoders[{defs[0].suffix}..{defs[-1].suffix}]'

    def run(self, tier):
        out = {'results': [], 'functions': [], 'notes': [], 'bounded': []}
        errs = []
        for defn in self.defs:
            try:
                self.one(defn, tier, out)
            except V.Unsupported as u:
                errs.append(f'encode_pgn_{defn.suffix}: outside the modelled subset: {u}')
        if errs:
            out['error'] = '; '.join(errs[:5])
        return out

    def one(self, defn, tier, out):
        r = repo()
        fname = f'encode_pgn_{defn.suffix}'
        base = f'C09/pgns.{fname}'
        fvs = [FieldVars(i) for i in range(len(defn.fields))]
        calls = []
        t0 = time.time()

        def make_msg(ex):
            fields = []
            for f, fv in zip(defn.fields, fvs):
                for c in fv.constraints():
                    ex.assume(c)
                ci = r.cls('message', 'NMEA2000Field')
                fields.append(Obj(ci, {'id': f.expected_id, 'name': f.name, 'value': fv.value(), 'raw_value': fv.raw()}))
            ci = r.cls('message', 'NMEA2000Message')
            calls.clear()
            ex.ghost['get_field_calls'] = calls
            return Obj(ci, {'PGN': defn.pgn, 'id': defn.id, 'description': defn.description, 'fields': fields})
        info, results = run_encoder(r, defn, make_msg)
        if info is None:
            return
        fd = info.describe()
        fd['paths'] = len(results)
        fd['symex_seconds'] = round(time.time() - t0, 3)
        out['functions'].append(fd)
        inputs = {}
        for fv in fvs:
            inputs.update(fv.inputs())
        obs = []

        def add(name, hyps, goal, meta=None, fm='S', exact=False):
            m = dict(meta or {})
            m['exact_i2f'] = exact
            obs.append(Obligation(f'{base}/{name}', hyps, goal, kind='ensures', func=info.fullname, inputs=inputs, meta=m, float_model=fm))
        cons = [c for fv in fvs for c in fv.constraints()]
        for pi, p in enumerate(results):
            for (oname, cond, pc_snap) in p.ex.obligations:
                add(oname, pc_snap, cond)
            if p.kind == 'raise':
                add(f'arbitrary-message-reaches-the-end/path[{pi}]', cons, z3.BoolVal(False), meta={'note': f'encoder raises {p.exc_name()} unconditionally'})
                continue
            R = result_int(p.value)
            raises = p.ex.ghost.get('raises', [])
            any_raise = z3.Or(*[g for (_, _, g) in raises]) if raises else z3.BoolVal(False)
            core = p.ex.pc_core()
            # the fields are fetched by the database ids, in order (with get_field_by_id's contract: a missing field raises ValueError)
            want_ids = [f.expected_id for f in defn.fields]
            got_ids = list(p.ex.ghost.get('get_field_calls', []))
            add(f'fields-fetched-by-database-id/path[{pi}]', cons, z3.BoolVal(got_ids == want_ids), meta={'note': f'{got_ids[:6]}... vs {want_ids[:6]}...'})
            allnames = set()
            for fv in fvs:
                allnames |= fv.names()
            gnames = [(g, free_names(g)) for (lb, _, g) in raises if lb != 'to_bytes']
            for (lb, exc, g) in raises:
                if lb == 'to_bytes':
                    hy = cons + [c for c in core if 'pow2' in c.sexpr()]
                    add(f'no-{exc}[to_bytes]/path[{pi}]', hy, z3.Not(g), fm=None, meta={'note': 'int.to_bytes overflow'})
            core_all = core
            core_names = [(c, free_names(c)) for c in core_all]
            # every recorded exceptional outcome depends on one field only (frame for the error conditions)
            for k, (g, ns) in enumerate(gnames):
                owners = {n.split('.')[0] for n in ns if n in allnames}
                add(f'error-condition[{k}]-depends-on-one-field/path[{pi}]', cons, z3.BoolVal(len(owners) <= 1), meta={'note': f'depends on {sorted(owners)}'})
            for i, (f, fv) in enumerate(zip(defn.fields, fvs)):
                mine = fv.names()
                others = allnames - mine
                own_raises = [g for (g, ns) in gnames if ns & mine]
                any_raise = z3.Or(*own_raises) if own_raises else z3.BoolVal(False)
                # hypotheses: facts that do not mention other fields; the other fields are fixed to harmless values
                # (sound because, by the two frame obligations, this field's bits and error conditions depend on this field only)
                core = [c for (c, ns) in core_names if not (ns & others)] + benign(defn, fvs, i)
                code = S.bits(R, f.offset_bits, f.L)
                ct = V.int_term(code)
                tag = f'field[{i}:{f.expected_id}]'
                # frame: this field's bits depend on this field's value only
                fn = free_names(ct) if isinstance(code, Sym) else set()
                foreign = sorted(n for n in fn if n.startswith('f') and '.' in n and n not in fv.names())
                add(f'{tag}.bits-depend-only-on-this-field/path[{pi}]', cons, z3.BoolVal(not foreign), meta={'note': f'depends on {foreign[:4]}'})
                L = f.L
                full = (1 << L) - 1
                ok = z3.Not(any_raise)
                t = f.type
                if t in ('NUMBER', 'PGN', 'DURATION'):
                    signed = f.signed and not f.excess_k
                    na = S.maxraw(L, signed)
                    res = V.real_q(f.res)
                    off = V.real_q(f.off)
                    n = z3.If(ct >= (1 << (L - 1)), ct - (1 << L), ct) if signed else ct
                    dec = z3.ToReal(n) * res + off
                    half = res / 2
                    for (tg, v, nm) in ((1, z3.ToReal(fv.vi), 'int'), (2, fv.vf, 'float')):
                        absv = z3.If(v >= 0, v, -v)
                        goal = z3.Implies(z3.And(ok, fv.tv == tg), z3.And(n != na, dec - v <= half + 8 * U * (absv + abs(float(f.off)) + 1), v - dec <= half + 8 * U * (absv + abs(float(f.off)) + 1)))
                        add(f'{tag}.number-within-half-a-step-or-rejected[{nm}]/path[{pi}]', core, goal)
                    add(f'{tag}.absent-stays-absent/path[{pi}]', core, z3.Implies(z3.And(ok, fv.tv == 0), ct == na), fm=None)
                    add(f'{tag}.non-number-rejected/path[{pi}]', core, z3.Implies(fv.tv == 3, any_raise), fm=None)
                elif t == 'RESERVED':
                    add(f'{tag}.exact-or-rejected[RESERVED]/path[{pi}]', core, z3.Implies(z3.And(ok, fv.tv == 1), ct == fv.vi), fm=None, meta={'kind': 'RESERVED', 'L': L, 'field_index': i})
                    add(f'{tag}.non-int-rejected/path[{pi}]', core, z3.Implies(fv.tv != 1, any_raise), fm=None)
                elif t == 'LOOKUP':
                    add(f'{tag}.exact-or-rejected[LOOKUP]/path[{pi}]', core, z3.Implies(z3.And(ok, fv.tr == 1), ct == fv.ri), fm=None, meta={'kind': 'LOOKUP', 'L': L, 'field_index': i})
                    add(f'{tag}.absent-lookup-is-rejected/path[{pi}]', core, z3.Implies(z3.And(fv.tr == 0, fv.tv == 0), any_raise), fm=None)
                elif t == 'DATE':
                    add(f'{tag}.exact-or-rejected[DATE]/path[{pi}]', core, z3.Implies(z3.And(ok, fv.tr == 1), ct == fv.ri), fm=None, meta={'kind': 'DATE', 'L': L, 'field_index': i})
                    add(f'{tag}.absent-stays-absent/path[{pi}]', core, z3.Implies(z3.And(ok, fv.tr == 0, fv.tv == 0), ct == full), fm=None)
                elif t == 'TIME':
                    res = V.real_q(f.res)
                    for (tg, v, nm) in ((1, z3.ToReal(fv.ri), 'int'), (2, fv.rf, 'float')):
                        absv = z3.If(v >= 0, v, -v)
                        dec = z3.ToReal(ct) * res
                        goal = z3.Implies(z3.And(ok, fv.tr == tg), z3.And(dec - v <= res / 2 + 8 * U * (absv + 1), v - dec <= res / 2 + 8 * U * (absv + 1)))
                        add(f'{tag}.exact-or-rejected[TIME,{nm}]/path[{pi}]', core, goal, meta={'kind': 'TIME', 'L': L, 'field_index': i})
                    add(f'{tag}.absent-stays-absent/path[{pi}]', core, z3.Implies(z3.And(ok, fv.tr == 0, fv.tv == 0), ct == full), fm=None)
        for ob in obs:
            res = discharge(ob, budget(tier))
            dct = result_dict(res, with_size=False)
            dct['function'] = f'pgns.{fname}'
            if res.status == 'refuted':
                if ob.meta.get('note'):
                    dct['reason'] = ob.meta['note']
                if res.model is not None:
                    dct['replay'] = replay_arbitrary(defn, res.model)
                    k = ob.meta.get('kind')
                    if k:
                        i = ob.meta['field_index']
                        f = defn.fields[i]
                        m = res.model
                        if k == 'RESERVED':
                            v = m.get(f'f{i}.value.int', 0)
                        elif k in ('LOOKUP', 'DATE'):
                            v = m.get(f'f{i}.raw.int', 0)
                        else:
                            x = m.get(f'f{i}.raw.int', 0) if m.get(f'f{i}.raw.tag') == 1 else m.get(f'f{i}.raw.float', 0.0)
                            v = round(x / float(f.res))
                        dct['replay']['witness'] = {'field': f.fid, 'kind': k, 'bits': f.L, 'integer_to_store': v,
                                                    'out_of_field_range': not (0 <= v < (1 << f.L))}
            out['results'].append(dct)


def benign(defn, fvs, skip):
    out = []
    for j, (f, fv) in enumerate(zip(defn.fields, fvs)):
        if j == skip:
            continue
        if f.type in ('NUMBER', 'PGN', 'DURATION'):
            out += [fv.tv == 0, fv.tr == 0]
        elif f.type == 'RESERVED':
            out += [fv.tv == 1, fv.vi == 0, fv.tr == 0]
        elif f.type == 'LOOKUP':
            out += [fv.tr == 1, fv.ri == 0, fv.tv == 0]
        else:
            out += [fv.tv == 0, fv.tr == 0]
    return out


class Other:
    ALWAYS_TRUE = True        # a Python object of this kind is truthy (no __bool__ / __len__)
    def __repr__(self):
        return '<some other object>'


def native_message(defn, model):
    from nmea2000.message import NMEA2000Message, NMEA2000Field

    def val(i, which):
        tg = model.get(f'f{i}.{which}.tag', 0)
        if tg == 0:
            return None
        if tg == 1:
            return int(model.get(f'f{i}.{which}.int', 0))
        if tg == 2:
            return float(model.get(f'f{i}.{which}.float', 0.0))
        return Other()
    fields = [NMEA2000Field(id=f.expected_id, name=f.name, value=val(i, 'value'), raw_value=val(i, 'raw')) for i, f in enumerate(defn.fields)]
    return NMEA2000Message(PGN=defn.pgn, id=defn.id, fields=fields, source=1, destination=255, priority=3)


def replay_arbitrary(defn, model):
    """Encode the counterexample message with the real encoder, decode the payload with the real decoder and compare."""
    import nmea2000.pgns as P
    from fractions import Fraction
    enc = getattr(P, f'encode_pgn_{defn.suffix}')
    dec = getattr(P, f'decode_pgn_{defn.suffix}')
    msg = native_message(defn, model)
    shown = {f.id: {'value': repr(f.value), 'raw_value': repr(f.raw_value)} for f in msg.fields}
    info = {'inputs': {'fields': shown}, 'how': f'decode_pgn_{defn.suffix}(encode_pgn_{defn.suffix}(message)) on the working tree'}
    try:
        payload = enc(msg)
    except Exception as e:  # noqa
        return dict(info, confirmed=False, observed=['raise', type(e).__name__, str(e)[:120]], note='the encoder rejects this message')
    R = int.from_bytes(payload, 'little')
    diffs = []
    for f, fo in zip(defn.fields, msg.fields):
        code = (R >> f.offset_bits) & ((1 << f.L) - 1)
        if f.type in ('NUMBER', 'PGN', 'DURATION'):
            signed = f.signed and not f.excess_k
            n = code - (1 << f.L) if signed and code >= (1 << (f.L - 1)) else code
            if fo.value is None:
                if n != S.maxraw(f.L, signed):
                    diffs.append(f'{f.fid}: absent value encoded as {n}')
            elif isinstance(fo.value, (int, float)):
                decv = n * f.res + f.off
                if n == S.maxraw(f.L, signed) or abs(decv - Fraction(fo.value)) > f.res / 2 * (1 + Fraction(1, 2 ** 40)) + abs(Fraction(fo.value)) * Fraction(8, 2 ** 53):
                    diffs.append(f'{f.fid}: value {fo.value!r} encoded as raw {n} = {float(decv)}')
            else:
                diffs.append(f'{f.fid}: a non-number was accepted')
        elif f.type == 'RESERVED':
            if not (isinstance(fo.value, int) and code == fo.value):
                diffs.append(f'{f.fid}: reserved value {fo.value!r} encoded as {code}')
        elif f.type in ('LOOKUP', 'DATE'):
            if isinstance(fo.raw_value, int) and not isinstance(fo.raw_value, bool) and code != fo.raw_value:
                diffs.append(f'{f.fid}: raw value {fo.raw_value!r} encoded as {code}')
        elif f.type == 'TIME':
            if isinstance(fo.raw_value, (int, float)) and abs(code * f.res - Fraction(fo.raw_value)) > f.res / 2 * (1 + Fraction(1, 2 ** 40)) + abs(Fraction(fo.raw_value)) * Fraction(8, 2 ** 53):
                diffs.append(f'{f.fid}: raw value {fo.raw_value!r} encoded as {code} ticks = {float(code * f.res)}')
    return dict(info, confirmed=bool(diffs), observed={'payload': payload.hex(), 'differences': diffs[:6]}, expected='ValueError, or a payload that decodes back to the same values')


def main(tier):
    run = PropertyRun('C09', tier, level='proof')
    repo().load('pgns')
    for L in (1, 2, 3, 4, 5, 6, 8, 11, 12, 16, 21, 24, 28, 32, 64):
        for vk, rk, ok in (('int', 'int', 'zero'), ('float', 'float', 'zero'), ('float', 'int', 'zero'), ('int', 'float', 'zero'), ('none', 'float', 'zero'),
                           ('float', 'int', 'int'), ('int', 'int', 'int'), ('float', 'float', 'int')):
            run.add(SpecTask(EncodeNumber(L, vk, rk, ok)))
    run.add(SpecTask(GetFieldById(True)), SpecTask(GetFieldById(False)))
    from contracts.message_c import GetFieldDbTask
    for ch in chunks(encodable_defs(), 24):
        run.add(GetFieldDbTask('C09', ch))
    for ch in chunks(encodable_defs(), 48):
        run.add(ArbitraryMessageTask(ch))
    from contracts.helpers_c import encode_helper_tasks
    for t in encode_helper_tasks('C09'):
        run.add(t)
    from contracts.helpers_c import lookup_encode_tasks
    for t in lookup_encode_tasks('C09'):
        run.add(t)
    from props import C09_extra
    C09_extra.add(run, tier)
    run.trust('pyvc state-merging symbolic execution of the generated encoders', 'float model S (u = 2^-53)', 'z3 5.1 / cvc5 1.0.3')
    run.assume('field values are None, ints, finite floats or other objects (NaN and infinities are outside the real-number float model; they are covered by the bounded selftest)',
               'encode_date / encode_time / encode_float / lookup_encode_* through assumed contracts')
    return run.execute()
