"""C14  close() is final and status notifications are faithful."""
from pyvc.report import PropertyRun
from contracts import ioclient_c as I


def main(tier):
    run = PropertyRun('C14', tier, level='other')
    run.add(I.UpdateStateTask('C14'), I.CloseTask('C14'), I.ConnectTask('C14'), I.ReceiveLoopTask('C14'))
    # "after close() returns no receive callback runs": close() cancels the consumer task, and the consumer awaits the
    # callback itself, so the cancellation reaches a callback in progress (contract of _process_queue, also part of C12)
    run.add(I.ProcessQueueTask('C14'))
    for cls in ('EByteNmea2000Gateway', 'ActisenseNmea2000Gateway'):
        t = I.SendTask('C14', cls)
        t.only_g1 = True          # for send() only the closed-is-final guarantee belongs to this property (the rest is C19)
        run.add(t)
    from props import C14_extra
    C14_extra.add(run, tier)
    run.explanation = ('Deductive safety skeleton under assumed asyncio dependency contracts: (G1) rely/guarantee at every await - each atomic segment of connect, _receive_loop, send, '
                       'close and _update_state is proved never to write the connection state out of CLOSED, assuming only that the other tasks do the same (sound for every interleaving '
                       'and any number of tasks); no transport connection is attempted once CLOSED and a link that was opened while close() ran is shut; _update_state notifies exactly '
                       'once per change, with the new state, after the assignment, never for an unchanged state, and shields the client from callback exceptions; close() leaves CLOSED, '
                       'shuts the writer and requests cancellation of the receive and consumer tasks. NOT decided by these contracts (scheduler timing): that no receive callback runs '
                       'after close() returned and that the background tasks have finished - they depend on how the loop delivers the cancellation inside sleep(0.01).')
    run.trust('rely/guarantee encoding of cooperative concurrency: interference only at awaits of library awaitables', 'asyncio dependency contracts (DESIGN Appendix B)', 'z3 5.1')
    run.assume('asyncio: create_task does not run the coroutine before the creator suspends; Task.cancel delivers CancelledError at a suspension; user callbacks may suspend, raise Exception or be cancelled',
               'tenacity AsyncRetrying(stop_never, retry_if_exception_type(Exception)): one attempt body is verified; a failed attempt is re-run after the wait',
               'task-completion timing after close() is outside the contracts (DESIGN section 7)')
    return run.execute()
