"""C06 round trips on the real code: the packets the real encoder produces, handed to the real decoder of the same
format, reach _decode with the header the identifier parses to and the frame's bytes reversed; a USB packet with
any single corrupted byte in positions 2..19 is never decoded."""
from __future__ import annotations
import z3
from pyvc import values as V
from pyvc.values import Sym, vand, veq, mk_int
from pyvc.sbytes import SBytes
from pyvc.sstr import SStr, Atom, Fmt, sstr_concat
from pyvc.report import Task
from pyvc.tasks import repo
from pyvc.solve import Obligation
from pyvc.symex import explore, built_instance, Obj
from pyvc.builtins import EncodedStr, m_str_strip
from contracts.wire import Msg, frames_for, header_contracts, c_decode_logger, finish, term, seq_eq, ENC, DEC
from spec import specfun as S

FN = {'ebyte': ('encode_ebyte', 'decode_tcp'), 'usb': ('encode_usb', 'decode_usb'), 'yd': ('encode_yacht_devices', 'decode_yacht_devices_string'),
      'actisense': ('encode_actisense', 'decode_actisense_string')}


class WireRoundTrip(Task):
    def __init__(self, fmt, corrupt=None, prop='C06'):
        self.fmt = fmt
        self.corrupt = corrupt      # None or byte position (usb only)
        self.prop = prop
        self.name = f'{prop}:roundtrip[{fmt}{"" if corrupt is None else ",corrupt@" + str(corrupt)}]'

    def run(self, tier):
        out = {'results': [], 'functions': [], 'notes': [], 'bounded': []}
        r = repo()
        en, dn = FN[self.fmt]
        einfo, dinfo = r.func(ENC + en), r.func(DEC + dn)
        if einfo is None or dinfo is None:
            out['error'] = 'encoder/decoder entry point missing'
            return out
        out['functions'] += [einfo.describe(), dinfo.describe()]
        # frames produced by _encode are never empty: a counter byte (C03) or a payload of the definition's length (C02)
        lengths = list(range(1, 9)) if self.fmt != 'actisense' else [1, 3, 8, 17]
        base = f'{self.prop}/roundtrip[{self.fmt}]' + ('' if self.corrupt is None else f'/single-byte-corruption[{self.corrupt}]')

        def c_encode(ex, f, args, kwargs):
            return list(ex.ghost['frames'])

        def c_call_encode(ex, f, args, kwargs):
            return ex.ghost['frames'][ex.ghost['k']]

        def run(ex):
            g = ex.ghost
            m = Msg(ex, r)
            g['m'] = m
            g['frames'] = frames_for(ex, lengths)
            enc = built_instance(ex, r.cls('encoder', 'NMEA2000Encoder'), {'sequence_counter': ex.fresh('seq', bits=3)})
            dec = built_instance(ex, r.cls('decoder', 'NMEA2000Decoder'))
            outs = []
            if self.fmt == 'actisense':
                g['k'] = ex.choose(len(lengths), 'payload-length')
                s = ex._run_body(einfo, [m.obj], {}, enc)
                sec, ms = ex.fresh('ts.seconds', lo=0), ex.fresh('ts.millis', lo=0, hi=999)
                line = 'A'
                for p in (SStr([Fmt(sec, '')]), '.', SStr([Fmt(ms, '')]), ' ', s):
                    line = sstr_concat(line, p)
                outs.append(ex._run_body(dinfo, [line], {}, dec))
                g['marks'] = [len(g.get('decode_calls', []))]
                return outs
            pks = ex._run_body(einfo, [m.obj], {}, enc)
            g['marks'] = []
            for k, pk in enumerate(pks):
                if self.fmt == 'yd':
                    text = m_str_strip(ex, pk.s if isinstance(pk, EncodedStr) else pk.decode())
                    line = sstr_concat(sstr_concat(SStr([Atom('timestamp')]), ' R '), text)
                    outs.append(ex._run_body(dinfo, [line], {}, dec))
                else:
                    if self.corrupt is not None:
                        delta = ex.fresh(f'delta{k}', lo=1, hi=255)
                        items = list(SBytes.of(pk).items)
                        items[self.corrupt] = (items[self.corrupt] + delta) % 256
                        pk = SBytes(items)
                    outs.append(ex._run_body(dinfo, [pk], {}, dec))
                g['marks'].append(len(g.get('decode_calls', [])))
            return outs
        contracts = header_contracts()
        contracts['nmea2000.encoder.NMEA2000Encoder._encode'] = c_encode
        contracts['nmea2000.encoder.NMEA2000Encoder._call_encode_function'] = c_call_encode
        contracts['nmea2000.decoder.NMEA2000Decoder._decode'] = c_decode_logger()
        try:
            results = explore(r, run, contracts=contracts, inline={'nmea2000.encoder.NMEA2000Encoder.bytes_to_hex_string'})
        except V.Unsupported as u:
            out['error'] = f'round trip {self.fmt}: outside the modelled subset: {u}'
            return out
        obs = []
        for pi, p in enumerate(results):
            g = p.ex.ghost
            m = g['m']
            hyps = list(p.pc)
            inputs = dict(m.inputs)
            for k, fr in enumerate(g['frames']):
                for i, b in enumerate(fr.items):
                    inputs[f'frame{k}[{i}]'] = b.t

            def add(name, goal, note=''):
                obs.append(Obligation(f'{base}/{name}/path[{pi}]', hyps, term(goal), kind='lemma', inputs=inputs, meta={'note': note, 'fmt': self.fmt, 'roundtrip': True}))
            if p.kind == 'raise':
                add('no-exception', False, f'raises {p.exc_name()}')
                continue
            calls = g.get('decode_calls', [])
            marks = g['marks']
            if self.corrupt is not None:
                add('corrupted-packet-is-never-decoded', not calls and all(o is None for o in p.value), f'{len(calls)} decode calls')
                continue
            frames = g['frames'] if self.fmt != 'actisense' else [g['frames'][g['k']]]
            add('every-packet-is-accepted-once', marks == list(range(1, len(frames) + 1)), f'decode calls after each packet: {marks}')
            if len(calls) != len(frames):
                continue
            if self.fmt == 'actisense':
                pgn, src, dst, prio = m.pgn, m.src, m.dst, m.prio
            else:
                pgn, src, dst, prio = S.extract(S.build(m.pgn, m.src, m.dst, m.prio))
            for k, (c, fr) in enumerate(zip(calls, frames)):
                n = len(fr)
                add(f'header-survives[data_length={n}]', vand(veq(c['pgn'], pgn), veq(c['source_id'], src), veq(c['destination_id'], dst), veq(c['priority'], prio)))
                add(f'data-survives-reversed[data_length={n}]', seq_eq(list(SBytes.of(c['can_data']).items), list(reversed(fr.items))) if isinstance(c['can_data'], (SBytes, bytes)) else False)
        finish(obs, out, tier, einfo)
        return out


def add(run, tier):
    for fmt in ('ebyte', 'usb', 'yd', 'actisense'):
        run.add(WireRoundTrip(fmt))
    for pos in range(2, 20):
        run.add(WireRoundTrip('usb', corrupt=pos))
