"""C15  JSON round-trips to an equivalent, re-encodable message; dump is faithful."""
from __future__ import annotations
import datetime
import json
import random
import time
from pyvc.report import PropertyRun, Task
from pyvc.tasks import repo
from contracts.decoder_c import DecodeTask
from props.C01 import db, chunks


def payloads_for(defn, rnd):
    n = defn.length or max(8, (max((f.offset_bits or 0) + (f.L or 0) for f in defn.fields) + 7) // 8 if defn.fields else 8)
    nbits = 8 * n
    base = 0
    for f in defn.match_fields:
        base |= int(f.match) << f.offset_bits
    mask_match = 0
    for f in defn.match_fields:
        mask_match |= ((1 << f.L) - 1) << f.offset_bits
    outs = [0, (1 << nbits) - 1]
    for _ in range(4):
        outs.append(rnd.getrandbits(nbits))
    # per-field boundary values on a zero payload
    for f in defn.fields:
        if f.L is None or f.offset_bits is None:
            continue
        rng = f.raw_range() if f.type in ('NUMBER', 'TIME', 'DATE', 'DURATION', 'MMSI', 'PGN') else None
        vals = [0, (1 << f.L) - 1, (1 << f.L) - 2, 1 << (f.L - 1), (1 << (f.L - 1)) - 1]
        if rng:
            vals += [rng[0] & ((1 << f.L) - 1), rng[1] & ((1 << f.L) - 1)]
        for v in vals[:4] if f.L > 2 else vals[:2]:
            outs.append((v & ((1 << f.L) - 1)) << f.offset_bits)
    return [((p & ~mask_match) | base, n) for p in outs]


def norm(v):
    if isinstance(v, (bytes, bytearray)):
        return bytes(v).hex()
    if isinstance(v, (datetime.date, datetime.time, datetime.datetime)):
        return v.isoformat()
    if isinstance(v, datetime.timedelta):
        return v.total_seconds()
    return v


# (priority, source, destination) boundary values cycled over the corpus
ADDRESSING = [(3, 7, 255), (0, 0, 0), (7, 255, 255), (1, 254, 1), (6, 1, 35), (2, 0, 254), (5, 128, 0)]


class JsonCorpusTask(Task):
    """Bounded: executes the contract from_json(to_json(m)) ~ m and encode(from_json(to_json(m))) == encode(m) natively."""
    def __init__(self, defs):
        self.defs = defs
        self.name = f'C15:json-corpus[{defs[0].suffix}..{defs[-1].suffix}]'

    def run(self, tier):
        import nmea2000.pgns as P
        from nmea2000.message import NMEA2000Message
        from nmea2000.decoder import NMEA2000Decoder
        from nmea2000.encoder import NMEA2000Encoder
        out = {'results': [], 'functions': [], 'notes': [], 'bounded': []}
        rnd = random.Random(int(__import__('os').environ.get('VERIF_SEED', '0') or 0) + 15)
        tried = 0
        fails = []
        dec = NMEA2000Decoder()
        enc = NMEA2000Encoder()
        for defn in self.defs:
            if defn.first_unsupported is not None:
                continue
            for (p, n) in payloads_for(defn, rnd):
                data = p.to_bytes(n, 'little')[::-1]
                try:
                    prio, src, dst = ADDRESSING[tried % len(ADDRESSING)]
                    m = dec._call_decode_function(defn.pgn, prio, src, dst, datetime.datetime(2020, 1, 2, 3, 4, 5), data, None, b'')
                except Exception:  # noqa
                    continue
                if m is None or m.id != defn.id:
                    continue
                tried += 1
                why = None
                try:
                    txt = m.to_json()
                    json.loads(txt)
                    m2 = NMEA2000Message.from_json(txt)
                    if (m2.PGN, m2.id, m2.source, m2.destination, m2.priority) != (m.PGN, m.id, m.source, m.destination, m.priority):
                        why = 'header differs after the JSON round trip'
                    elif len(m2.fields) != len(m.fields):
                        why = 'field count differs'
                    else:
                        for a, b in zip(m.fields, m2.fields):
                            va, vb = norm(a.value), b.value
                            ra, rb = norm(a.raw_value), b.raw_value
                            if isinstance(va, float) and va != va:
                                continue          # non-finite floats are excepted by the quantifier
                            if a.id != b.id or va != vb or ra != rb:
                                why = f'field {a.id}: value {va!r} -> {vb!r}, raw {ra!r} -> {rb!r}'
                                break
                    if why is None and defn.encodable:
                        try:
                            e1 = enc._call_encode_function(m)
                        except Exception:  # noqa
                            e1 = None
                        if e1 is not None:
                            e2 = enc._call_encode_function(m2)
                            if e1 != e2:
                                why = f'parsed message encodes to {e2.hex()} instead of {e1.hex()}'
                except Exception as e:  # noqa
                    why = f'{type(e).__name__}: {e}'
                if why:
                    fails.append({'definition': f'{defn.pgn}:{defn.id}', 'payload_le': p.to_bytes(n, 'little').hex(), 'why': why[:300]})
                    break
        out['bounded'].append({'kind': 'native contract evaluation of the JSON clause (orjson is a C extension)', 'messages_checked': tried, 'label': 'bounded',
                               'definitions': len(self.defs)})
        for f in fails[:5]:
            out['results'].append({'obligation': f'C15/json-roundtrip[{f["definition"]}]/bounded', 'kind': 'bounded', 'status': 'refuted', 'backend': 'native-contract', 'seconds': 0.0,
                                   'model': {'payload': f['payload_le']}, 'reason': f['why'],
                                   'replay': {'confirmed': True, 'inputs': f, 'how': 'decode -> to_json -> from_json -> compare / re-encode on the working tree'}})
        out['results'].append({'obligation': f'C15/json-corpus[{self.defs[0].suffix}..{self.defs[-1].suffix}]/ran', 'kind': 'bounded', 'status': 'discharged' if tried else 'unknown',
                               'backend': 'native-contract (bounded, not a proof)', 'seconds': 0.0})
        return out


def main(tier):
    run = PropertyRun('C15', tier, level='other')
    for combined in (True, False):
        for claim in (True, False):
            run.add(DecodeTask('C15', combined, claim))
    from contracts.decoder_c import InitDumpTask
    run.add(InitDumpTask('C15'))
    from props.C15_json import FromJsonTask, ToJsonTask
    run.add(FromJsonTask(), ToJsonTask())
    # "the parsed message encodes to the same bytes as the original": equal messages give equal bytes only if the encode
    # function is chosen by the message's own PGN and id, whatever the encoder encoded before (contract of
    # _call_encode_function, encoder state arbitrary; also part of C08 / C09)
    from contracts.encoder_c import CallEncodeTask
    run.add(CallEncodeTask('C15'))
    defs = [x for x in db().defs if db().selectable(x)]
    for ch in chunks(defs, 16):
        run.add(JsonCorpusTask(ch))
    run.explanation = ('Dump clause: deductive - every path of _decode/_call_decode_function writes exactly json(message)+newline iff the dump is enabled and the message matches the '
                       'dump filter by number or lower-cased id, and nothing for suppressed messages (obligations discharged by z3). JSON clause: BOUNDED - orjson is a C extension that no '
                       'contract can reach; the executable contract from_json(to_json(m)) ~ m and encode(from_json(to_json(m))) == encode(m) is evaluated natively on a boundary corpus '
                       '(per definition: zero, all-ones, random and per-field extreme payloads); counted as bounded_stand_ins, never as discharged proof obligations.')
    run.trust('to_json/from_json contracts in _call_decode_function are abstract (the dumped text is to_json() of the returned message)', 'z3 5.1')
    run.assume('orjson, datetime.isoformat: external (bounded stand-in)', 'file object: write appends the string given; close() is called by NMEA2000Decoder.close (not under contract)')
    return run.execute()
