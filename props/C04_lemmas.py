"""Single-step lemmas over the transition function T (the per-call contract of _decode_fast_message):
with the invariant Inv(record, current message M) they give, by induction on the history, the property for
histories of any length (the induction itself is the usual meta-argument and is not mechanised)."""
from __future__ import annotations
import z3
from pyvc.solve import Obligation
from pyvc.tasks import LemmaTask
from spec import specfun as S

NS = 32


def true_len(n, i):
    """Number of payload bytes of message length n carried by frame i."""
    if i == 0:
        return min(n, 6)
    return max(0, min(7, n - 6 - 7 * (i - 1)))


def cap(i):
    return 6 if i == 0 else 7


def state(prefix=''):
    occ = [z3.Bool(f'{prefix}occ{i}') for i in range(NS)]
    t = [z3.Int(f'{prefix}len{i}') for i in range(NS)]
    stored = z3.Int(f'{prefix}stored')
    return occ, t, stored


def inv(n, occ, t, stored):
    """Inv for a record assembling a message of announced length n (sequence counter and contents are carried
    separately: slots hold exactly the frames of M, possibly padded)."""
    k = S.nframes(n)
    cs = [occ[0]]
    tot = z3.IntVal(0)
    for i in range(NS):
        if i < k:
            # a stored frame carries at least the true chunk and at most the frame capacity (padding)
            cs.append(z3.Implies(occ[i], z3.And(t[i] >= true_len(n, i), t[i] <= cap(i))))
            cs.append(z3.Implies(z3.Not(occ[i]), t[i] == 0))
        else:
            cs.append(z3.Not(occ[i]))
            cs.append(t[i] == 0)
        tot = tot + z3.If(occ[i], t[i], 0)
    cs.append(stored == tot)
    return z3.And(*cs)


def lemmas_for(lengths):
    def build(tier):
        out = []
        for n in lengths:
            k = S.nframes(n)
            occ, t, stored = state()
            I = inv(n, occ, t, stored)
            allp = z3.And(*[occ[i] for i in range(k)])
            # (2) completion exactly when the last missing frame has been stored (n >= 1; n = 0 completes at the first frame)
            if n >= 1:
                out.append(Obligation(f'C04/lemma/complete-iff-all-frames-present[n={n}]', [I], (stored >= n) == allp, kind='lemma',
                                      inputs={f'occ{i}': occ[i] for i in range(k)}))
            else:
                out.append(Obligation(f'C04/lemma/complete-iff-all-frames-present[n={n}]', [I], stored >= n, kind='lemma'))
            # (1) storing a missing frame j of M (any order) preserves the invariant
            j = z3.Int('j')
            tj = z3.Int('tj')
            occ2, t2, stored2 = state('post.')
            hy = [I, j >= 1, j < k, tj <= 7]
            hy.append(z3.Or(*[z3.And(j == i, z3.Not(occ[i]), tj >= true_len(n, i)) for i in range(1, k)]) if k > 1 else z3.BoolVal(False))
            for i in range(NS):
                hy.append(occ2[i] == z3.Or(occ[i], j == i))
                hy.append(t2[i] == z3.If(j == i, tj, t[i]))
            hy.append(stored2 == stored + tj)
            out.append(Obligation(f'C04/lemma/storing-a-missing-frame-preserves-the-invariant[n={n}]', hy, inv(n, occ2, t2, stored2), kind='lemma'))
            # (5) the first frame of a message re-establishes the invariant whatever the record held
            t0 = z3.Int('t0')
            occ3, t3, stored3 = state('new.')
            hy = [t0 >= true_len(n, 0), t0 <= 6, stored3 == t0, occ3[0], t3[0] == t0] + [z3.Not(occ3[i]) for i in range(1, NS)] + [t3[i] == 0 for i in range(1, NS)]
            out.append(Obligation(f'C04/lemma/first-frame-establishes-the-invariant[n={n}]', hy, inv(n, occ3, t3, stored3), kind='lemma'))
        return out
    return build


def add(run, tier):
    ls = list(range(0, 224))
    step = 14
    for i in range(0, len(ls), step):
        run.add(LemmaTask(f'C04:lemmas[n={ls[i]}..{ls[min(i + step, len(ls)) - 1]}]', lemmas_for(ls[i:i + step])))
