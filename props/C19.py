"""C19  send() writes the encoder's packets contiguously; bad messages are harmless."""
from pyvc.report import PropertyRun
from contracts import ioclient_c as I


def main(tier):
    run = PropertyRun('C19', tier, level='other')
    for cls in I.ENCODERS:
        run.add(I.SendTask('C19', cls))
    from pyvc.tasks import LemmaTask
    run.add(LemmaTask('C19:lock-identity', I.lock_identity_lemmas('C19')))
    from props import C19_extra
    C19_extra.add(run, tier)
    return run.execute()
