"""C18  Preferred-unit conversion rewrites only value and unit of matching quantities."""
from __future__ import annotations
import math
import z3
from fractions import Fraction
from pyvc import values as V
from pyvc.values import Sym, vand, veq, mk_bool, bool_term, real_term, real_q
from pyvc.gv import GV
from pyvc.sstr import SStr, Atom
from pyvc.report import PropertyRun, Task
from pyvc.tasks import repo, budget, result_dict, resolve_real
from pyvc.solve import Obligation, discharge
from pyvc.symex import explore, Obj, Opaque, EnumVal

U = Fraction(1, 2 ** 53)
# converter -> (exact formula over a z3 Real, rounding half-unit, relative tolerance of the constant)
CONV = {
    'kelvin_to_celsius': (lambda x: x - real_q(Fraction('273.15')), Fraction(1, 200), 0),
    'kelvin_to_fahrenheit': (lambda x: (x - real_q(Fraction('273.15'))) * real_q(Fraction(9, 5)) + 32, Fraction(1, 2), 0),
    'pascal_to_bar': (lambda x: x / 100000, 0, 0),
    'pascal_to_PSI': (lambda x: x / real_q(Fraction('6894.757')), 0, Fraction(1, 10 ** 6)),
    'radians_to_degrees': (lambda x: x * 180 / real_q(Fraction(math.pi)), Fraction(1, 2), 0),
    'mps_to_knots': (lambda x: x * 3600 / 1852, Fraction(1, 20), 0),
}
TABLE = {('TEMPERATURE', 'c'): ('C', 'kelvin_to_celsius'), ('TEMPERATURE', 'f'): ('F', 'kelvin_to_fahrenheit'), ('PRESSURE', 'bar'): ('Bar', 'pascal_to_bar'),
         ('PRESSURE', 'psi'): ('PSI', 'pascal_to_PSI'), ('ANGLE', 'deg'): ('Deg', 'radians_to_degrees'), ('SPEED', 'kts'): ('kts', 'mps_to_knots')}


class ConverterTask(Task):
    def __init__(self, fn):
        self.fn = fn
        self.name = f'C18:utils.{fn}'

    def run(self, tier):
        out = {'results': [], 'functions': [], 'notes': [], 'bounded': []}
        r = repo()
        info = r.func('utils.' + self.fn)
        if info is None:
            out['error'] = f'utils.{self.fn} not found'
            return out
        out['functions'].append(info.describe())
        base = f'C18/utils.{self.fn}'
        exact, half, rel = CONV[self.fn]
        obs = []
        for kind in ('none', 'int', 'float'):
            def run(ex, kind=kind):
                x = None if kind == 'none' else ex.fresh('x', kind)
                if kind != 'none':
                    ex.assume(z3.And(real_term(x) >= -10 ** 12, real_term(x) <= 10 ** 12))
                ex.ghost['x'] = x
                return ex._run_body(info, [x], {}, None)
            try:
                results = explore(r, run, inline={'utils.*'})
            except V.Unsupported as u:
                out['error'] = f'utils.{self.fn}: outside the modelled subset: {u}'
                out['results'].extend(converter_fallback(self.fn))
                return out
            for pi, p in enumerate(results):
                x = p.ex.ghost['x']
                inputs = {} if x is None else {'x': x.t}
                if p.kind == 'raise':
                    obs.append(Obligation(f'{base}[{kind}]/no-exception/path[{pi}]', list(p.pc), z3.BoolVal(False), inputs=inputs, meta={'note': f'raises {p.exc_name()}', 'fn': self.fn}))
                    continue
                if x is None:
                    obs.append(Obligation(f'{base}[none]/absent-stays-absent/path[{pi}]', list(p.pc), z3.BoolVal(p.value is None), inputs=inputs, meta={'fn': self.fn}))
                    continue
                if not (isinstance(p.value, Sym) and p.value.ty in ('float', 'int')):
                    obs.append(Obligation(f'{base}[{kind}]/returns-a-number/path[{pi}]', list(p.pc), z3.BoolVal(False), inputs=inputs, meta={'fn': self.fn}))
                    continue
                xr = real_term(x)
                ex_v = exact(xr)
                got = real_term(p.value)
                absx = z3.If(ex_v >= 0, ex_v, -ex_v)
                absin = z3.If(xr >= 0, xr, -xr)
                tol = real_q(half) + real_q(64 * U) * (absx + absin + 300) + real_q(rel) * absx
                goal = z3.And(got - ex_v <= tol, ex_v - got <= tol)
                obs.append(Obligation(f'{base}[{kind}]/result-is-the-conversion-within-the-library-rounding/path[{pi}]', list(p.pc), goal, inputs=inputs,
                                      float_model='S', meta={'exact_i2f': False, 'fn': self.fn}))
        for ob in obs:
            res = discharge(ob, budget(tier))
            dct = result_dict(res, with_size=False)
            dct['function'] = info.fullname
            if res.status == 'refuted':
                dct['reason'] = ob.meta.get('note', '')
                dct['replay'] = replay_converter(self.fn, (res.model or {}).get('x'))
                if not dct['replay'].get('confirmed'):
                    fb = converter_fallback(self.fn)
                    if fb:
                        dct['replay'] = fb[0]['replay']
            out['results'].append(dct)
        return out


def native_exact(fn, x):
    x = Fraction(x)
    return {'kelvin_to_celsius': lambda: x - Fraction('273.15'), 'kelvin_to_fahrenheit': lambda: (x - Fraction('273.15')) * Fraction(9, 5) + 32,
            'pascal_to_bar': lambda: x / 100000, 'pascal_to_PSI': lambda: x / Fraction('6894.757'), 'radians_to_degrees': lambda: x * 180 / Fraction(math.pi),
            'mps_to_knots': lambda: x * 3600 / 1852}[fn]()


def replay_converter(fn, x):
    if x is None:
        return {'confirmed': None}
    f = getattr(resolve_real('utils'), fn)
    try:
        got = f(x)
    except Exception as e:  # noqa
        return {'confirmed': True, 'inputs': {'x': x}, 'observed': ['raise', type(e).__name__]}
    ex_v = native_exact(fn, x)
    _, half, rel = CONV[fn]
    tol = half + 64 * U * (abs(ex_v) + abs(Fraction(x)) + 300) + rel * abs(ex_v)
    bad = got is None or abs(Fraction(got) - ex_v) > tol
    return {'confirmed': bool(bad), 'inputs': {'x': x}, 'observed': got, 'expected': f'{float(ex_v)} within {float(tol)}', 'how': f'nmea2000.utils.{fn}(x) on the working tree'}


def converter_fallback(fn):
    """Bounded: fine sweep of inputs through the real converter (used when the solver's model does not replay)."""
    import random
    rnd = random.Random(18)
    xs = [0, 1, 273.15, 251.764, 274.538, 300.0, 101325, 6894.757, math.pi, 1.0, 0.514444, 10.0]
    xs += [200 + i * 0.001 for i in range(0, 120000, 7)] + [rnd.uniform(0, 400) for _ in range(20000)] + [rnd.uniform(-10, 10) for _ in range(5000)]
    for x in xs:
        rp = replay_converter(fn, x)
        if rp.get('confirmed'):
            rp['found_by'] = 'bounded native sweep'
            return [{'obligation': f'C18/utils.{fn}/bounded-fallback', 'kind': 'bounded', 'status': 'refuted', 'backend': 'native-contract', 'seconds': 0.0,
                     'model': {'x': x}, 'replay': rp}]
    return []


class ApplyUnitsTask(Task):
    """apply_preferred_units on a three-field message: the middle field has the quantity under test."""
    def __init__(self, quantity, pref, layout='first'):
        self.q = quantity
        self.pref = pref
        self.layout = layout      # 'first': (VOLUME, q, no quantity) ; 'last': (q, VOLUME, another convertible quantity with an unrecognised preference, no quantity)
        self.name = f'C18:apply_preferred_units[{quantity},{pref!r}' + (',then-unconverted-fields' if layout == 'last' else '') + ']'

    def run(self, tier):
        out = {'results': [], 'functions': [], 'notes': [], 'bounded': []}
        r = repo()
        info = r.func('message.NMEA2000Message.apply_preferred_units')
        out['functions'].append(info.describe())
        base = f'C18/message.NMEA2000Message.apply_preferred_units[{self.q},{self.pref!r}' + (',then-unconverted-fields' if self.layout == 'last' else '') + ']'
        other = 'PRESSURE' if self.q != 'PRESSURE' else 'TEMPERATURE'
        layout = ('VOLUME', self.q, None) if self.layout == 'first' else (self.q, 'VOLUME', other, None)
        ti = layout.index(self.q)
        calls = []

        def conv_contract(fn):
            def call(ex, f, args, kwargs):
                calls.append((fn, args[0]))
                return Opaque(f'{fn}-result')
            return call
        contracts = {f'nmea2000.utils.{fn}': conv_contract(fn) for fn in CONV}

        def run(ex):
            g = ex.ghost
            calls.clear()
            fields = []
            for i, q in enumerate(layout):
                attrs = {'id': f'f{i}', 'name': f'n{i}', 'description': None, 'unit_of_measurement': Opaque(f'unit{i}'), 'value': Opaque(f'value{i}'), 'raw_value': Opaque(f'raw{i}'),
                         'physical_quantities': EnumVal('PhysicalQuantities', q) if q else None, 'type': Opaque('type'), 'part_of_primary_key': False}
                fields.append(Obj(r.cls('message', 'NMEA2000Field'), attrs))
            g['fields'] = fields
            g['orig'] = [dict(f.attrs) for f in fields]
            msg = Obj(r.cls('message', 'NMEA2000Message'), {'PGN': 1, 'id': 'x', 'fields': fields, 'hash': Opaque('hash'), 'source': 1})
            g['msg'] = msg
            g['msg_orig'] = dict(msg.attrs)
            prefs = {}
            if self.pref is not None:
                prefs[EnumVal('PhysicalQuantities', self.q if self.q in ('TEMPERATURE', 'PRESSURE', 'ANGLE', 'SPEED') else 'TEMPERATURE')] = self.pref
            prefs[EnumVal('PhysicalQuantities', 'VOLUME')] = 'gal'       # a quantity without conversions
            if self.layout == 'last':
                prefs[EnumVal('PhysicalQuantities', other)] = 'zzz'     # a convertible quantity with an unrecognised preference
            g['prefs'] = prefs
            return ex._run_body(info, [prefs], {}, msg)
        try:
            results = explore(r, run, contracts=contracts)
        except V.Unsupported as u:
            out['error'] = f'apply_preferred_units: outside the modelled subset: {u}'
            return out
        obs = []
        for pi, p in enumerate(results):
            g = p.ex.ghost

            def add(name, goal, note=''):
                obs.append(Obligation(f'{base}/{name}/path[{pi}]', list(p.pc), z3.BoolVal(bool(goal)), inputs={}, meta={'note': note}))
            if p.kind == 'raise':
                add('no-exception', False, f'raises {p.exc_name()}')
                continue
            fields, orig = g['fields'], g['orig']
            exp = TABLE.get((self.q, self.pref))
            for i, (f, o) in enumerate(zip(fields, orig)):
                changed = {k for k in set(f.attrs) | set(o) if f.attrs.get(k) is not o.get(k)}
                if i == ti and exp is not None:
                    add('only-value-and-unit-rewritten', changed <= {'value', 'unit_of_measurement'}, f'changed: {sorted(changed)}')
                    add('unit-label-set', f.attrs['unit_of_measurement'] == exp[0], f'unit {f.attrs["unit_of_measurement"]!r}, expected {exp[0]!r}')
                    mine = [c for c in calls if c[1] is o['value']]
                    add('value-is-the-converter-result', len(mine) == 1 and mine[0][0] == exp[1] and isinstance(f.attrs['value'], Opaque) and f.attrs['value'].name == f'{exp[1]}-result',
                        f'converter calls {[(c[0]) for c in calls]}, value {f.attrs["value"]!r}')
                else:
                    add(f'field{i}-untouched', not changed, f'changed: {sorted(changed)}')
            add('message-attributes-untouched', all(g['msg'].attrs.get(k) is v for k, v in g['msg_orig'].items()) and set(g['msg'].attrs) == set(g['msg_orig']))
            add('preferences-not-modified', len(g['prefs']) == (2 if self.pref is not None else 1) + (1 if self.layout == 'last' else 0))
        for ob in obs:
            res = discharge(ob, budget(tier))
            dct = result_dict(res, with_size=False)
            dct['function'] = info.fullname
            if res.status == 'refuted':
                dct['reason'] = ob.meta.get('note', '')
                dct['replay'] = replay_units(self.q, self.pref, self.layout)
                if not dct['replay'].get('confirmed'):
                    h = history_units()
                    if h.get('confirmed'):
                        dct['replay'] = h
            out['results'].append(dct)
        return out


def replay_units(q, pref, layout='first'):
    from nmea2000.message import NMEA2000Message, NMEA2000Field
    from nmea2000.consts import PhysicalQuantities as PQ
    qq = getattr(PQ, q) if q else None
    x = 300.0
    other = PQ.PRESSURE if q != 'PRESSURE' else PQ.TEMPERATURE
    vol = NMEA2000Field('a', value=5.0, raw_value=5.0, unit_of_measurement='L', physical_quantities=PQ.VOLUME)
    tested = NMEA2000Field('b', value=x, raw_value=x, unit_of_measurement='u', physical_quantities=qq)
    plain = NMEA2000Field('c', value=None, raw_value=None)
    oth = NMEA2000Field('d', value=7.5, raw_value=7.5, unit_of_measurement='w', physical_quantities=other)
    fs = [vol, tested, plain] if layout == 'first' else [tested, vol, oth, plain]
    m = NMEA2000Message(PGN=1, id='x', fields=fs)
    prefs = {PQ.VOLUME: 'gal'}
    if layout == 'last':
        prefs[other] = 'zzz'
    if pref is not None and qq is not None:
        prefs[qq if q in ('TEMPERATURE', 'PRESSURE', 'ANGLE', 'SPEED') else PQ.TEMPERATURE] = pref
    m.apply_preferred_units(prefs)
    exp = TABLE.get((q, pref))
    bad = []
    if (vol.value, vol.unit_of_measurement, vol.raw_value) != (5.0, 'L', 5.0) or plain.value is not None or (oth.value, oth.unit_of_measurement, oth.raw_value) != (7.5, 'w', 7.5):
        bad.append(f'another field changed: {vol.value} {vol.unit_of_measurement}; {oth.value} {oth.unit_of_measurement}; {plain.value}')
    if exp is None:
        if (tested.value, tested.unit_of_measurement) != (x, 'u'):
            bad.append(f'unrecognised preference changed the field to {tested.value} {tested.unit_of_measurement}')
    else:
        want = native_exact(exp[1], x)
        if tested.unit_of_measurement != exp[0] or tested.raw_value != x or abs(Fraction(tested.value) - want) > CONV[exp[1]][1] + Fraction(1, 10 ** 4):
            bad.append(f'{tested.value} {tested.unit_of_measurement} (raw {tested.raw_value}), expected about {float(want)} {exp[0]}')
    return {'confirmed': bool(bad), 'inputs': {'quantity': q, 'preference': pref, 'value': x, 'field order': [f.id for f in fs], 'preferences': {k.name: v for k, v in prefs.items()}}, 'observed': bad,
            'how': 'NMEA2000Message.apply_preferred_units on the working tree'}


_HIST = {}


def history_units():
    """Bounded native battery: one long-lived decoder per preference set decodes a sample payload of EVERY database
    definition (database order, then reversed) and each result is compared with a fresh decoder without preferences
    plus the conversion table - a hidden dependence of the conversion on earlier traffic shows up here."""
    if 'r' in _HIST:
        return _HIST['r']
    from nmea2000.decoder import NMEA2000Decoder
    from nmea2000.consts import PhysicalQuantities as PQ
    from spec.canboat import sample_line
    from props.C01 import db
    defs = [d for d in db().defs]
    bad = None
    for prefs in ({PQ.TEMPERATURE: 'c', PQ.PRESSURE: 'bar', PQ.ANGLE: 'deg', PQ.SPEED: 'kts'}, {PQ.TEMPERATURE: 'F', PQ.PRESSURE: 'psi', PQ.VOLUME: 'gal'}):
        dec = NMEA2000Decoder(preferred_units=prefs)
        low = {k.name: v.lower() for k, v in prefs.items()}
        for order in (defs, defs[::-1]):
            for d in order:
                line = sample_line(d)
                try:
                    ref = NMEA2000Decoder().decode_basic_string(line, True)
                except Exception:  # noqa
                    continue
                try:
                    got = dec.decode_basic_string(line, True)
                except Exception as e:  # noqa
                    bad = {'frame': line, 'preferences': low, 'observed': f'raises {type(e).__name__}: {e}', 'expected': 'the unconverted message with converted values'}
                    break
                if ref is None or got is None:
                    if (ref is None) != (got is None):
                        bad = {'frame': line, 'preferences': low, 'observed': str(got)[:120], 'expected': str(ref)[:120]}
                        break
                    continue
                if (got.PGN, got.id, len(got.fields)) != (ref.PGN, ref.id, len(ref.fields)):
                    bad = {'frame': line, 'preferences': low, 'observed': f'{got.id} with {len(got.fields)} fields', 'expected': f'{ref.id} with {len(ref.fields)} fields'}
                    break
                for fg, fr_ in zip(got.fields, ref.fields):
                    q = fr_.physical_quantities.name if fr_.physical_quantities is not None else None
                    exp = TABLE.get((q, low.get(q)))
                    same_rest = (fg.id, fg.name, fg.raw_value, fg.type, fg.part_of_primary_key, fg.physical_quantities) == (fr_.id, fr_.name, fr_.raw_value, fr_.type, fr_.part_of_primary_key, fr_.physical_quantities)
                    if exp is None or fr_.value is None or not isinstance(fr_.value, (int, float)):
                        ok = same_rest and fg.value == fr_.value and fg.unit_of_measurement == fr_.unit_of_measurement
                        want = f'{fr_.value} {fr_.unit_of_measurement}'
                    else:
                        w = native_exact(exp[1], fr_.value)
                        _, half, rel = CONV[exp[1]]
                        tol = half + 64 * U * (abs(w) + abs(Fraction(fr_.value)) + 300) + rel * abs(w)
                        ok = same_rest and fg.unit_of_measurement == exp[0] and isinstance(fg.value, (int, float)) and abs(Fraction(fg.value) - w) <= tol
                        want = f'about {float(w)} {exp[0]}'
                    if not ok:
                        bad = {'frame': line, 'definition': d.id, 'preferences': low, 'field': fr_.id, 'observed': f'{fg.value} {fg.unit_of_measurement} (raw {fg.raw_value})', 'expected': want,
                               'history': 'sample payloads of all database definitions decoded before this one by the same decoder'}
                        break
                if bad:
                    break
            if bad:
                break
        if bad:
            break
    _HIST['r'] = {'confirmed': bool(bad), 'inputs': bad, 'how': 'long-lived NMEA2000Decoder(preferred_units=...) over sample payloads of every definition, working tree'}
    return _HIST['r']


def main(tier):
    run = PropertyRun('C18', tier, level='proof')
    for fn in CONV:
        run.add(ConverterTask(fn))
    for q in ('TEMPERATURE', 'PRESSURE', 'ANGLE', 'SPEED', 'LENGTH', None):
        for pref in ('c', 'f', 'bar', 'psi', 'deg', 'kts', 'xyz', None):
            run.add(ApplyUnitsTask(q, pref))
            if q is not None:
                # the converted field comes first and fields that must stay as they are follow it (nothing carries over)
                run.add(ApplyUnitsTask(q, pref, layout='last'))
    from contracts.decoder_c import init_tasks, InitPrefsTask
    run.add(InitPrefsTask('C18'))
    run.trust('float model S; round(x, nd) by specification: a double within half a unit of 10^-nd of x (ties unspecified)', 'math.degrees(x) = fl(x * fl(180/pi))', 'z3 5.1')
    run.assume('preferences are lower-cased by the decoder constructor (C10 constructor task) and applied after add_data as the last state-free step of _call_decode_function (C11 obligations)',
               '|value| <= 1e12 in the converter obligations; psi: the library constant 6894.76 is accepted within 1e-6 relative of 6894.757')
    return run.execute()
