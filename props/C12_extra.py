from contracts import ioclient_c as I


def add(run, tier):
    run.add(I.BoundedScenarioTask('C12', ['delivery_order', 'serial_split_marker']))
    run.explanation = ('Deductive per-call contracts under assumed asyncio dependency contracts: each call of the three receive paths queues exactly the messages the decoder returns for '
                       'the packets it obtained, in order, decode errors never escape, nothing else is changed; the Waveshare path is proved, for a buffer of ANY length and content '
                       '(uninterpreted byte function, quantified axioms), to hand decode_usb exactly the 20-byte window at the first AA 55, to continue right after it, and to keep a '
                       'suffix of the stream that drops no start marker and no trailing AA; the consumer loop takes one item, awaits the callback with exactly that item, survives '
                       'callback exceptions and never runs callbacks concurrently. Segmentation independence of TCP reads is the contract of StreamReader (assumed); the chunking lemma for '
                       'the serial scan over whole streams is a BOUNDED stand-in (scripted splits around the marker).')
    run.trust('rely/guarantee at awaits', 'asyncio dependency contracts: readexactly/readline return consecutive blocks/lines of the stream whatever the segmentation; Queue is FIFO and unbounded', 'z3 5.1 (quantified buffer axioms)')
    run.assume('whole-stream chunking independence of the serial scan: bounded stand-in', 'real transports are replaced by dependency contracts')
