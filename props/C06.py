"""C06  Every gateway wire format round-trips and obeys its fixed framing."""
from pyvc.report import PropertyRun
from pyvc.tasks import SpecTask
from contracts.wire import EncoderTask, DecoderTask
from contracts.utils_c import Checksum


def main(tier):
    run = PropertyRun('C06', tier, level='proof')
    for n in (19, 20):
        run.add(SpecTask(Checksum(n)))
    for fmt in ('ebyte', 'usb', 'yd', 'actisense'):
        run.add(EncoderTask(fmt))
    for fmt in ('tcp', 'usb', 'yd', 'actisense'):
        run.add(DecoderTask(fmt))
    # "a concatenation of packets is split back into the same packets by the matching receive path": one receive step
    # of each client from an arbitrary pending buffer (the framing step; the same contract C12/C20 use)
    from contracts import ioclient_c as I
    for cls in ('EByteNmea2000Gateway', 'ActisenseNmea2000Gateway', 'YachtDevicesNmea2000Gateway', 'WaveShareNmea2000Gateway'):
        run.add(I.ReceiveImplTask('C06', cls))
        if cls == 'WaveShareNmea2000Gateway':
            run.add(I.ReceiveImplTask('C06', cls, later_iteration=True))
    # messages longer than one frame: the packets carry the frames _encode_fast_message cuts (its segmentation contract,
    # also part of C03) and the identifier built / parsed by the header pair (also part of C05)
    # whether a message is cut into fast-packet frames depends on its PGN only, never on how long its payload happens to be
    # (contract of _encode, also part of C03)
    from contracts.encoder_c import EncodeTask
    run.add(EncodeTask('C06'))
    for n in (0, 1, 3, 6, 7, 8, 20):
        run.add(EncodeTask('C06', payload_len=n))
    from props.C03 import EncodeFastTask
    from props.C01 import chunks
    for ch in chunks(list(range(0, 224)), 32):
        run.add(EncodeFastTask(ch, prop='C06'))
    from contracts.headers import ExtractHeader, BuildHeader
    from pyvc.tasks import with_prop
    run.add(SpecTask(with_prop(ExtractHeader(), 'C06')), SpecTask(with_prop(BuildHeader(), 'C06')))
    from props import C06_extra
    C06_extra.add(run, tier)
    run.extra_cov['exhaustive'] = True
    run.extra_cov['exhaustive_note'] = 'frame data lengths 0..8 enumerated for every format; identifier, header fields and data bytes symbolic'
    run.trust('token axioms for text formats: (A1) a formatted integer contains only hex digits, (A2) int(format(v, "0NX"), 16) == v in either letter case, (A3) split() of space/comma separated non-empty tokens gives the tokens back',
              'pyvc bytes / list / f-string model', 'z3 5.1')
    run.assume('receive path: StreamReader.readexactly(13) / readline() / read(n) deliver the stream in order whatever the segmentation (dependency contract, assumed); splitting a whole '
               'concatenation follows from the proved single step by induction on the number of packets (not mechanised)',
               'timestamps: datetime.now/strptime/timedelta are total on well-formed tokens and do not influence the decoded frame',
               '_encode and _decode are used through their contracts here (frames of at most 8 bytes; C02/C03/C09 and C10/C11)',
               'header field ranges: 0<=priority<=7, 0<=source,destination<=255, 0<=PGN<2^18')
    return run.execute()
