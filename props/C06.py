"""C06  Every gateway wire format round-trips and obeys its fixed framing."""
from pyvc.report import PropertyRun
from pyvc.tasks import SpecTask
from contracts.wire import EncoderTask, DecoderTask
from contracts.utils_c import Checksum


def main(tier):
    run = PropertyRun('C06', tier, level='proof')
    for n in (19, 20):
        run.add(SpecTask(Checksum(n)))
    for fmt in ('ebyte', 'usb', 'yd', 'actisense'):
        run.add(EncoderTask(fmt))
    for fmt in ('tcp', 'usb', 'yd', 'actisense'):
        run.add(DecoderTask(fmt))
    from props import C06_extra
    C06_extra.add(run, tier)
    run.extra_cov['exhaustive'] = True
    run.extra_cov['exhaustive_note'] = 'frame data lengths 0..8 enumerated for every format; identifier, header fields and data bytes symbolic'
    run.trust('token axioms for text formats: (A1) a formatted integer contains only hex digits, (A2) int(format(v, "0NX"), 16) == v in either letter case, (A3) split() of space/comma separated non-empty tokens gives the tokens back',
              'pyvc bytes / list / f-string model', 'z3 5.1')
    run.assume('timestamps: datetime.now/strptime/timedelta are total on well-formed tokens and do not influence the decoded frame',
               '_encode and _decode are used through their contracts here (frames of at most 8 bytes; C02/C03/C09 and C10/C11)',
               'header field ranges: 0<=priority<=7, 0<=source,destination<=255, 0<=PGN<2^18')
    return run.execute()
