def encode_fallback(n):
    import random
    from props.C03 import replay_encode
    rnd = random.Random(n)
    for s in range(8):
        m = {'seq': s}
        m.update({f'p{i}': rnd.randrange(256) for i in range(n)})
        rp = replay_encode(n, m)
        if rp.get('confirmed'):
            return [{'obligation': f'C03/encoder.NMEA2000Encoder._encode_fast_message[n={n}]/bounded-fallback', 'kind': 'bounded', 'status': 'refuted',
                     'backend': 'native-contract', 'seconds': 0.0, 'model': m, 'replay': rp}]
    return []
