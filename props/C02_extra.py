from contracts.encoder_c import CallEncodeTask


def add(run, tier):
    run.add(CallEncodeTask('C02'))
