"""C03 decoder side: the frames the real encoder produces, fed in order to the real _decode_fast_message,
give nothing until the last frame and then exactly one delivery of the original payload.  One symbolic run per
payload length (bytes, counter, addressing and the pre-existing record symbolic); complete for that length."""
from __future__ import annotations
import time
import z3
from pyvc import values as V
from pyvc.values import Sym, bool_term, vand, veq, mk_int, mk_bool
from pyvc.sbytes import SBytes
from pyvc.symmap import Combined, ABSENT, present_term
from pyvc.report import Task
from pyvc.tasks import repo, budget, result_dict
from pyvc.solve import Obligation, discharge
from pyvc.symex import explore, built_instance, Obj, Opaque
from props.C01 import term, chunks
from props.C04 import State, frames_setattr_hook, FUNC


class RoundTripTask(Task):
    def __init__(self, lengths, pad):
        self.lengths = lengths
        self.pad = pad
        self.name = f'C03:encode->decode[n={lengths[0]}..{lengths[-1]},pad={pad}]'

    def run(self, tier):
        out = {'results': [], 'functions': [], 'notes': [], 'bounded': []}
        r = repo()
        enc_info = r.func('encoder.NMEA2000Encoder._encode_fast_message')
        dec_info = r.func(FUNC)
        out['functions'].append(dec_info.describe())
        for n in self.lengths:
            if any(x['status'] == 'refuted' for x in out['results']):
                out['notes'].append(f'{self.name}: stopped at the first payload length with a refuted obligation')
                break
            try:
                self.one(r, enc_info, dec_info, n, tier, out)
            except V.Unsupported as u:
                out['error'] = f'round trip n={n}: outside the modelled subset: {u}'
                from props.C04_scenarios import fallback_results
                out['results'].extend(fallback_results())
                return out
        return out

    def one(self, r, enc_info, dec_info, n, tier, out):
        base = f'C03/roundtrip[n={n},padding={"yes" if self.pad else "no"}]'
        pad = self.pad

        def cdf(ex, f, args, kwargs):
            ex.ghost.setdefault('cdf_calls', []).append(list(args))
            return Opaque('decode-result')

        def run(ex):
            st = State(ex, r, 0)
            ex.ghost['st'] = st
            s = ex.fresh('seq', bits=3)
            ex.ghost['s'] = s
            # the previous message of this stream (if any) had a different counter - as the encoder guarantees
            ex.assume(z3.Or(st.absent.t, st.sc.t != s.t))
            P = [ex.fresh(f'p{i}', bits=8) for i in range(n)]
            ex.ghost['P'] = P
            enc = built_instance(ex, r.cls('encoder', 'NMEA2000Encoder'), {'sequence_counter': s})
            frames = ex._run_body(enc_info, [st.pgn, st.priority, st.src, st.dest, SBytes(P)], {}, enc)
            rets = []
            for fr in frames:
                items = list(SBytes.of(fr).items)
                if pad:
                    items = items + [ex.fresh('pad', bits=8) for _ in range(8 - len(items))]
                can = SBytes(items[::-1])
                rets.append(ex._run_body(dec_info, [st.pgn, st.priority, st.src, st.dest, st.timestamp, can, st.iso, st.raw], {}, st.decoder))
                ex.ghost.setdefault('ncalls_after', []).append(len(ex.ghost.get('cdf_calls', [])))
            return rets
        results = explore(r, run, contracts={'nmea2000.decoder.NMEA2000Decoder._call_decode_function': cdf},
                          inline={'nmea2000.decoder.fast_pgn_metadata.__init__'}, hooks={'setattr': frames_setattr_hook})
        obs = []
        for pi, p in enumerate(results):
            hyps = list(p.pc)
            st = p.ex.ghost['st']
            inputs = dict(st.inputs)
            inputs['seq'] = p.ex.ghost['s'].t
            for i, b in enumerate(p.ex.ghost['P']):
                inputs[f'p{i}'] = b.t

            def add(name, goal, note=''):
                obs.append(Obligation(f'{base}/{name}/path[{pi}]', hyps, term(goal), kind='lemma', inputs=inputs, meta={'note': note}))
            if p.kind == 'raise':
                add('no-exception', False, f'raises {p.exc_name()}')
                continue
            rets = p.value
            nc = p.ex.ghost.get('ncalls_after', [])
            add('nothing-until-the-last-frame', all(x is None for x in rets[:-1]) and all(c == 0 for c in nc[:-1]), f'returns {rets[:-1]!r}, deliveries {nc}')
            calls = p.ex.ghost.get('cdf_calls', [])
            add('exactly-one-delivery-at-the-last-frame', len(calls) == 1 and rets[-1] is not None, f'{len(calls)} deliveries')
            if len(calls) == 1:
                got = calls[0][5]
                gb = got.concrete_bytes() if isinstance(got, Combined) else (got if isinstance(got, (SBytes, bytes)) else None)
                want = SBytes(list(p.ex.ghost['P'])[::-1])
                add('delivered-payload-is-the-original', SBytes.eq(gb, want) if gb is not None else False, f'delivered {gb!r}')
            add('record-removed-after-delivery', mk_bool(z3.Not(present_term(st.data.entries[0][1]))))
        for ob in obs:
            res = discharge(ob, budget(tier))
            dct = result_dict(res, with_size=False)
            dct['function'] = 'encoder._encode_fast_message + ' + FUNC
            if res.status == 'refuted':
                dct['reason'] = ob.meta.get('note', '')
                dct['replay'] = replay_roundtrip(n, self.pad, res.model or {})
            out['results'].append(dct)


def replay_roundtrip(n, pad, model):
    """Encode with the real encoder, feed the frames to a real decoder through decode_tcp, compare."""
    from props.C04_scenarios import packet, expected_fields, payload_of, PGN
    import nmea2000.encoder as E
    import nmea2000.decoder as D
    enc = E.NMEA2000Encoder()
    s = int(model.get('seq', 0)) % 8
    enc.sequence_counter = s
    P = bytes([0xFE, 0x9F] + [int(model.get(f'p{i}', 0)) % 256 for i in range(2, n)])[:n]
    try:
        frames = enc._encode_fast_message(PGN, 3, 1, 255, P)
        dec = D.NMEA2000Decoder()
        # a previous, incomplete message with another counter
        prev = (s + 3) % 8
        dec.decode_tcp(packet(PGN, 1, 255, bytes([(prev << 5), 40, 1, 2, 3, 4, 5, 6])))
        outs = []
        for fr in frames:
            fr = bytes(fr) + (bytes([0xFF]) * (8 - len(fr)) if pad else b'')
            outs.append(dec.decode_tcp(packet(PGN, 1, 255, fr)))
    except Exception as e:  # noqa
        return {'confirmed': True, 'inputs': {'n': n, 'seq': s, 'payload': P.hex()}, 'observed': ['raise', type(e).__name__, str(e)[:100]]}
    ok = all(o is None for o in outs[:-1]) and outs[-1] is not None and (n < 2 or payload_of(outs[-1]) == expected_fields(P))
    if ok and n >= 2:
        # the same exchange as part of a longer one: one encoder serves two streams, so the counter of stream 1 comes
        # round to the same value (8 messages later) - each message must still be delivered exactly once, at its last frame
        enc = E.NMEA2000Encoder()
        enc.sequence_counter = s
        dec = D.NMEA2000Decoder()
        for k in range(17):
            src = 1 if k % 8 == 0 else 2
            Pk = bytes([0xFE, 0x9F] + [(k * 29 + i * 7 + int(model.get(f'p{i}', 0))) % 256 for i in range(2, n)])[:n]
            o2 = []
            try:
                for fr in enc._encode_fast_message(PGN, 3, src, 255, Pk):
                    fr = bytes(fr) + (bytes([0xFF]) * (8 - len(fr)) if pad else b'')
                    o2.append(dec.decode_tcp(packet(PGN, src, 255, fr)))
            except Exception as e:  # noqa
                return {'confirmed': True, 'inputs': {'n': n, 'seq': s, 'message_index': k}, 'observed': ['raise', type(e).__name__, str(e)[:100]]}
            if not (all(o is None for o in o2[:-1]) and o2[-1] is not None and payload_of(o2[-1]) == expected_fields(Pk)):
                return {'confirmed': True, 'inputs': {'n': n, 'first_counter': s, 'padded': bool(pad), 'message_index': k, 'source': src, 'payload': Pk.hex(),
                                                      'history': '17 consecutive messages from one encoder, sources 1 (every 8th message) and 2'},
                        'observed': [None if o is None else str(payload_of(o))[:160] for o in o2][-3:], 'expected': 'None for every frame but the last, then this payload',
                        'how': 'NMEA2000Encoder._encode_fast_message -> NMEA2000Decoder.decode_tcp per frame on the working tree'}
    return {'confirmed': not ok, 'inputs': {'n': n, 'seq': s, 'payload': P.hex(), 'padded': bool(pad)},
            'observed': [None if o is None else str(payload_of(o))[:200] for o in outs][-3:], 'expected': 'None for every frame but the last, then the original payload',
            'how': 'NMEA2000Encoder._encode_fast_message -> NMEA2000Decoder.decode_tcp per frame on the working tree'}


def add(run, tier):
    from contracts.encoder_c import EncodeTask, IsFastTask
    run.add(EncodeTask('C03'), IsFastTask())
    # whether a message goes out as a fast packet depends on its PGN only, never on how long its payload happens to be
    for n in (0, 1, 3, 6, 7, 8, 20):
        run.add(EncodeTask('C03', payload_len=n))
    # receiver side of the same decision: a frame reaches the reassembly exactly when the database calls its PGN a fast
    # packet, whatever the decoder has seen before (the contract of _decode, decoder state arbitrary)
    from contracts.decoder_c import DecodeTask
    for n in (8, 3):
        run.add(DecodeTask('C03', False, False, data_len=n))
    run.add(DecodeTask('C03', True, False))
    ls = list(range(0, 224))
    for pad in (False, True):
        for ch in chunks(ls, 16):
            run.add(RoundTripTask(ch, pad))
