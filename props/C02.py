"""C02  Decoding then re-encoding a payload reproduces it on all defined bits.
   (also hosts the shared encoder machinery used by C09)"""
from __future__ import annotations
import time
import z3
from pyvc import values as V
from pyvc.values import Sym, bool_term, vand, vor, vnot, veq, mk_bool, ite
from pyvc.gv import GV
from pyvc.abstract import App, TableGet
from pyvc.sbytes import SBytes
from pyvc.report import PropertyRun, Task
from pyvc.tasks import SpecTask, LemmaTask, repo, budget, result_dict, resolve_real, _j
from pyvc.solve import Obligation, discharge
from pyvc.symex import explore, Obj, PyRaise, EnumVal
from contracts import pgns_c
from contracts.utils_c import EncodeNumber, EncodeTime
from spec import canboat as C
from spec import specfun as S
from props.C01 import db, term, chunks


def field_obj(r, consts, value, raw):
    ci = r.cls('message', 'NMEA2000Field')
    a = dict(consts)
    a['value'] = value
    a['raw_value'] = raw
    return Obj(ci, a)


def decoded_message(r, defn, d):
    """The message the (C01-verified) decoder contract yields for payload d, and the in-range hypotheses."""
    exp = pgns_c.expected_fields(db(), defn, d)
    fields = []
    inr = []
    for (f, e, off) in exp:
        val = e.value
        if isinstance(val, App) and val.fn in ('decode_date', 'decode_time'):
            val.ty = 'date' if val.fn == 'decode_date' else 'time'
            raw = e.raw
            if isinstance(raw, GV):
                val = GV.make([(g, None if v is None else val) for g, v in raw.alts])
        fields.append(field_obj(r, e.consts, val, e.raw))
        if e.in_range is not None and e.in_range is not True:
            inr.append(term(e.in_range))
    ci = r.cls('message', 'NMEA2000Message')
    msg = Obj(ci, {'PGN': defn.pgn, 'id': defn.id, 'description': defn.description, 'fields': fields,
                   'source': 0, 'destination': 255, 'priority': 6})
    return msg, exp, inr


def run_encoder(r, defn, make_msg, merge=True):
    fname = f'encode_pgn_{defn.suffix}'
    info = r.func('pgns.' + fname)
    if info is None:
        return None, None
    holder = {}

    def run(ex):
        ex.merge = merge
        msg = make_msg(ex)
        holder['msg'] = msg
        return ex._run_body(info, [msg], {}, None)
    contracts = pgns_c.encoder_contracts(r)
    from contracts.message_c import c_get_field_by_id
    contracts['nmea2000.message.NMEA2000Message.get_field_by_id'] = c_get_field_by_id
    results = explore(r, run, contracts=contracts, inline=(),
                      hooks={'bit_length': bit_length_hook})
    return info, results


def bit_length_hook(ex, x):
    bl = ex.fresh('bit_length', 'int', lo=0)
    ex.assume(z3.Implies(x.t == 0, bl.t == 0))
    ex.assume(z3.And(V.POW2(bl.t) >= 1, z3.Implies(x.t >= 0, x.t < V.POW2(bl.t))))   # x < 2**bit_length(x)
    ex.ghost[('bit_length_of', id(x))] = bl
    return bl


def result_int(v):
    """The integer a to_bytes(..., 'little') result was made from."""
    if getattr(v, 'src', None) is not None:
        return v.src[0]
    if isinstance(v, (bytes, bytearray)):
        return int.from_bytes(v, 'little')
    if isinstance(v, SBytes):
        from pyvc.sbytes import from_bytes
        return from_bytes(v, 'little')
    return None


class EncoderRoundTripTask(Task):
    def __init__(self, defs):
        self.defs = defs
        self.name = f'C02:encoders[{defs[0].suffix}..{defs[-1].suffix}]'

    def run(self, tier):
        out = {'results': [], 'functions': [], 'notes': [], 'bounded': []}
        errs = []
        for defn in self.defs:
            try:
                self.one(defn, tier, out)
            except V.Unsupported as u:
                errs.append(f'encode_pgn_{defn.suffix}: outside the modelled subset: {u}')
        if errs:
            out['error'] = '; '.join(errs[:5])
        return out

    def one(self, defn, tier, out):
        r = repo()
        d = S.FieldPayload()
        fname = f'encode_pgn_{defn.suffix}'
        base = f'C02/pgns.{fname}'
        t0 = time.time()
        store = {}

        def make_msg(ex):
            msg, exp, inr = decoded_message(r, defn, d)
            for c in d.constraints():
                ex.assume(c)
            for c in inr:
                ex.assume(c)
            store['exp'] = exp
            return msg
        info, results = run_encoder(r, defn, make_msg)
        if info is None:
            out['results'].append({'obligation': f'{base}/exists', 'kind': 'ensures', 'status': 'refuted', 'backend': 'frontend', 'seconds': 0.0,
                                   'reason': 'no generated encoder', 'replay': {'confirmed': True, 'observed': f'no {fname}'}})
            return
        fd = info.describe()
        fd['paths'] = len(results)
        fd['symex_seconds'] = round(time.time() - t0, 3)
        out['functions'].append(fd)
        obs = []
        inputs = d.input_terms()
        rng = d.constraints()

        def add(name, hyps, goal, meta=None, fm='S', exact=True):
            m = dict(meta or {})
            m['exact_i2f'] = exact
            obs.append(Obligation(f'{base}/{name}', hyps, goal, kind='ensures', func=info.fullname, inputs=inputs, meta=m, float_model=fm))
        for pi, p in enumerate(results):
            exp = pgns_c.expected_fields(db(), defn, d)
            inr_of = {id(f): ([term(e.in_range)] if e.in_range is not None and e.in_range is not True else []) for (f, e, _) in exp}
            all_inr = [c for v in inr_of.values() for c in v]
            hyps = rng + all_inr
            for (oname, cond, pc_snap) in p.ex.obligations:
                add(oname, pc_snap, cond)
            if p.kind == 'raise':
                add(f'decoded-message-is-encodable/path[{pi}]', hyps, z3.BoolVal(False), meta={'note': f'encoder raises {p.exc_name()} on a decoded message'})
                continue
            # collected exceptional outcomes must be impossible for a decoded, in-range message
            pre = [c for c in hyps]
            # hyps contains the negations of the collected guards (assumed on the continuing path): rebuild without them
            base_h = p.ex.pc_core()
            for k, (label, exc, g) in enumerate(p.ex.ghost.get('raises', [])):
                if label == 'to_bytes':
                    # only the facts about 2**k and bit_length are needed: keep the query free of the field arithmetic
                    hy = rng + [c for c in base_h if 'pow2' in c.sexpr()]
                    add(f'no-{exc}[{label}]/path[{pi}]', hy, z3.Not(g), meta={'note': f'{exc} from {label} on a decoded message'}, fm=None)
                    continue
                add(f'no-{exc}[{label}]/path[{pi}]', base_h, z3.Not(g), meta={'note': f'{exc} from {label} on a decoded message'}, exact=False)
            R = result_int(p.value)
            if R is None:
                add(f'returns-bytes/path[{pi}]', hyps, z3.BoolVal(False))
                continue
            if defn.length is not None:
                n = len(p.value) if isinstance(p.value, (SBytes, bytes)) else -1
                add(f'length/path[{pi}]', hyps, z3.BoolVal(n == defn.length), meta={'note': f'{n} bytes, database Length {defn.length}'})
            for i, (f, e, off) in enumerate(exp):
                got = S.bits(R, f.offset_bits, f.L)
                want = S.bits(d, f.offset_bits, f.L)
                wide = f.L > 48 and (f.type in C.NUMERIC) and not isinstance(f.lit(f.res), int)
                if wide:
                    n_ = want
                    diff = got - want
                    tol = z3.ToReal(V.int_term(abs(n_))) / z3.RealVal(2 ** 51) + 1
                    goal = z3.And(z3.ToReal(V.int_term(diff)) <= tol, z3.ToReal(V.int_term(-diff)) <= tol)
                else:
                    goal = term(got == want)
                add(f'field[{i}:{f.expected_id}].bits-reproduced/path[{pi}]', rng + inr_of[id(f)], goal, exact=(f.L <= 53), meta={'field_index': i})
            # whole view: nothing outside the defined fields
            cover = 0
            for (f, e, off) in exp:
                cover = cover + (S.bits(R, f.offset_bits, f.L) << f.offset_bits)
            add(f'no-bits-outside-defined-fields/path[{pi}]', hyps, term(cover == R))
        for ob in obs:
            res = discharge(ob, budget(tier))
            dct = result_dict(res, with_size=False)
            dct['function'] = f'pgns.{fname}'
            if res.status == 'refuted':
                if ob.meta.get('note'):
                    dct['reason'] = ob.meta['note']
                pl = S.FieldPayload.payload_from_model(res.model or {})
                dct['replay'] = replay_roundtrip(defn, pl)
                fi = ob.meta.get('field_index')
                if not dct['replay'].get('confirmed') and fi is not None:
                    # the solver's counterexample lives in the over-approximating float model S: search the field's raw
                    # values natively (bounded fall-back: every value for <= 16 bits, boundary + random otherwise)
                    w = search_field(defn, pl, defn.fields[fi], tier)
                    if w is not None:
                        dct['replay'] = w
                        dct['model'] = {'payload': w['inputs']['payload']}
                elif not dct['replay'].get('confirmed') and '/no-' in ob.name:
                    for f in sorted(defn.fields, key=lambda f: -f.L):
                        w = search_field(defn, pl, f, tier)
                        if w is not None:
                            dct['replay'] = w
                            dct['model'] = {'payload': w['inputs']['payload']}
                            break
            out['results'].append(dct)


def replay_roundtrip(defn, payload):
    import nmea2000.pgns as P
    dec = getattr(P, f'decode_pgn_{defn.suffix}')
    enc = getattr(P, f'encode_pgn_{defn.suffix}')
    info = {'inputs': {'payload': payload}, 'how': f'encode_pgn_{defn.suffix}(decode_pgn_{defn.suffix}(payload)) on the working tree'}
    try:
        msg = dec(payload)
    except Exception as e:  # noqa
        return dict(info, confirmed=False, note=f'decoder rejects the counterexample payload: {type(e).__name__}: {e}')
    try:
        outb = enc(msg)
    except Exception as e:  # noqa
        return dict(info, confirmed=True, observed=['raise', type(e).__name__, str(e)[:150]], expected='the decoded message is encodable')
    R = int.from_bytes(outb, 'little')
    diffs = []
    for f in defn.fields:
        a = (payload >> f.offset_bits) & ((1 << f.L) - 1)
        b = (R >> f.offset_bits) & ((1 << f.L) - 1)
        if a != b:
            if f.L > 48 and f.type in C.NUMERIC and abs(a - b) <= abs(a) * 2 ** -51 + 1:
                continue
            diffs.append(f'{f.fid}: bits {a} -> {b}')
    if defn.length is not None and len(outb) != defn.length:
        diffs.append(f'length {len(outb)} != {defn.length}')
    return dict(info, confirmed=bool(diffs), observed=diffs[:6] or 'payload reproduced', payload_hex_le=payload.to_bytes(max(1, (payload.bit_length() + 7) // 8), 'little').hex())


def search_field(defn, payload, f, tier):
    import random
    import nmea2000.pgns as P
    dec = getattr(P, f'decode_pgn_{defn.suffix}')
    enc = getattr(P, f'encode_pgn_{defn.suffix}')
    mask = ((1 << f.L) - 1) << f.offset_bits
    try:
        dec(payload)
    except Exception:  # noqa
        payload = 0
    rnd = random.Random(7)
    full = (1 << f.L) - 1
    if f.L <= 16:
        cands = range(0, full + 1)
    else:
        cands = list({0, 1, 2, full, full - 1, full - 2, full >> 1, (full >> 1) + 1, (full >> 1) - 1}) + \
            [rnd.getrandbits(f.L) for _ in range(20000 if tier == 'quick' else 300000)]
    tried = 0
    for raw in cands:
        p2 = (payload & ~mask) | (raw << f.offset_bits)
        try:
            msg = dec(p2)
        except Exception:  # noqa
            continue
        tried += 1
        try:
            R = int.from_bytes(enc(msg), 'little')
        except Exception as e:  # noqa
            return {'confirmed': True, 'inputs': {'payload': p2}, 'observed': ['raise', type(e).__name__, str(e)[:120]], 'expected': 'encodable',
                    'found_by': f'native search over raw values of field {f.fid} ({tried} tried) - bounded fall-back'}
        b = (R >> f.offset_bits) & full
        if b != raw and not (f.L > 48 and abs(b - raw) <= raw * 2 ** -51 + 1):
            return {'confirmed': True, 'inputs': {'payload': p2, 'field': f.fid, 'raw': raw}, 'observed': f'{f.fid}: raw {raw} re-encoded as {b}',
                    'expected': f'{raw}', 'found_by': f'native search over raw values of field {f.fid} ({tried} tried) - bounded fall-back',
                    'how': f'encode_pgn_{defn.suffix}(decode_pgn_{defn.suffix}(payload)) on the working tree'}
    return None


def encodable_defs():
    return [x for x in db().defs if x.encodable and db().selectable(x)]


def main(tier):
    run = PropertyRun('C02', tier, level='proof')
    repo().load('pgns')
    for L in (1, 2, 3, 4, 5, 6, 8, 11, 12, 16, 21, 24, 28, 32, 64):
        for vk, rk, ok in (('int', 'int', 'zero'), ('float', 'float', 'zero'), ('float', 'int', 'zero'), ('int', 'float', 'zero'), ('none', 'float', 'zero'),
                           ('float', 'int', 'int'), ('int', 'int', 'int'), ('float', 'float', 'int')):          # excess-K fields (Offset != 0)
            sp = EncodeNumber(L, vk, rk, ok)
            sp.prop = 'C02'
            run.add(SpecTask(sp))
    # the decode side of the round trip rests on decode_number's contract (also part of C01): checked here for every bit
    # length a NUMBER field of an encodable definition has
    from contracts.utils_c import DecodeNumber
    from pyvc.tasks import with_prop
    lens = sorted({f.L for d in encodable_defs() for f in d.fields if f.type in ('NUMBER', 'DURATION', 'TIME', 'DATE', 'PGN') and f.L})
    for L in lens:
        for kind, ok in (('int', 'zero'), ('float', 'zero'), ('int', 'int'), ('float', 'int')):
            run.add(SpecTask(with_prop(DecodeNumber(L, kind, ok), 'C02')))
    for none in (False, True):
        sp = EncodeTime(none)
        run.add(SpecTask(sp))
    for ch in chunks(encodable_defs(), 48):
        run.add(EncoderRoundTripTask(ch))
    # "a payload of the definition's length ... that equals the original on every defined bit" as it leaves the library: the frame
    # formats carry exactly the payload bytes with their true length (the packet layout contracts of C06)
    from contracts.wire import EncoderTask
    for fmt in ('ebyte', 'usb', 'yd', 'actisense'):
        run.add(EncoderTask(fmt, prop='C02'))
    from contracts.helpers_c import encode_helper_tasks
    for t in encode_helper_tasks('C02'):
        run.add(t)
    from props import C02_extra
    C02_extra.add(run, tier)
    run.trust('pyvc state-merging symbolic execution of the generated encoders; bit-field piece normal form for x |= (v & M) << o',
              'float model S (u = 2^-53) for round((n*r)/r) = n; int->float exact for |n| < 2^53',
              'decoder contract of C01 (the decoded message is the database specification of the payload)',
              'z3 5.1 / cvc5 1.0.3')
    run.assume('encode_date / encode_time / encode_float / lookup_encode_* bodies are used through assumed contracts (datetime, struct)',
               'messages are the output of the decoder for a payload whose fields are inside their database ranges')
    return run.execute()
