from contracts.encoder_c import CallEncodeTask, EncodeTask


def add(run, tier):
    # "a message that cannot be sent as such writes nothing": send() relies on every encoder failure being a ValueError
    run.add(CallEncodeTask('C19'), EncodeTask('C19'))
    # "writes exactly the packets the encoder produces for that message": the packet list a send() iterates over while it is
    # suspended in drain() must be its own - the segmentation contract with its ownership clause (also part of C03) ...
    from props.C03 import EncodeFastTask
    run.add(EncodeFastTask([0, 1, 6, 7, 13, 14, 43, 223], prop='C19'))
    # ... and the packet builders of the three binary / text formats (also part of C06)
    from contracts.wire import EncoderTask
    for fmt in ('ebyte', 'usb', 'yd'):
        run.add(EncoderTask(fmt, prop='C19'))
    run.explanation = ('Deductive per-coroutine contracts of send() for the four client classes under dependency contracts of asyncio (assumed): the packets written are the '
                       'encoder packets, in order, on the connection writer; at every suspension inside drain() between two packets of one message a lock that every send() takes is held '
                       '(contiguity for all interleavings: rely/guarantee at await); an unsendable message (encoder ValueError, or a format without an encoder) writes nothing, changes no '
                       'state and spawns nothing; a failing write leads to DISCONNECTED and exactly one connect task unless the client is CLOSED. Level other: the asyncio/transport '
                       'behaviour enters through assumed dependency contracts; liveness of the reconnection is C13.')
    run.trust('rely/guarantee at await: other tasks may change the connection state (never out of CLOSED) at every suspension', 'asyncio dependency contracts (DESIGN Appendix B)', 'z3 5.1')
    run.assume('StreamWriter.write never suspends; drain() may or may not suspend and may raise; asyncio.Lock gives mutual exclusion',
               'client objects are built by the real constructors; writer / callbacks / state are symbolic')
