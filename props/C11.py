"""C11  Messages carry the identity of their source's latest address claim."""
from __future__ import annotations
import z3
from pyvc import values as V
from pyvc.values import Sym, vand, vor, vnot, veq, mk_int, mk_bool, bool_term
from pyvc.gv import GV
from pyvc.sstr import SStr, Atom
from pyvc.report import PropertyRun, Task
from pyvc.tasks import repo, budget, result_dict
from pyvc.solve import Obligation, discharge
from pyvc.symex import explore, Obj
from contracts.decoder_c import DecodeTask, ClaimPgnTask

FIELDS = [('uniqueNumber', 'int', 21), ('manufacturerCode', 'str', 11), ('deviceInstanceLower', 'int', 3), ('deviceInstanceUpper', 'int', 5),
          ('deviceFunction', 'str', 8), ('spare', 'int', 1), ('deviceClass', 'str', 7), ('systemInstance', 'int', 4), ('industryGroup', 'str', 3),
          ('arbitraryAddressCapable', 'yesno', 1)]


class IsoNameTask(Task):
    """IsoName.__init__: the identity is a function of the claim message's fields and the 64 NAME bits."""
    name = 'C11:IsoName.__init__'

    def run(self, tier):
        out = {'results': [], 'functions': [], 'notes': [], 'bounded': []}
        r = repo()
        info = r.func('message.IsoName.__init__')
        out['functions'].append(info.describe())
        for fn in ('get_field_int_value_by_id', 'get_field_str_value_by_id', 'get_field_by_id'):
            d = r.func('message.NMEA2000Message.' + fn).describe()
            d['inlined_into'] = 'IsoName.__init__'
            out['functions'].append(d)
        base = 'C11/message.IsoName.__init__'

        def run(ex):
            g = ex.ghost
            fields = []
            vals = {}
            for fid, kind, bits in FIELDS:
                none = z3.Bool(f'{fid}.is_none')
                if kind == 'int':
                    v = ex.fresh(fid, bits=bits)
                elif kind == 'yesno':
                    yes = z3.Bool(f'{fid}.is_yes')
                    v = GV.make([(yes, 'Yes'), (z3.Not(yes), 'No')])
                    vals[fid + '.yes'] = yes
                else:
                    v = SStr([Atom(fid)])
                vals[fid] = v
                vals[fid + '.none'] = none
                fields.append(Obj(r.cls('message', 'NMEA2000Field'), {'id': fid, 'value': GV.make([(none, None), (z3.Not(none), v)]), 'raw_value': 0}))
            msg = Obj(r.cls('message', 'NMEA2000Message'), {'PGN': 60928, 'id': 'isoAddressClaim', 'fields': fields})
            g['vals'] = vals
            name = ex.fresh('NAME', bits=64)
            g['name'] = name
            obj = Obj(r.cls('message', 'IsoName'), {})
            g['obj'] = obj
            return ex._run_body(info, [msg, name], {}, obj)
        try:
            results = explore(r, run, inline={'message.*'})
        except V.Unsupported as u:
            out['error'] = f'IsoName.__init__: outside the modelled subset: {u}'
            return out
        obs = []
        for pi, p in enumerate(results):
            g = p.ex.ghost
            hyps = list(p.pc)
            vals = g['vals']

            def add(name, goal, note=''):
                gl = goal if isinstance(goal, z3.ExprRef) else (z3.BoolVal(goal) if isinstance(goal, bool) else bool_term(goal))
                obs.append(Obligation(f'{base}/{name}/path[{pi}]', hyps, gl, kind='ensures', func=info.fullname, inputs={}, meta={'note': note}))
            if p.kind == 'raise':
                add('no-exception-for-a-decoded-claim', False, f'raises {p.exc_name()}')
                continue
            a = g['obj'].attrs

            def intval(fid):
                return V.ite(Sym(vals[fid + '.none'], 'bool'), 0, vals[fid])

            def strval(fid):
                return GV.make([(vals[fid + '.none'], None), (z3.Not(vals[fid + '.none']), vals[fid])])
            add('name-is-the-64-bit-NAME', veq(a.get('name'), g['name']))
            add('unique_number', veq(a.get('unique_number'), intval('uniqueNumber')))
            add('manufacturer_code', veq(a.get('manufacturer_code'), strval('manufacturerCode')))
            add('device_instance', veq(a.get('device_instance'), (intval('deviceInstanceUpper') << 3) + intval('deviceInstanceLower')))
            add('device_function', veq(a.get('device_function'), strval('deviceFunction')))
            add('device_class', veq(a.get('device_class'), strval('deviceClass')))
            add('system_instance', veq(a.get('system_instance'), intval('systemInstance')))
            add('industry_group', veq(a.get('industry_group'), strval('industryGroup')))
            aac = a.get('arbitrary_address_capable')
            want = mk_bool(z3.And(z3.Not(vals['arbitraryAddressCapable.none']), vals['arbitraryAddressCapable.yes']))
            add('arbitrary_address_capable', veq(aac, want) if isinstance(aac, (bool, Sym)) else False)
            add('assigns-only-the-nine-identity-attributes', set(a) == {'name', 'unique_number', 'manufacturer_code', 'device_instance', 'device_function', 'device_class',
                                                                          'system_instance', 'industry_group', 'arbitrary_address_capable'}, f'{sorted(a)}')
        for ob in obs:
            res = discharge(ob, budget(tier))
            dct = result_dict(res, with_size=False)
            dct['function'] = info.fullname
            if res.status == 'refuted':
                dct['reason'] = ob.meta.get('note', '')
                from contracts.decoder_scenarios import replay_for
                dct['replay'] = replay_for('C11', 'identity', res.model or {})
            out['results'].append(dct)
        return out


def main(tier):
    run = PropertyRun('C11', tier, level='proof')
    for combined in (True, False):
        for claim in (True, False):
            run.add(DecodeTask('C11', combined, claim))
    run.add(ClaimPgnTask('C11'))
    run.add(IsoNameTask())
    from props.C04 import TransitionTask
    for m in range(2, 9):
        run.add(TransitionTask(m, prop='C11', only=('delivery-keeps-addressing-and-identity', 'assigns-no-other-decoder-state')))
    run.trust('pyvc symbolic source map (one entry per source address, keys compared as integers)', 'timestamps as real-valued seconds', 'z3 5.1')
    run.assume('permissive reading of the statement: a source whose claimed manufacturer code is unknown (None) is not filtered by the manufacturer lists',
               'the claim message fields are functions of the 64 NAME bits (C01, PGN 60928)',
               'fast-packet frames: the identity handed to the reassembler is the one current at that frame; the completing frame decides (C04 delivery-keeps-addressing-and-identity)',
               'histories: per-call contracts + induction on the history (not mechanised)')
    return run.execute()
