def add(run, tier):
    pass
