from contracts import ioclient_c as I


def add(run, tier):
    run.add(I.BoundedScenarioTask('C20', ['serial_buffer', 'serial_split_marker']))
    run.explanation = ('Deductive per call, for a pending buffer of any length <= 120 and any content plus any read of 1..100 bytes: a packet is decoded only from the 20-byte window at '
                       'the first AA 55; decode_usb (proved separately) never delivers a window whose checksum byte differs from the sum of bytes 2..18; what is held back is a suffix of the '
                       'stream that contains every start marker not yet consumed and a trailing AA, and stays <= 120 bytes (in fact <= 19). The resynchronisation lemmas over whole '
                       'streams (marker-free noise loses no packet; after noise at most the next packet is lost) are BOUNDED stand-ins: scripted streams with 3000 bytes of noise, noise '
                       'ending in half a marker, and every read boundary near the marker.')
    run.trust('uninterpreted byte function with quantified axioms for bytearray.extend/find/slices', 'StreamReader.read(n) returns 1..n bytes, b"" only at end of stream', 'z3 5.1')
    run.assume('resynchronisation over whole streams: bounded stand-in', 'valid packets contain no AA 55 after their header (as in the quantifier)')
